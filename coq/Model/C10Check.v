(* Model/C10Check.v -- case type and checker used by the generated correspondence files for C10 *)
From Coq Require Import List String Bool Arith QArith.
From PG Require Import Model.Grid Gen.C10Skeleton.
Import ListNotations.
Open Scope nat_scope.
Open Scope list_scope.

Inductive c10obs :=
| ORaised                                           (* the call raised ValueError *)
| ODone (cands : list (list (string * list Q)))     (* per fitted candidate, in the order of the returned dict: parameter -> flattened attribute *)
        (scores : list escore)                      (* values of the returned dict (self first when it was fitted) *)
        (kept : list nat)                           (* positions in the returned dict of the models self coincides with afterwards *)
        (self_changed : bool)                       (* self's coefficients / hyper-parameters differ from before the call *)
        (ret_scores : bool)                         (* the call returned a dict (otherwise: self) *)
        (obj_names : list string).                  (* statistics_ keys whose values equal the returned scores for every model *)

Inductive c10case :=
| GCase (ps : list (string * nat * grid Q)) (known_scale : bool) (objective : string)
        (self_score : option escore) (keep_best return_scores : bool)
        (outcomes : list (option escore))           (* per model candidate: its score, or None if fitting it raises ValueError *)
        (obs : c10obs).

Definition qlist_eqb (a b : list Q) : bool :=
  Nat.eqb (List.length a) (List.length b) && forallb (fun p => Qeq_bool (fst p) (snd p)) (List.combine a b).
Definition escore_eqb (a b : escore) : bool :=
  match a, b with Fin x, Fin y => Qeq_bool x y | Inf, Inf => true | _, _ => false end.

Fixpoint all2 {A B} (f : A -> B -> bool) (l : list A) (m : list B) : bool :=
  match l, m with [], [] => true | a :: l', b :: m' => f a b && all2 f l' m' | _, _ => false end.

Definition tl_of (ps : list (string * nat * grid Q)) (name : string) : nat :=
  match find (fun p => String.eqb (fst (fst p)) name) ps with Some p => snd (fst p) | None => 0 end.

Definition cand_values (ps : list (string * nat * grid Q)) (c : list (string * gval Q)) : list (string * list Q) :=
  map (fun nv => (fst nv, broadcast (tl_of ps (fst nv)) (snd nv))) c.

Fixpoint keep_fitted {A} (cs : list A) (outs : list (option escore)) : list A :=
  match cs, outs with
  | c :: cs', Some _ :: o' => c :: keep_fitted cs' o'
  | _ :: cs', None :: o' => keep_fitted cs' o'
  | _, _ => []
  end.

Fixpoint index_of (m : mid) (l : list (mid * escore)) : option nat :=
  match l with
  | [] => None
  | (m', _) :: r => if mid_eqb m m' then Some 0 else option_map S (index_of m r)
  end.

Definition check_case (c : c10case) : bool :=
  match c with
  | GCase ps known obj self_score keep rs outcomes obs =>
    match candidates ps, resolve_objective Gen_gridsearch known obj with
    | Some cs, Some o =>
        match obs with
        | ORaised => false
        | ODone cands scores kept self_changed ret_scores obj_names =>
            let st := g_run Gen_gridsearch self_score outcomes in
            let fin := g_finish Gen_gridsearch keep rs st in
            Nat.eqb (List.length cs) (List.length outcomes) &&
            all2 (fun a b => all2 (fun x y => String.eqb (fst x) (fst y) && qlist_eqb (snd x) (snd y)) a b)
                 (map (cand_values ps) (keep_fitted cs outcomes)) cands &&
            all2 escore_eqb (map snd (models st)) scores &&
            (match fst fin with
             | Some m => match index_of m (models st) with Some i => existsb (Nat.eqb i) kept | None => false end
                         && (negb (mid_eqb m MSelf) || negb self_changed)
             | None => negb self_changed
             end) &&
            (match snd fin with RetScores _ => ret_scores | RetSelf => negb ret_scores | RetCrash => false end) &&
            smem o obj_names
        end
    | _, _ => match obs with ORaised => true | _ => false end
    end
  end.
