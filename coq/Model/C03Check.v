(* Model/C03Check.v -- case type and checker used by the generated correspondence files for C03 *)
From Coq Require Import List ZArith QArith Qabs Bool Arith.
From PG Require Import Base.Ops Base.Vec Model.BSpline.
Import ListNotations.

Definition Qof (p : Z * Z) : Q := Qdy (fst p) (snd p).
(* |a - b| <= tol * max(1, |b|)   (a: implementation, b: model) *)
Definition Qclose3 (tol : Q) (a b : Q) : bool :=
  Qle_bool (Qabs (a - b)) (tol * (if Qle_bool 1 (Qabs b) then Qabs b else 1)).
Definition row_close (tol : Q) (impl : list (Z * Z)) (model : list Q) : bool :=
  Nat.eqb (length impl) (length model) &&
  forallb (fun p => Qclose3 tol (Qof (fst p)) (snd p)) (combine impl model).
(* implementation outcome: Some row | None (ValueError) *)
Definition outcome_ok (tol : Q) (impl : option (list (Z * Z))) (model : option (list Q)) : bool :=
  match impl, model with
  | Some r, Some r' => row_close tol r r'
  | None, None => true
  | _, _ => false
  end.

(* one evaluation point: the exact x (a dyadic), extra candidate positions that are accepted as well
   (non-empty only for points within 1e-12 (relative) of a discontinuity of the model, where binary64 rounding
   may legitimately put the implementation on the other side), the multiplier (1 unless a by-variable is used),
   and the implementation's row *)
Record c03point := mk_pt { p_x : Z * Z; p_alts : list Q; p_by : Z * Z; p_impl : option (list (Z * Z)) }.

Definition point_ok (ek0 ek1 : Q) (n k : nat) (periodic : bool) (tol : Q) (p : c03point) : bool :=
  existsb (fun x => outcome_ok tol (p_impl p)
                      (option_map (map (fun v => Qmul' (Qof (p_by p)) v)) (bspline_row Qfops ek0 ek1 n k periodic x)))
          (Qof (p_x p) :: p_alts p).

Inductive c03case :=
| CBasis (ek0 ek1 : Z * Z) (n k : nat) (periodic : bool) (tol : Q) (pts : list c03point)
    (* b_spline_basis(x, [ek0, ek1], n, k, periodic) *)
| CTerm (hist : list (list (Z * Z))) (user : option ((Z * Z) * (Z * Z))) (categorical : bool) (ek : (Z * Z) * (Z * Z))
        (n k : nat) (periodic : bool) (tol : Q) (pts : list c03point).
    (* SplineTerm(..., edge_knots=user) compiled on the columns of hist in order (the last one is the training column),
       then build_columns(X): the edge knots after the last compile (spline_compile_history) are compared exactly with the
       implementation's edge_knots_, the rows against the model with those knots *)

Definition Qeqb (a b : Q) : bool := Qle_bool a b && Qle_bool b a.
Definition Qpair (p : (Z * Z) * (Z * Z)) : Q * Q := (Qof (fst p), Qof (snd p)).
Definition check_case (c : c03case) : bool :=
  match c with
  | CBasis ek0 ek1 n k periodic tol pts =>
      forallb (point_ok (Qof ek0) (Qof ek1) n k periodic tol) pts
  | CTerm hist user cat ek n k periodic tol pts =>
      match spline_compile_history Qfops (option_map Qpair user) cat (map (map Qof) hist) with
      | Some (lo, hi) =>
          Qeqb lo (Qof (fst ek)) && Qeqb hi (Qof (snd ek)) &&
          forallb (point_ok lo hi n k periodic tol) pts
      | None => false
      end
  end.
