(* Model/C01Check.v -- checker for one captured PIRLS iteration.
   Division-bearing per-observation formulas are checked in Q; the matrix part (residual of the implementation's
   coef_new in the penalised normal equations) is evaluated exactly in the dyadic ring (no division, no gcd). *)
From Coq Require Import List ZArith QArith Qabs Bool Arith.
From PG Require Import Base.Ops Base.Vec Model.Pirls.
Import ListNotations.

Definition dyl := list (Z * Z).
Definition todq (p : Z * Z) : Q := Qdy (fst p) (snd p).
Definition todd (p : Z * Z) : dy := mkdy (fst p) (snd p).
Definition dabs (a : dy) : dy := mkdy (Z.abs (dm a)) (de a).
Definition dmax (a b : dy) : dy := if dleb a b then b else a.
Definition dsum (l : list dy) : dy := fold_left dadd l (mkdy 0 0).
Definition dmaxl (l : list dy) : dy := fold_left dmax l (mkdy 0 0).
Definition ddot (u v : list dy) : dy := dot Drops u v.
Definition dabsdot (u v : list dy) : dy := dot Drops (map dabs u) (map dabs v).
Definition Qle_tol (tol : Q) (diff scale : Q) : bool := Qle_bool (Qabs diff) (tol * Qabs scale).

Record c01case := mk_c01 {
  c_link : linkk; c_dist : distk; c_tau : option (Z * Z); c_levels : Z * Z;
  c_m : nat;
  c_B : list dyl;                                   (* retained rows of the model matrix *)
  c_obs : list ((Z * Z) * (Z * Z) * (Z * Z) * (Z * Z));   (* w, y, mu, lp per retained observation *)
  c_W : dyl; c_pd : dyl;                            (* diag(W) and pseudo_data = W z as computed by the code *)
  c_E : list dyl;                                   (* the Cholesky factor handed to the SVD *)
  c_Ptot : list dyl;                                (* S + P (+ C) (+ escalated ridge) from the model's own matrices *)
  c_coef_in : dyl; c_coef_new : dyl;
  c_tole : Z }.                                     (* backward-error tolerance 2^c_tole of the solve: 64 eps cond([WB;E]), see DESIGN *)

(* per-observation formulas: 1e-6 relative -- the code casts sample weights to float32 and evaluates weights ** -1 in float32
   (relative error up to 6e-8), so its W^2 reproduces w / (g'^2 V) only to single precision *)
Definition tolQ : Q := 1 # 1000000.
Definition tolD : dy := mkdy 1 (-27).                (* 7.5e-9: backward error of the solve, Cholesky backward error *)
Definition tiny : dy := mkdy 1 (-900).

(* (a) W^2 g'^2 V = asym w   and   pd = W (lp + (y - mu) g') *)
Definition check_obs (c : c01case) : bool :=
  let L := todq (c_levels c) in
  let tau := option_map todq (c_tau c) in
  forallb (fun t =>
    let ob := fst t in let W := todq (fst (snd t)) in let pd := todq (snd (snd t)) in
    let w := todq (fst (fst (fst ob))) in let y := todq (snd (fst (fst ob))) in
    let mu := todq (snd (fst ob)) in let lp := todq (snd ob) in
    let gp := gprime Qfops (c_link c) L mu in
    let V := V0 Qfops (c_dist c) L mu in
    let a := asym Qfops tau y mu in
    (* the code evaluates the binomial variance as mu * (1 - mu / levels) in binary64: for a saturated mean the subtraction
       cancels and V carries a relative error of eps * levels / (levels - mu); 2^-48 = 16 eps *)
    let cancel := match c_dist c with DBinomial => Qabs (L / (L - mu)) | _ => 0 end in
    Qle_tol (tolQ + (1 # 281474976710656) * cancel) (W * W * gp * gp * V - a * w) (a * w) &&
    Qle_bool (Qabs (pd - W * (lp + (y - mu) * gp))) (tolQ * (Qabs W * (Qabs lp + Qabs (y - mu) * Qabs gp)) + (1 # 10) ^ 300))
  (combine (c_obs c) (combine (c_W c) (c_pd c))).

(* (b) lp = B coef_in *)
Definition check_lp (c : c01case) : bool :=
  let B := map (map todd) (c_B c) in let bin := map todd (c_coef_in c) in
  forallb (fun t =>
    let row := fst t in let lp := todd (snd (snd t)) in
    dleb (dabs (dsub lp (ddot row bin))) (dadd (dmul tolD (dadd (dabsdot row bin) (dabs lp))) tiny))
  (combine B (c_obs c)).

(* (c) E^T E = Ptot (Cholesky contract, to backward-error tolerance) *)
Definition check_E (c : c01case) : bool :=
  let E := map (map todd) (c_E c) in let P := map (map todd) (c_Ptot c) in
  let Et := transpose (c_m c) E in
  let EtE := map (fun ci => map (ddot ci) Et) Et in
  let scale := dmaxl (map (fun r => dmaxl (map dabs r)) P) in
  Nat.eqb (length E) (c_m c) && Nat.eqb (length P) (c_m c) &&
  forallb (fun rr => forallb (fun ab => dleb (dabs (dsub (fst ab) (snd ab))) (dadd (dmul tolD scale) tiny)) (combine (fst rr) (snd rr)))
          (combine EtE P).

(* (d) backward error of coef_new in  B'(W^2 o (B b)) + E'E b = B'(W o pd) *)
Definition check_resid (c : c01case) : bool :=
  let B := map (map todd) (c_B c) in let E := map (map todd) (c_E c) in
  let W := map todd (c_W c) in let pd := map todd (c_pd c) in
  let b := map todd (c_coef_new c) in
  let m := c_m c in
  let Bb := map (fun r => ddot r b) B in
  let W2Bb := map (fun t => dmul (dmul (fst t) (fst t)) (snd t)) (combine W Bb) in
  let Wpd := map (fun t => dmul (fst t) (snd t)) (combine W pd) in
  let Bt := transpose m B in let Et := transpose m E in
  let Eb := map (fun r => ddot r b) E in
  let lhs := map (fun t => dadd (ddot (fst t) W2Bb) (ddot (snd t) Eb)) (combine Bt Et) in
  let rhs := map (fun col => ddot col Wpd) Bt in
  let scales := map (fun t => dadd (dadd (dabsdot (fst t) W2Bb) (dabsdot (snd t) Eb)) (dabsdot (fst t) Wpd)) (combine Bt Et) in
  let scale := dmaxl scales in
  Nat.eqb (length b) m &&
  (* c_tole = 0 marks an iteration whose system [WB; E] is so ill-conditioned (64 eps cond^2 > 2^-12: saturated means, n <= m) that no
     backward-error statement distinguishes a right update from a wrong one in binary64: the solve is then not judged (counted by the harness) *)
  (Z.eqb (c_tole c) 0 ||
   (Z.leb (c_tole c) (-12) &&
    forallb (fun t => dleb (dabs (dsub (fst t) (snd t))) (dadd (dmul (mkdy 1 (c_tole c)) scale) tiny)) (combine lhs rhs))).

Definition check_shapes (c : c01case) : bool :=
  let n := length (c_B c) in
  Nat.eqb (length (c_obs c)) n && Nat.eqb (length (c_W c)) n && Nat.eqb (length (c_pd c)) n &&
  forallb (fun r => Nat.eqb (length r) (c_m c)) (c_B c) && forallb (fun r => Nat.eqb (length r) (c_m c)) (c_E c) &&
  Nat.eqb (length (c_coef_in c)) (c_m c).

Definition check_code (c : c01case) : nat :=
  if negb (check_shapes c) then 1 else if negb (check_obs c) then 2 else if negb (check_lp c) then 3
  else if negb (check_E c) then 4 else if negb (check_resid c) then 5 else 0.
Definition check_case (c : c01case) : bool := Nat.eqb (check_code c) 0.
