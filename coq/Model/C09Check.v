(* Model/C09Check.v -- tactic used by the generated correspondence goals of C09: the generated interval definitions are
   evaluated (call by value, list structure only -- real arithmetic is left untouched) down to real arithmetic on the
   literal arguments and enclosed by `interval`. *)
From Coq Require Import Reals Lra List.
From Interval Require Import Tactic.
From PG Require Import Base.Ops Model.Intervals Gen.Links Gen.Intervals.
Import ListNotations.
Open Scope R_scope.
Ltac c09 :=
  cbv beta iota zeta delta [Gen_bound Gen_xform Gen_line Gen_zq Gen_var Gen_cov_block Gen_lp
         Gen_flags_confidence_intervals Gen_flags_prediction_intervals Gen_flags_partial_dependence
         Gen_IdentityLink_mu Gen_LogLink_mu Gen_LogitLink_mu rowquad dotl select block entry
         lsum seq length nth map qf_prediction qf_xform qf_term Nat.add];
  interval with (i_prec 100).
