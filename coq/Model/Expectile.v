(* Model/Expectile.v -- the two sides of the expectile balance, parametric in the number type (ring operations only).
   Observations are (weight, target, fitted mean) triples.  Definitions only. *)
From Coq Require Import List ZArith Bool.
From PG Require Import Base.Ops.
Import ListNotations.

Section E.
Context {T : Type} (o : rops T).
Notation "0" := (r0 o). Notation "1" := (r1 o).
Infix "+" := (radd o). Infix "-" := (rsub o). Infix "*" := (rmul o).
(* total weighted positive residual  sum_{y_i > mu_i} w_i (y_i - mu_i) *)
Fixpoint pos_sum (ob : list (T * T * T)) : T :=
  match ob with [] => 0 | t :: ob' => (if rltb o (snd t) (snd (fst t)) then fst (fst t) * (snd (fst t) - snd t) else 0) + pos_sum ob' end.
(* total weighted negative residual  sum_{y_i <= mu_i} w_i (mu_i - y_i) *)
Fixpoint neg_sum (ob : list (T * T * T)) : T :=
  match ob with [] => 0 | t :: ob' => (if rltb o (snd t) (snd (fst t)) then 0 else fst (fst t) * (snd t - snd (fst t))) + neg_sum ob' end.
(* tau * positive - ((1 - tau) * negative + ridge * intercept coefficient) *)
Definition balance_resid (tau se b0 : T) (ob : list (T * T * T)) : T :=
  tau * pos_sum ob - ((1 - tau) * neg_sum ob + se * b0).
(* a scale for tolerances: sum w (|y - mu|) *)
Definition abs_sum (ob : list (T * T * T)) : T := pos_sum ob + neg_sum ob.
(* fraction of targets strictly below the prediction, as a count *)
Fixpoint count_below (ob : list (T * T * T)) : nat :=
  match ob with [] => O | t :: ob' => ((if rltb o (snd (fst t)) (snd t) then 1 else 0) + count_below ob')%nat end.
(* row of the total penalty that an unpenalised coefficient j sees: only the ridge se on the diagonal *)
Definition ridge_row (m j : nat) (se : T) : list T := repeat 0 j ++ se :: repeat 0 (m - j - 1).
End E.
