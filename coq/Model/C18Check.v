(* Model/C18Check.v -- executable checks for the C18 correspondence cases (exact dyadic arithmetic / bit-exact binary64). *)
From Coq Require Import List ZArith Bool PrimFloat.
From PG Require Import Base.Ops Model.Expectile Gen.FitQuantile Model.FitQuantile.
Import ListNotations.

Definition d2 (p : Z * Z) : dy := mkdy (fst p) (snd p).
Definition dabs (a : dy) : dy := mkdy (Z.abs (dm a)) (de a).
Definition sqrt_eps : dy := mkdy 1 (-26).     (* sqrt(EPS) = sqrt(2^-52), the ridge S of GAM._pirls *)
Definition ob3 (t : (Z * Z) * (Z * Z) * (Z * Z)) : dy * dy * dy := (d2 (fst (fst t)), d2 (snd (fst t)), d2 (snd t)).

Inductive c18case :=
  (* converged ExpectileGAM fit with an intercept: expectile, intercept coefficient, (w, y, mu) rows, tolerance on the
     balance residual, and the number of training targets strictly below the prediction reported by the implementation *)
| BalCase (tau b0 : Z * Z) (ob : list ((Z * Z) * (Z * Z) * (Z * Z))) (bound : Z * Z) (below : nat)
  (* one fit_quantile call: arguments, starting expectile, the ratios returned by _get_quantile_ratio in order, and what
     the implementation did: expectiles handed to set_params in order, number of completed refits, ValueError?, final expectile *)
  (* argument validation of fit_quantile: did the call raise ValueError before doing anything? *)
| ArgCase (quantile tol : float) (max_iter : Z) (rejected : bool)
| FqCase (quantile tol e0 : float) (max_iter : Z) (ratios : list float) (trace : list float) (refits : nat) (raised : bool) (final_e : float).

Fixpoint feq_list (a b : list float) : bool :=
  match a, b with [] , [] => true | x :: a', y :: b' => PrimFloat.eqb x y && feq_list a' b' | _, _ => false end.

Definition fq_result (quantile tol e0 : float) (max_iter : Z) (ratios : list float) : fqstf :=
  fqf_loop (S (Z.to_nat max_iter)) quantile tol max_iter (fun k => nth k ratios nan) (fqf_init e0).

Definition check_code (c : c18case) : nat :=
  match c with
  | BalCase tau b0 ob bound below =>
      let o := map ob3 ob in
      let r := balance_resid Drops (d2 tau) sqrt_eps (d2 b0) o in
      if negb (dleb (dabs r) (d2 bound)) then 1
      else if negb (Nat.eqb (count_below Drops o) below) then 2 else 0
  | ArgCase quantile tol max_iter rejected =>
      if Bool.eqb (Gen_fq_bad_quantile_f quantile || Gen_fq_bad_tol_f tol || Gen_fq_bad_max_iter max_iter) rejected then 0 else 9
  | FqCase quantile tol e0 max_iter ratios trace refits raised final_e =>
      let s := fq_result quantile tol e0 max_iter ratios in
      if negb (feq_list (rev (f_trace s)) trace) then 3
      else if negb (Nat.eqb (f_refits s) refits) then 4
      else if negb (Bool.eqb (f_raised s) raised) then 5
      else if negb (PrimFloat.eqb (f_e s) final_e) then 6
      else if negb (Nat.eqb (length ratios) (if f_broke s || f_stalled s || f_raised s then S (f_refits s) else f_refits s)) then 7
      else if fqf_running max_iter s then 8
      else 0
  end%nat.
Definition check_case (c : c18case) : bool := Nat.eqb (check_code c) 0.
