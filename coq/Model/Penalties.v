(* Model/Penalties.v -- executable model of pygam/penalties.py (smoothing penalties) and of
   Term.build_penalties / TensorTerm.build_penalties / TermList.build_penalties in pygam/terms.py.
   Parametric in the number type.  Definitions only.                                         *)
From Coq Require Import List ZArith Bool Arith.
From PG Require Import Base.Ops Base.Vec.
Import ListNotations.

Inductive pen := PAuto | PDeriv (d : nat) | PPeriodic (d : nat) | PL2 | PNone.
(* which constructor built the term: decides what 'auto' means *)
Inductive tkind := KSpline (cp : bool) (categorical : bool) | KLinear | KFactor.

Definition resolve_auto (k : tkind) : pen :=
  match k with
  | KSpline cp false => if cp then PPeriodic 2 else PDeriv 2
  | KSpline _ true => PL2
  | KLinear => PL2
  | KFactor => PL2
  end.

Section P.
Context {T : Type} (o : rops T).

(* penalties.derivative(n, coef, derivative=d, periodic=False) *)
Definition pen_derivative (n d : nat) : mat :=
  match n with
  | 1 => [[r0 o]]
  | _ => gram o (map (diffn o d) (ident o n))
  end.
(* penalties.derivative(..., periodic=True) AS THE CODE BUILDS IT: the d-th difference operator of an augmented
   identity of size N = n + 2d (N x (n+d)), its first d columns added (times (-1)^d) onto columns n-d..n-1
   ("wrap"), the lower floor(N/2) rows overwritten by the upper ones reversed in both directions, the centre
   n x (n-d) block kept, then D D^T.  None = the code raises ValueError ("inconsistent shapes", when n < d). *)
Definition add_at (r : list T) (pos : nat) (v : list T) : list T :=
  firstn pos r ++ vadd o (firstn (length v) (skipn pos r)) v ++ skipn (Nat.add pos (length v)) r.
Definition sgn (d : nat) : T := if Nat.even d then r1 o else rsub o (r0 o) (r1 o).
Definition periodic_D (n d : nat) : mat :=
  let N := Nat.add n (Nat.mul 2 d) in
  let D0 := map (diffn o d) (ident o N) in
  let D1 := map (fun r => add_at r (Nat.sub n d) (vscale o (sgn d) (firstn d r))) D0 in
  let nr := Nat.div N 2 in
  let D2 := firstn (Nat.sub N nr) D1 ++ rev (map (@rev T) (firstn nr D1)) in
  map (fun r => slice r d (Nat.sub n d)) (slice D2 d n).
Definition pen_periodic (n d : nat) : option mat :=
  match n with
  | 1 => Some [[r0 o]]
  | _ => if Nat.ltb n d then None else Some (gram o (periodic_D n d))
  end.
(* what the property promises for the cyclic penalty: the Gram matrix of cyclic d-th differences *)
Definition pen_cyclic_spec (n d : nat) : mat :=
  match n with
  | 1 => [[r0 o]]
  | _ => gram o (map (cdiffn o d) (ident o n))
  end.
Definition pen_l2 (n : nat) : mat := ident o n.
Definition pen_none (n : nat) : mat := mzero o n n.

Definition pen_matrix (k : tkind) (n : nat) (p : pen) : mat :=
  match (match p with PAuto => resolve_auto k | _ => p end) with
  | PAuto => pen_none n (* unreachable *)
  | PDeriv d => pen_derivative n d
  | PPeriodic d => match pen_periodic n d with Some M => M | None => [] end
  | PL2 => pen_l2 n
  | PNone => pen_none n
  end.

(* Term.build_penalties: sum_j lam_j * P_j *)
Record margin := mk_margin { m_kind : tkind; m_n : nat; m_pens : list (pen * T) }.
Definition margin_penalty (m : margin) : mat :=
  fold_left (fun acc pl => madd o acc (mscale o (snd pl) (pen_matrix (m_kind m) (m_n m) (fst pl))))
            (m_pens m) (mzero o (m_n m) (m_n m)).

(* TensorTerm._build_marginal_penalties(i): kron over j of (P_i if j = i else eye) left to right *)
Fixpoint marginal_lift_aux (ms : list margin) (i : nat) (j : nat) (acc : option mat) : mat :=
  match ms with
  | [] => match acc with Some A => A | None => [] end
  | m :: rest =>
      let P := if Nat.eqb j i then margin_penalty m else ident o (m_n m) in
      let acc' := match acc with None => P | Some A => kron o A P end in
      marginal_lift_aux rest i (S j) (Some acc')
  end.
Definition marginal_lift (ms : list margin) (i : nat) : mat := marginal_lift_aux ms i O None.
Definition tensor_n (ms : list margin) : nat := fold_right (fun m acc => Nat.mul (m_n m) acc) 1%nat ms.
Definition tensor_penalty (ms : list margin) : mat :=
  fold_left (fun acc i => madd o acc (marginal_lift ms i)) (seq 0 (length ms))
            (mzero o (tensor_n ms) (tensor_n ms)).

Inductive term := TIntercept | TSimple (m : margin) | TTensor (ms : list margin).
Definition term_penalty (t : term) : mat :=
  match t with
  | TIntercept => [[r0 o]]
  | TSimple m => margin_penalty m
  | TTensor ms => tensor_penalty ms
  end.
Definition term_n (t : term) : nat :=
  match t with TIntercept => 1%nat | TSimple m => m_n m | TTensor ms => tensor_n ms end.
(* TermList.build_penalties: block diagonal in term order *)
Definition model_penalty (ts : list term) : mat := block_diag o (map term_penalty ts).
End P.
