(* Model/Grid.v -- model of GAM.gridsearch (pygam/pygam.py) and utils.combine.  DEFINITIONS ONLY.

   * combine      : the recursion of utils.combine, argument list consumed from the right, one-grid base case
                    `[[arg] for arg in args[0]]`.  (The branch `[leaf] + [node]` for a non-iterable leaf is dead code:
                    the base case only produces lists, which the typing of the model makes explicit.)
   * product      : the textbook lexicographic Cartesian product (first factor slowest) used as specification.
   * prepare      : grid preparation per parameter (1-D broadcast / list of lists -> product / 2-D rows).
   * resolve_objective : objective table.
   * the candidate loop with best tracking, parametrised by the facts extracted from the source (gs_skel).
   Scores are exact rationals (every finite float is one) or +infinity; NaN scores are not modelled. *)
From Coq Require Import List String Bool Arith QArith.
Import ListNotations.
Open Scope nat_scope.
Open Scope list_scope.

Section Combine.
Context {A : Type}.

(* rargs = the argument tuple reversed *)
Fixpoint combine_rev (rargs : list (list A)) : list (list A) :=
  match rargs with
  | [] => []                                            (* combine() : IndexError in Python, unreachable from gridsearch *)
  | [a0] => map (fun x => [x]) a0                       (* [[arg] for arg in args[0]] *)
  | last :: rest =>                                     (* for leaf in combine( *args[:-1]): for node in args[-1]: leaf + [node] *)
      flat_map (fun leaf => map (fun node => leaf ++ [node]) last) (combine_rev rest)
  end.
Definition combine (args : list (list A)) : list (list A) := combine_rev (rev args).

Fixpoint product (gs : list (list A)) : list (list A) :=
  match gs with
  | [] => [[]]
  | g :: r => flat_map (fun x => map (cons x) (product r)) g
  end.

Definition prod_len (gs : list (list A)) : nat := fold_right (fun g n => List.length g * n) 1 gs.
End Combine.

(* ---------- grid preparation ---------- *)
Section Prepare.
Context {A : Type}.

Inductive gval := Scalar (x : A) | Vector (xs : list A).   (* what set_params receives for one parameter *)

Inductive grid :=
| G1d (xs : list A)                  (* iterable of scalars (list or 1-D ndarray): each value is broadcast to all terms *)
| GLists (gs : list (list A))        (* a list (or non-2-D array) with at least one iterable element, after np.atleast_1d *)
| G2d (rows : list (list A)).        (* 2-D ndarray: rows taken as they are *)

(* target_len = len(flatten(getattr(self, param))); None = ValueError *)
Definition prepare (target_len : nat) (g : grid) : option (list gval) :=
  match g with
  | G1d xs => if Nat.ltb 1 (List.length xs) then Some (map Scalar xs) else None
  | GLists gs =>
      if Nat.ltb 1 (List.length gs) && Nat.eqb (List.length gs) target_len then
        let c := combine gs in
        if forallb (fun s => Nat.eqb (List.length s) target_len) c then Some (map Vector c) else None
      else None
  | G2d rows =>
      if Nat.ltb 1 (List.length rows) && forallb (fun r => Nat.eqb (List.length r) target_len) rows
      then Some (map Vector rows) else None
  end.

(* all parameters: [(name, target_len, grid)] -> candidates, each a list of (name, value), in evaluation order *)
Fixpoint prepare_all (ps : list (string * nat * grid)) : option (list (list gval)) :=
  match ps with
  | [] => Some []
  | (_, tl, g) :: r => match prepare tl g, prepare_all r with Some v, Some vs => Some (v :: vs) | _, _ => None end
  end.

Definition candidates (ps : list (string * nat * grid)) : option (list (list (string * gval))) :=
  match prepare_all ps with
  | Some vs => Some (map (fun c => List.combine (map (fun p => fst (fst p)) ps) c) (combine vs))
  | None => None
  end.

(* the plural setter (terms.MetaTermMixin.__setattr__): a scalar is repeated target_len times *)
Definition broadcast (target_len : nat) (v : gval) : list A :=
  match v with Scalar x => repeat x target_len | Vector xs => xs end.
End Prepare.
Arguments gval : clear implicits.
Arguments grid : clear implicits.

(* ---------- facts extracted from the source of gridsearch (Gen/C10Skeleton.v) ---------- *)
Inductive cmpop := OLt | OLe | OGt | OGe.
Inductive receiver := RSelf | RCopy | ROther.
Inductive guard := GNotFitted | GFitted | GKeepBest | GReturnScores | GNoModels | GInLoop | GOtherGuard (s : string).
(* one call / attribute store with an object receiver, with the `if` tests (and the candidate loop) that enclose it *)
Record effect := { e_recv : receiver; e_what : string; e_guards : list guard }.

Record gs_skel := {
  k_allowed : list string;           (* objectives accepted *)
  k_known_reject : string; k_known_auto : string;       (* if self.distribution._known_scale: ... *)
  k_unknown_reject : string; k_unknown_auto : string;   (* else: ... *)
  k_default_param : string;          (* if not bool(param_grids): param_grids[<this>] = np.logspace(...) *)
  k_init_inf : bool;                 (* best_score = np.inf ; best_model = None *)
  k_seed_self : bool;                (* if self._is_fitted: models.append(self); scores.append(self.statistics_[objective]); best := it *)
  k_cmp : cmpop;                     (* if scores[-1] <cmp> best_score: best := (models[-1], scores[-1]) *)
  k_skip_valueerror : bool;          (* except ValueError: ... continue *)
  k_grid_product : bool;             (* for candidate in combine( *grids): dict(zip(params, candidate)) *)
  k_cartesian_lists : bool;          (* cartesian = not isinstance(grid, np.ndarray) or grid.ndim != 2; if cartesian: grid = combine( *grid) *)
  k_keep_copies_best : bool;         (* if keep_best: self.set_params(deep=True, force=True, <kwargs of deepcopy(best_model.get_params(deep=True))>) *)
  k_keep_deepcopies : bool;          (* ... and those kwargs are a deepcopy: self shares no object with the winner afterwards *)
  k_return_scores_zip : bool;        (* if return_scores: return OrderedDict(zip(models, scores)) else: return self *)
  k_effects : list effect
}.

Definition smem (x : string) (l : list string) : bool := existsb (String.eqb x) l.

(* None = ValueError *)
Definition resolve_objective (k : gs_skel) (known_scale : bool) (obj : string) : option string :=
  if negb (smem obj (k_allowed k)) then None
  else if known_scale then
    (if String.eqb obj (k_known_reject k) then None else if String.eqb obj "auto" then Some (k_known_auto k) else Some obj)
  else
    (if String.eqb obj (k_unknown_reject k) then None else if String.eqb obj "auto" then Some (k_unknown_auto k) else Some obj).

(* ---------- the candidate loop ---------- *)
Inductive escore := Fin (q : Q) | Inf.
Definition elt (a b : escore) : bool :=      (* a < b *)
  match a, b with
  | Fin x, Fin y => negb (Qle_bool y x)
  | Fin _, Inf => true
  | Inf, _ => false
  end.
Definition ele (a b : escore) : bool := negb (elt b a).
Definition better (o : cmpop) (new best : escore) : bool :=
  match o with OLt => elt new best | OLe => ele new best | OGt => elt best new | OGe => ele best new end.

Inductive mid := MSelf | MCand (i : nat).     (* the model itself / the deep copy fitted for candidate i *)
Definition mid_eqb (a b : mid) : bool :=
  match a, b with MSelf, MSelf => true | MCand i, MCand j => Nat.eqb i j | _, _ => false end.

Record gstate := { models : list (mid * escore);        (* chronological: zip(models, scores) *)
                   best_model : option mid; best_score : escore }.

Definition g_empty : gstate := {| models := []; best_model := None; best_score := Inf |}.

(* self_score = Some s when self is already fitted (s = self.statistics_[objective]) *)
Definition g_init (k : gs_skel) (self_score : option escore) : gstate :=
  match self_score with
  | Some s => if k_seed_self k then {| models := [(MSelf, s)]; best_model := Some MSelf; best_score := s |} else g_empty
  | None => g_empty
  end.

(* outcome = None: fitting the candidate raised ValueError (skipped) *)
Definition g_step (k : gs_skel) (st : gstate) (i : nat) (outcome : option escore) : gstate :=
  match outcome with
  | None => st
  | Some s =>
      let ms := models st ++ [(MCand i, s)] in
      if better (k_cmp k) s (best_score st)
      then {| models := ms; best_model := Some (MCand i); best_score := s |}
      else {| models := ms; best_model := best_model st; best_score := best_score st |}
  end.

Fixpoint g_loop (k : gs_skel) (st : gstate) (i : nat) (outcomes : list (option escore)) : gstate :=
  match outcomes with
  | [] => st
  | o :: r => g_loop k (g_step k st i o) (S i) r
  end.

Definition g_run (k : gs_skel) (self_score : option escore) (outcomes : list (option escore)) : gstate :=
  g_loop k (g_init k self_score) 0 outcomes.

(* what the call leaves behind: which model's attributes self ends with (None = self untouched), what is returned *)
Inductive gret := RetSelf | RetScores (l : list (mid * escore)) | RetCrash.
Definition g_finish (k : gs_skel) (keep_best return_scores : bool) (st : gstate) : option mid * gret :=
  match models st with
  | [] => (None, RetSelf)                                (* 'No models were fitted.' *)
  | _ =>
      let kept := if keep_best && k_keep_copies_best k then best_model st else None in
      if keep_best && k_keep_copies_best k && match best_model st with None => true | _ => false end
      then (None, RetCrash)                              (* best_model is None (all scores +inf): AttributeError *)
      else (kept, if return_scores then RetScores (models st) else RetSelf)
  end.

(* does self share mutable objects (coef_, statistics_, terms) with a model of the returned dict after the call?
   only if the winner is a candidate and its attributes were handed over without a deepcopy *)
Definition g_aliases (k : gs_skel) (keep_best : bool) (st : gstate) : bool :=
  keep_best && k_keep_copies_best k && negb (k_keep_deepcopies k) &&
  match best_model st with Some (MCand _) => true | _ => false end.

(* ---------- purity of the call for a fitted model with keep_best = False ---------- *)
Definition pure_on_self (what : string) : bool :=
  smem what ["get_params"; "deepcopy"; "append"; "_is_fitted"; "statistics_"; "distribution"; "link"; "verbose"; "_plural"; "getattr"; "return"]%string.
Definition guard_excluded (g : guard) : bool :=     (* guards that are false when self is fitted and keep_best = False *)
  match g with GNotFitted | GKeepBest | GNoModels => true | _ => false end.
Definition effect_harmless (e : effect) : bool :=
  match e_recv e with
  | RSelf => pure_on_self (e_what e) || existsb guard_excluded (e_guards e)
  | _ => true
  end.
