(* Model/Constraints.v -- executable model of the shape-constraint matrices of pyGAM:
     pygam/penalties.py  monotonicity_, convexity_ (monotonic_inc/dec, convex, concave), none
     pygam/terms.py      Term.build_constraints, TensorTerm.build_constraints,
                         TensorTerm._build_marginal_constraints, TensorTerm._iterate_marginal_coef_slices,
                         TermList.build_constraints, Term.hasconstraint
   Parametric in the number type (rops T).  Definitions only.

   Modelling boundary (stated, and exercised by the correspondence check):
   * `Cs.nnz > 0` in Term.build_constraints is modelled as "the summed matrix has a non-zero entry".
     scipy prunes exact zeros in sparse products and sums, so for constraint_lam <> 0 (pyGAM fixes it at 1e9)
     the stored-entry count is positive iff some entry is non-zero.  constraint_lam = 0 is outside the model.
   * `n != len(coef)` raises ValueError: modelled by the `_chk` variants returning None.                      *)
From Coq Require Import List ZArith Bool Arith.
From PG Require Import Base.Ops Base.Vec.
Import ListNotations.

(* a constraint as written by the user: Python None, or a key of penalties.CONSTRAINTS *)
Inductive con := CPyNone | CStrNone | CMonoInc | CMonoDec | CConvex | CConcave.

Definition con_is_pynone (c : con) : bool := match c with CPyNone => true | _ => false end.
(* Term.hasconstraint: np.not_equal(np.atleast_1d(self.constraints), None).any() *)
Definition hasconstraint (cons : list con) : bool := existsb (fun c => negb (con_is_pynone c)) cons.

(* ---- index bookkeeping of TensorTerm._iterate_marginal_coef_slices (pure nat arithmetic) ---- *)
Definition nprod (l : list nat) : nat := fold_right Nat.mul 1%nat l.
(* idxs = arange(prod dims).reshape(dims); moveaxis(idxs, i, 0).reshape(dims[i], -1); iterate over the columns.
   Column number a*inner + b  (a over the axes before i, b over the axes after i, both in C order) is
   the fibre  { a*dims[i]*inner + k*inner + b : k < dims[i] }  where inner = prod dims[i+1:]. *)
Definition fibres (dims : list nat) (i : nat) : list (list nat) :=
  let inner := nprod (skipn (S i) dims) in
  let di := nth i dims O in
  let outer := nprod (firstn i dims) in
  flat_map (fun a => map (fun b => map (fun k => Nat.add (Nat.add (Nat.mul a (Nat.mul di inner)) (Nat.mul k inner)) b)
                                       (seq 0 di))
                         (seq 0 inner))
           (seq 0 outer).
(* C-order ravel of a multi-index (np.ravel_multi_index / reshape semantics) *)
Fixpoint ravel (dims idx : list nat) : nat :=
  match dims, idx with
  | d :: dims', j :: idx' => Nat.add (Nat.mul j (nprod dims')) (ravel dims' idx')
  | _, _ => O
  end.
Fixpoint set_nth {A} (l : list A) (i : nat) (x : A) : list A :=
  match l, i with
  | [], _ => []
  | _ :: l', O => x :: l'
  | a :: l', S i' => a :: set_nth l' i' x
  end.
Fixpoint index_of (x : nat) (l : list nat) : option nat :=
  match l with
  | [] => None
  | y :: l' => if Nat.eqb x y then Some O else option_map S (index_of x l')
  end.

Section C.
Context {T : Type} (o : rops T).
Notation "0" := (r0 o). Notation "1" := (r1 o).

(* pointwise product (sparse_diff(..) * diags(mask): column j of D is multiplied by mask_j) *)
Fixpoint vmul (u v : list T) : list T :=
  match u, v with a :: u', b :: v' => rmul o a b :: vmul u' v' | _, _ => [] end.

(* (np.diff(coef, n=d) < 0).astype(float)   resp.   (... > 0).astype(float): strict, ties are not penalised *)
Definition viol (neg : bool) (x : T) : bool := if neg then rltb o x 0 else rltb o 0 x.
Definition mask01 (neg : bool) (dl : list T) : list T := map (fun x => if viol neg x then 1 else 0) dl.

(* D = sparse_diff(identity(n), n=d) * mask  has rows  diffn d (e_i) .* mask;   result D.dot(D.T) *)
Definition masked_diff_gram (n d : nat) (m : list T) : mat :=
  gram o (map (fun r => vmul (diffn o d r) m) (ident o n)).

(* penalties.monotonicity_(n, coef, increasing) *)
Definition monotonicity (n : nat) (coef : list T) (increasing : bool) : mat :=
  match n with
  | 1 => [[0]]
  | _ => masked_diff_gram n 1 (mask01 increasing (diffn o 1 coef))
  end.
(* penalties.convexity_(n, coef, convex) *)
Definition convexity (n : nat) (coef : list T) (convex : bool) : mat :=
  match n with
  | 1 => [[0]]
  | _ => masked_diff_gram n 2 (mask01 convex (diffn o 2 coef))
  end.
Definition monotonicity_chk (n : nat) (coef : list T) (inc : bool) : option mat :=
  if Nat.eqb n (length coef) then Some (monotonicity n coef inc) else None.
Definition convexity_chk (n : nat) (coef : list T) (cvx : bool) : option mat :=
  if Nat.eqb n (length coef) then Some (convexity n coef cvx) else None.

(* CONSTRAINTS[...] (n, coef);  None -> 'none' -> penalties.none *)
Definition con_matrix (n : nat) (coef : list T) (c : con) : mat :=
  match c with
  | CPyNone | CStrNone => mzero o n n
  | CMonoInc => monotonicity n coef true
  | CMonoDec => monotonicity n coef false
  | CConvex => convexity n coef true
  | CConcave => convexity n coef false
  end.

Definition nonzero (x : T) : bool := negb (req o x 0).
Definition any_nonzero (M : mat) : bool := existsb (existsb nonzero) M.

(* Term.build_constraints(coef, constraint_lam, constraint_l2) for a non-intercept, non-tensor term:
     Cs = sum_c  constraint_c(n, coef) * constraint_lam ;  if Cs.nnz > 0: Cs += diags(constraint_l2 * ones) *)
Definition constraint_sum (n : nat) (coef : list T) (cons : list con) (clam : T) : mat :=
  fold_left (fun acc c => madd o acc (mscale o clam (con_matrix n coef c))) cons (mzero o n n).
Definition term_constraints (n : nat) (coef : list T) (cons : list con) (clam cl2 : T) : mat :=
  let Cs := constraint_sum n coef cons clam in
  if any_nonzero Cs then madd o Cs (mscale o cl2 (ident o n)) else Cs.

(* ---- tensor terms ---- *)
Record cmargin := mk_cmargin { cm_n : nat; cm_cons : list con }.

Definition gather (coef : list T) (idx : list nat) : list T := map (fun j => nth j coef 0) idx.
(* composite_C[tuple(np.meshgrid(slice_, slice_))] = slice_C.A
   np.meshgrid (default indexing='xy') returns X[a,b] = slice_[b], Y[a,b] = slice_[a], so the assignment is
   composite_C[slice_[b], slice_[a]] = slice_C[a,b]: the block is written TRANSPOSED (harmless only because
   every slice_C is symmetric: C05_sym).  Entries outside slice_ x slice_ keep their value. *)
Definition scatter_assign (A : mat) (idx : list nat) (M : mat) : mat :=
  map (fun rr => map (fun cx =>
         match index_of (fst rr) idx, index_of (fst cx) idx with
         | Some b, Some a => nth b (nth a M []) 0
         | _, _ => snd cx
         end) (combine (seq 0 (length (snd rr))) (snd rr)))
      (combine (seq 0 (length A)) A).
(* TensorTerm._build_marginal_constraints(i, coef, clam, cl2) *)
Definition marginal_constraints (ms : list cmargin) (i : nat) (coef : list T) (clam cl2 : T) : mat :=
  let N := length coef in
  let m := nth i ms (mk_cmargin O []) in
  fold_left (fun acc sl => scatter_assign acc sl (term_constraints (cm_n m) (gather coef sl) (cm_cons m) clam cl2))
            (fibres (map cm_n ms) i) (mzero o N N).
(* TensorTerm.build_constraints: zeros(n_coefs) then += each marginal's composite *)
Definition tensor_constraints (ms : list cmargin) (coef : list T) (clam cl2 : T) : mat :=
  let N := nprod (map cm_n ms) in
  fold_left (fun acc i => madd o acc (marginal_constraints ms i coef clam cl2)) (seq 0 (length ms)) (mzero o N N).

Inductive cterm := CTIntercept | CTSimple (m : cmargin) | CTTensor (ms : list cmargin).
Definition cterm_n (t : cterm) : nat :=
  match t with CTIntercept => 1%nat | CTSimple m => cm_n m | CTTensor ms => nprod (map cm_n ms) end.
Definition cterm_constraints (t : cterm) (coef : list T) (clam cl2 : T) : mat :=
  match t with
  | CTIntercept => [[0]]
  | CTSimple m => term_constraints (cm_n m) coef (cm_cons m) clam cl2
  | CTTensor ms => tensor_constraints ms coef clam cl2
  end.
Definition cterm_hasconstraint (t : cterm) : bool :=
  match t with
  | CTIntercept => false        (* Intercept.constraints = [None] *)
  | CTSimple m => hasconstraint (cm_cons m)
  | CTTensor ms => existsb (fun m => hasconstraint (cm_cons m)) ms
  end.
(* TermList.build_constraints: block_diag over terms of term.build_constraints(coefs[idxs_of_term]) *)
Fixpoint split_coefs (ts : list cterm) (coefs : list T) : list (list T) :=
  match ts with
  | [] => []
  | t :: ts' => firstn (cterm_n t) coefs :: split_coefs ts' (skipn (cterm_n t) coefs)
  end.
Definition model_constraints (ts : list cterm) (coefs : list T) (clam cl2 : T) : mat :=
  block_diag o (map (fun tc => cterm_constraints (fst tc) (snd tc) clam cl2) (combine ts (split_coefs ts coefs))).
Definition model_hasconstraint (ts : list cterm) : bool := existsb cterm_hasconstraint ts.
End C.
