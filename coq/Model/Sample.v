(* Model/Sample.v -- primitives used by the definitions GENERATED from GAM.sample and its helpers (coq/Gen/Sample.v).
   Definitions only. *)
From Coq Require Import Reals String ZArith Bool List.
From PG Require Import Model.Intervals.
Import ListNotations.
Open Scope R_scope.

(* one call np.random.multivariate_normal(mean, cov, size): arguments, and the rows of coef_draws its output is stored in *)
Record mvn_call := mk_mvn_call { mc_mean : list R; mc_cov : list (list R); mc_size : nat; mc_rows : list nat }.

(* positions (draw indices) at which bootstrap index b was chosen *)
Definition positions (b : nat) (choice : list nat) : list nat :=
  map fst (filter (fun p => Nat.eqb (snd p) b) (combine (seq 0 (length choice)) choice)).
(* distinct chosen indices in order of first appearance (insertion order of the dict) *)
Fixpoint first_seen_from (seen : list nat) (choice : list nat) : list nat :=
  match choice with
  | [] => []
  | b :: rest => if existsb (Nat.eqb b) seen then first_seen_from seen rest else b :: first_seen_from (b :: seen) rest
  end.
Definition first_seen (choice : list nat) : list nat := first_seen_from [] choice.

(* coef_draws[draw_indices] = output of the call: row i of the result is row k of the output of the call with rows[k] = i *)
Fixpoint index_of (i : nat) (l : list nat) (k : nat) : option nat :=
  match l with [] => None | x :: l' => if Nat.eqb x i then Some k else index_of i l' (S k) end.
Fixpoint row_of (calls : list mvn_call) (outputs : list (list (list R))) (i : nat) : list R :=
  match calls, outputs with
  | c :: cs, o :: os => match index_of i (mc_rows c) 0 with Some k => nth k o [] | None => row_of cs os i end
  | _, _ => []
  end.
Definition assemble (calls : list mvn_call) (outputs : list (list (list R))) (n_draws : nat) : list (list R) :=
  map (row_of calls outputs) (seq 0 n_draws).

(* M.T for a matrix with ncols columns given by rows *)
Definition transposeR (ncols : nat) (M : list (list R)) : list (list R) :=
  map (fun j => map (fun row => nth j row 0) M) (seq 0 ncols).

(* largest absolute entry of a matrix: np.abs(M).max() *)
Definition maxabs (M : list (list R)) : R := fold_right Rmax 0 (map Rabs (concat M)).

(* argument checks; CkData = the validation block check_y / check_X / check_X_y / weights (ValueError on invalid data) *)
Inductive scheck := CkQuantity (allowed : list string) | CkFitted | CkLt (param : string) (bound : Z) | CkData.
Inductive soutcome := SRun | SValueError | SAttributeError.
Inductive sample_quantity := RetCoef | RetMu | RetY.
Definition check_fails (c : scheck) (quantity : string) (fitted data_valid : bool) (n_draws n_bootstraps : Z) : option soutcome :=
  match c with
  | CkQuantity allowed => if existsb (String.eqb quantity) allowed then None else Some SValueError
  | CkFitted => if fitted then None else Some SAttributeError
  | CkLt p b => let v := if String.eqb p "n_draws" then n_draws else n_bootstraps in if Z.ltb v b then Some SValueError else None
  | CkData => if data_valid then None else Some SValueError
  end.
Fixpoint run_checks (cs : list scheck) (quantity : string) (fitted data_valid : bool) (n_draws n_bootstraps : Z) : soutcome :=
  match cs with
  | [] => SRun
  | c :: cs' => match check_fails c quantity fitted data_valid n_draws n_bootstraps with Some o => o | None => run_checks cs' quantity fitted data_valid n_draws n_bootstraps end
  end.
