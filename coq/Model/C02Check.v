(* Model/C02Check.v -- case type and checker used by the generated correspondence files for C02 *)
From Coq Require Import List ZArith QArith Qabs Bool Arith.
From PG Require Import Base.Ops Base.Vec Model.BSpline Model.C03Check Model.Columns Model.Predict.
Import ListNotations.

(* sum_j max(1, |r_j|) * |beta_j|: the scale of the rounding error of a dot product whose left factor carries the
   basis tolerance of C03 (1e-8 * max(1, |entry|)) *)
Fixpoint absdot (r beta : list Q) : Q :=
  match r, beta with
  | a :: r', b :: beta' => Qred ((if Qle_bool 1 (Qabs a) then Qabs a else 1) * Qabs b + absdot r' beta')
  | _, _ => 0
  end.
Definition close_scaled (tol : Q) (impl : Z * Z) (model scale : Q) : bool :=
  Qle_bool (Qabs (Qof impl - model)) (tol * (1 + scale)).

Inductive c02case :=
| CPredict (ts : list (cterm Q)) (beta : list (Z * Z)) (tol : Q)
           (rows : list (list (Z * Z) * option (Z * Z) * list (Z * Z)))
    (* per row: feature values; gam._linear_predictor(X)[row] (None = the call raised for this row);
       per term i: partial_dependence(i, X)[row] (the intercept term: _linear_predictor(X, term=i)[row]) *)
| CGrid (t : cterm Q) (lin : list (nat * ((Z * Z) * (Z * Z)))) (m n : nat) (tol : Q)
        (grid : option (list (list (Z * Z))))    (* generate_X_grid(term, n, meshgrid=False); None = ValueError *)
        (meshcols : list (list (Z * Z)))         (* generate_X_grid(term, n, meshgrid=True): every array, raveled *)
| CFlatten (t : cterm Q) (m : nat) (axes : list (list (Z * Z)))    (* user mesh axes (exact values of int / float32 / float64 entries) *)
           (impl : list (list (Z * Z))).                             (* GAM._flatten_mesh(np.meshgrid of the axes with indexing='ij'), term) *)

Definition lin_of (l : list (nat * ((Z * Z) * (Z * Z)))) (f : nat) : Q * Q :=
  match find (fun p => Nat.eqb (fst p) f) l with
  | Some p => (Qof (fst (snd p)), Qof (snd (snd p)))
  | None => (0, 0)
  end.

Definition row_ok (ts : list (cterm Q)) (beta : list Q) (tol : Q) (r : list (Z * Z) * option (Z * Z) * list (Z * Z)) : bool :=
  let row := map Qof (fst (fst r)) in
  let impl_lp := snd (fst r) in
  let impl_pd := snd r in
  match row_blocks Qfops ts row, impl_lp with
  | Some cols, Some v =>
      close_scaled tol v (dot Qrops cols beta) (absdot cols beta) &&
      Nat.eqb (length impl_pd) (length ts) &&
      forallb (fun iv =>
                 match block Qfops (nth (fst iv) ts CIntercept) row with
                 | Some b => close_scaled tol (snd iv) (dot Qrops b (term_coefs ts beta (fst iv))) (absdot b (term_coefs ts beta (fst iv)))
                 | None => false
                 end &&
                 (* the model's pdep is by definition that dot product *)
                 match pdep Qfops ts beta (fst iv) row, block Qfops (nth (fst iv) ts CIntercept) row with
                 | Some p, Some b => Qeqb p (dot Qrops b (term_coefs ts beta (fst iv)))
                 | _, _ => false
                 end)
              (combine (seq 0 (length ts)) impl_pd)
  | None, None => true
  | _, _ => false
  end.

Definition grid_close (tol : Q) (impl : list (list (Z * Z))) (model : list (list Q)) : bool :=
  Nat.eqb (length impl) (length model) &&
  forallb (fun p => row_close tol (fst p) (snd p)) (combine impl model).

Definition check_case (c : c02case) : bool :=
  match c with
  | CPredict ts beta tol rows =>
      Nat.eqb (length beta) (total_coefs ts) && forallb (row_ok ts (map Qof beta) tol) rows
  | CGrid t lin m n tol grid meshcols =>
      let pts := mesh (map (axis Qfops (lin_of lin) n) (term_marginals t)) in
      match default_grid Qfops (lin_of lin) m n t, grid with
      | Some g, Some g' => grid_close tol g' g
      | None, None => true
      | _, _ => false
      end &&
      Nat.eqb (length meshcols) (length (term_marginals t)) &&
      forallb (fun ic => row_close tol (snd ic) (map (fun pt => nth (fst ic) pt 0%Q) pts))
              (combine (seq 0 (length meshcols)) meshcols)
  | CFlatten t m axes impl =>
      Nat.eqb (length axes) (length (term_marginals t)) &&
      grid_close 0 impl (user_mesh_grid Qfops m t (map (map Qof) axes))
  end.
