(* Model/Predict.v -- executable model of the prediction path of pygam/pygam.py, one data row at a time, on top of the
   column model of Model/Columns.v (C16).  Parametric in the number type.  Definitions only.

     GAM._linear_predictor(X)                 = modelmat.dot(coef_)                  [lp]
     GAM._linear_predictor(modelmat=_modelmat(X, term=i), term=i)
        = build_columns(X, term=i) . coef_[get_coef_indices(i)]                       [pdep]  (= partial_dependence(i, X)
                                                                                              for a non-intercept term)
     np.linspace(a, b, num=n)                 = a + i * ((b - a) / (n - 1)), i < n   [linspace]   (numpy: arange * step + start)
     np.meshgrid of the axes with indexing='ij' and .ravel() (C order) of every output: point r of the mesh, first axis slowest  [mesh]
     GAM._flatten_mesh(Xs, term)              : X = zeros; for (marginal, x) in zip(marginals, Xs): X[:, marginal.feature] = x;
                                                then, if the term has a by-variable, X[:, by] = 1   (since the repair of S7:
                                                /repo commit "fix: default grids of terms with a by-variable ...")   [flatten_row, set_by]
     GAM.generate_X_grid(term, n, meshgrid=False)
        tensor : _flatten_mesh(meshgrid of the marginals' linspaces)                  [default_grid]
        other  : X = zeros; X[:, feature] = linspace; if by is not None: X[:, by] = 1
     GAM.partial_dependence(term, X=None, meshgrid=True) evaluates on _flatten_mesh(generate_X_grid(term, meshgrid=True)) [mesh_grid]

   LinearTerm edge knots (min, max of the training column) are not part of Columns.simple; they are supplied by the
   function `lin : feature -> (ek0, ek1)`.  None = the code raises.                                                  *)
From Coq Require Import List ZArith Bool Arith.
From PG Require Import Base.Ops Base.Vec Model.BSpline Model.Columns.
Import ListNotations.

Section P.
Context {T : Type} (o : fops T).
Notation "0" := (r0 (fr o)). Notation "1" := (r1 (fr o)).
Infix "+" := (radd (fr o)). Infix "-" := (rsub (fr o)). Infix "*" := (rmul (fr o)).
Infix "/" := (fdiv o).
Notation ofZ := (rofZ (fr o)).

(* ---------- linear predictor and per-term partial effects ---------- *)
Definition lp (ts : list (cterm T)) (beta row : list T) : option T :=
  option_map (fun r => dot (fr o) r beta) (row_blocks o ts row).
(* coef_[terms.get_coef_indices(i)] *)
Definition term_coefs (ts : list (cterm T)) (beta : list T) (i : nat) : list T :=
  slice beta (coef_start ts i) (n_coefs (nth i ts CIntercept)).
Definition pdep (ts : list (cterm T)) (beta : list T) (i : nat) (row : list T) : option T :=
  option_map (fun b => dot (fr o) b (term_coefs ts beta i)) (block o (nth i ts CIntercept) row).
(* all terms, in term order *)
Fixpoint all_some {A} (l : list (option A)) : option (list A) :=
  match l with
  | [] => Some []
  | Some a :: r => match all_some r with Some r' => Some (a :: r') | None => None end
  | None :: _ => None
  end.
Definition pdeps (ts : list (cterm T)) (beta row : list T) : option (list T) :=
  all_some (map (fun i => pdep ts beta i row) (seq O (length ts))).

(* ---------- which entries of a data row a term reads ---------- *)
Definition opt_list (b : option nat) : list nat := match b with Some j => [j] | None => [] end.
Definition simple_feature (s : simple T) : nat :=
  match s with SLinear f => f | SSpline f _ _ _ _ _ _ => f | SFactor f _ _ _ _ => f end.
Definition simple_by (s : simple T) : option nat :=
  match s with SSpline _ _ _ _ _ _ by_ => by_ | _ => None end.
Definition simple_reads (s : simple T) : list nat := simple_feature s :: opt_list (simple_by s).
Definition term_reads (t : cterm T) : list nat :=
  match t with
  | CIntercept => []
  | CSimple s => simple_reads s
  | CTensor ms by_ => flat_map simple_reads ms ++ opt_list by_
  end.

(* ---------- default grids ---------- *)
Definition linspace (a b : T) (n : nat) : list T :=
  map (fun i => a + ofZ (Z.of_nat i) * ((b - a) / ofZ (zdiff n 1))) (seq O n).
Definition simple_ek (lin : nat -> T * T) (s : simple T) : T * T :=
  match s with
  | SLinear f => lin f
  | SSpline _ a b _ _ _ _ => (a, b)
  | SFactor _ a b _ _ => (a, b)
  end.
Definition axis (lin : nat -> T * T) (n : nat) (s : simple T) : list T :=
  linspace (fst (simple_ek lin s)) (snd (simple_ek lin s)) n.
(* points of the 'ij' mesh in C (row-major) order: the first axis varies slowest *)
Fixpoint mesh (axes : list (list T)) : list (list T) :=
  match axes with
  | [] => [[]]
  | a :: rest => flat_map (fun x => map (cons x) (mesh rest)) a
  end.
(* X[r, f] = v *)
Fixpoint set_nth (f : nat) (v : T) (row : list T) {struct row} : list T :=
  match row with
  | [] => []
  | a :: r => match f with O => v :: r | S f' => a :: set_nth f' v r end
  end.
(* one row of _flatten_mesh: zeros, then the assignments in marginal order (a later marginal on the same feature wins) *)
Definition flatten_row (m : nat) (feats : list nat) (pt : list T) : list T :=
  fold_left (fun row fx => set_nth (fst fx) (snd fx) row) (combine feats pt) (zeros (fr o) m).
Definition term_marginals (t : cterm T) : list (simple T) :=
  match t with CIntercept => [] | CSimple s => [s] | CTensor ms _ => ms end.
Definition term_by (t : cterm T) : option nat :=
  match t with CIntercept => None | CSimple s => simple_by s | CTensor _ by_ => by_ end.
(* if by is not None: X[:, by] = 1.0   (the last assignment, so it wins over a feature column with the same index) *)
Definition set_by (by_ : option nat) (row : list T) : list T :=
  match by_ with Some j => set_nth j 1 row | None => row end.
(* _flatten_mesh(Xs, term) for a user-supplied 'ij' mesh over the given axes (one per marginal): row r holds point r of the
   mesh (C order) in the marginals' feature columns -- the values of the mesh arrays as real numbers, whatever their dtype --
   the by-column 1, zeros elsewhere: what partial_dependence(term, X=<tuple of mesh arrays>, meshgrid=True) evaluates on *)
Definition user_mesh_grid (m : nat) (t : cterm T) (axes : list (list T)) : list (list T) :=
  map (fun pt => set_by (term_by t) (flatten_row m (map simple_feature (term_marginals t)) pt)) (mesh axes).
(* _flatten_mesh(generate_X_grid(term, n, meshgrid=True), term): what partial_dependence(term, meshgrid=True) evaluates on *)
Definition mesh_grid (lin : nat -> T * T) (m n : nat) (t : cterm T) : list (list T) :=
  map (fun pt => set_by (term_by t) (flatten_row m (map simple_feature (term_marginals t)) pt))
      (mesh (map (axis lin n) (term_marginals t))).
(* generate_X_grid(term, n, meshgrid=False); None = ValueError for the intercept *)
Definition default_grid (lin : nat -> T * T) (m n : nat) (t : cterm T) : option (list (list T)) :=
  match t with
  | CIntercept => None
  | CSimple s =>
      Some (map (fun x => set_by (simple_by s) (set_nth (simple_feature s) x (zeros (fr o) m))) (axis lin n s))
  | CTensor _ _ => Some (mesh_grid lin m n t)
  end.
(* the same term without its by-variable *)
Definition drop_by (t : cterm T) : cterm T :=
  match t with
  | CSimple (SSpline f a b n k p _) => CSimple (SSpline f a b n k p None)
  | CTensor ms _ => CTensor ms None
  | _ => t
  end.
(* partial_dependence(term=i, X=None, meshgrid=false/true) with n grid points per marginal *)
Definition pdep_default (lin : nat -> T * T) (m n : nat) (ts : list (cterm T)) (beta : list T) (i : nat) : option (list (option T)) :=
  option_map (map (pdep ts beta i)) (default_grid lin m n (nth i ts CIntercept)).
Definition pdep_meshgrid (lin : nat -> T * T) (m n : nat) (ts : list (cterm T)) (beta : list T) (i : nat) : list (option T) :=
  map (pdep ts beta i) (mesh_grid lin m n (nth i ts CIntercept)).
End P.
