(* Model/C14Pen.v -- what Term.build_penalties / TermList.build_penalties return, as a FUNCTION OF THE CURRENT
   hyper-parameters of the term objects of Model/Terms.v: the term is translated into the penalty model of
   Model/Penalties.v (proved about in Props/C04.v).  The model has no hidden state: there is nothing a penalty could
   depend on besides the attributes the term has now.  Definitions only. *)
From Coq Require Import List ZArith QArith String Bool.
From PG Require Import Base.Ops Base.Vec Model.Penalties Model.C04Check Model.Terms.
Import ListNotations.
Open Scope string_scope.
Open Scope list_scope.

Definition pen_of_ostr (o : ostr) : option pen :=
  match o with
  | None => Some PNone
  | Some s => if String.eqb s "auto" then Some PAuto else if String.eqb s "derivative" then Some (PDeriv 2)
              else if String.eqb s "periodic" then Some (PPeriodic 2) else if String.eqb s "l2" then Some PL2
              else if String.eqb s "none" then Some PNone else None
  end.
Definition q_of_num (n : num) : Q := match n with NI z => inject_Z z | NF m e => Qdy m e end.

(* zip(self.penalties, self.lam) *)
Definition pens_of (pen : list ostr) (lam : list num) : option (list (Penalties.pen * Q)) :=
  match omap pen_of_ostr pen with Some ps => Some (combine ps (map q_of_num lam)) | None => None end.

Definition pen_simple (x : simple) : option (@margin Q) :=
  match x with
  | SL l => match pens_of (l_pen l) (l_lam l) with Some ps => Some (mk_margin KLinear 1 ps) | None => None end
  | SS s => match pens_of (s_pen s) (s_lam s) with
            | Some ps => Some (mk_margin (KSpline (String.eqb (s_basis s) "cp") (String.eqb (s_dtype s) "categorical"))
                                         (Z.to_nat (s_n s)) ps)
            | None => None end
  | SF s c => match pens_of (s_pen s) (s_lam s) with      (* _name = 'factor_term': 'auto' is l2 for either dtype *)
              | Some ps => Some (mk_margin KFactor (Z.to_nat (s_n s) - (if String.eqb c "dummy" then 1 else 0)) ps)
              | None => None end
  end.

Definition pen_term (t : Terms.term) : option (@Penalties.term Q) :=
  match t with
  | TI _ => Some TIntercept
  | TS x => match pen_simple x with Some m => Some (TSimple m) | None => None end
  | TTe ms _ _ => match omap pen_simple ms with Some l => Some (TTensor l) | None => None end
  end.

(* the penalty matrix of a term list in its current state *)
Definition penalty_now (ts : list Terms.term) : option (list (list Q)) :=
  match omap pen_term ts with Some l => Some (model_penalty Qrops l) | None => None end.

(* checker: the implementation's TermList.build_penalties (exact dyadics) against penalty_now *)
Definition check_penalty (ts : list Terms.term) (tol : Q) (impl : list (list (Z * Z))) : bool :=
  match penalty_now ts with Some M => meqb (Qclose tol) (Qmat_of impl) M | None => false end.
