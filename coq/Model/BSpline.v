(* Model/BSpline.v -- executable model of pygam/utils.py b_spline_basis (one row of the basis matrix)
   and gen_edge_knots.  Parametric in the number type (fops).  Definitions only.

   The model is the real-number semantics of the code, step by step:
     edge_knots = sort(edge_knots); offset = ek[0]; scale = ek[-1]-ek[0]; scale==0 -> 1      [scaled_x]
     n_splines += spline_order * periodic                                                    [n']
     boundary_knots = linspace(0,1,1+n'-k); diff = 1/(n'-k); aug knots j -> (j-k)*diff,
       j = 0..n'+k, the LAST one + 1e-9                                                       [knot]
     x = (x-offset)/scale;  periodic: x = np.minimum(x % (1+1e-9), 1.0)                       [fmod, tmin]
       (float modulo: sign of the divisor; the clip to 1 is the repair of S10, /repo commit f738620)
     rows for x, and for the two appended points 0 and 1
     Haar basis (x >= t_i)*(x < t_{i+1}); the row of the appended 1 is FORCED to be the
       mirror image of the row of the appended 0                                              [haar_row, rev]
     Cox-de Boor recursion, vectorised, shrinking by one column per order                     [rec_step, deboor]
     periodic and k>0: first k columns := max(first k, last k); drop last k                   [pfold]
     k>0 and x<0 or x>1: row := grads_0 * x + bases(0)   resp.  grads_1 * (x-1) + bases(1),
       grads from the order k-1 bases at the appended 0 / 1; numpy broadcasting fails when the
       widths differ -> ValueError -> None (unreachable since the wrapped x is clipped to [0,1]) [grads, bspline_scaled]
   The constants 1e-9 are the exact rationals 1/10^9 (binary64 1e-9 differs by < 1e-25).
   np.linspace is modelled as i*step with step = 1/(n'-k) (exact), see the tolerance in harness/props/c03.py. *)
From Coq Require Import List ZArith Bool Arith.
From PG Require Import Base.Ops Base.Vec.
Import ListNotations.

(* integer difference of two naturals (kept as one function so that its parametricity is a one-line realizer) *)
Definition zdiff (a b : nat) : Z := (Z.of_nat a - Z.of_nat b)%Z.

Section BS.
Context {T : Type} (o : fops T).
Notation "0" := (r0 (fr o)). Notation "1" := (r1 (fr o)).
Infix "+" := (radd (fr o)). Infix "-" := (rsub (fr o)). Infix "*" := (rmul (fr o)).
Infix "/" := (fdiv o).
Notation ofZ := (rofZ (fr o)).
Notation leb := (rleb (fr o)). Notation ltb := (rltb (fr o)).

Definition eps9 : T := ofZ 1%Z / ofZ 1000000000%Z.
(* Python float modulo for a positive divisor: x - p*floor(x/p), in [0,p) *)
Definition fmod (x p : T) : T := x - p * ofZ (ffloor o (x / p)).
Definition tmin (a b : T) : T := if leb a b then a else b.
Definition tmax (a b : T) : T := if leb a b then b else a.

(* augmented knots of b_spline_basis for (augmented) size n and order k.  Only j <= n+k is used by the code;
   for j > n+k the model keeps the 1e-9 shift so that the sequence stays increasing. *)
Definition knot (n k : nat) (j : nat) : T :=
  let base := ofZ (zdiff j k) * (1 / ofZ (zdiff n k)) in
  if Nat.leb (Nat.add n k) j then base + eps9 else base.

Definition haar (t : nat -> T) (x : T) (i : nat) : T :=
  if leb (t i) x && ltb x (t (S i)) then 1 else 0.
Definition haar_row (t : nat -> T) (m : nat) (x : T) : list T := map (haar t x) (seq O m).

(* one pass of the vectorised recursion: from the order-j bases of columns i, i+1, ... to the order-(j+1) bases *)
Fixpoint rec_step (t : nat -> T) (x : T) (j i : nat) (bs : list T) : list T :=
  match bs with
  | a :: tl =>
      match tl with
      | b :: _ =>
          (((x - t i) * a) / (t (Nat.add i (S j)) - t i)
           + ((t (Nat.add i (S (S j))) - x) * b) / (t (Nat.add i (S (S j))) - t (S i)))
          :: rec_step t x j (S i) tl
      | [] => []
      end
  | [] => []
  end.
Fixpoint deboor (t : nat -> T) (x : T) (k : nat) (bs0 : list T) : list T :=
  match k with O => bs0 | S j => rec_step t x j O (deboor t x j bs0) end.

(* the same recursion as an index function (what the theorems talk about); h is the order-0 row *)
Fixpoint Bix (t : nat -> T) (h : nat -> T) (x : T) (k i : nat) : T :=
  match k with
  | O => h i
  | S j => ((x - t i) * Bix t h x j i) / (t (Nat.add i (S j)) - t i)
           + ((t (Nat.add i (S (S j))) - x) * Bix t h x j (S i)) / (t (Nat.add i (S (S j))) - t (S i))
  end.

Fixpoint vmax (u v : list T) : list T :=
  match u, v with a :: u', b :: v' => tmax a b :: vmax u' v' | _, _ => [] end.
(* bases[:, :k] = max(bases[:, :k], bases[:, -k:]); bases = bases[:, :-k] *)
Definition pfold (k : nat) (l : list T) : list T :=
  let w := Nat.sub (length l) k in
  firstn w (vmax (firstn k l) (skipn w l) ++ skipn k l).

(* grads = k * (prev[:-1]/(t_{i+k}-t_i) - prev[1:]/(t_{i+k+1}-t_{i+1})) *)
Fixpoint grads (t : nat -> T) (k i : nat) (prev : list T) : list T :=
  match prev with
  | a :: tl =>
      match tl with
      | b :: _ => (ofZ (zdiff k O) * (a / (t (Nat.add i k) - t i) - b / (t (S (Nat.add i k)) - t (S i))))
                  :: grads t k (S i) tl
      | [] => []
      end
  | [] => []
  end.

Definition scaled_x (ek0 ek1 x : T) : T :=
  let lo := tmin ek0 ek1 in
  let hi := tmax ek0 ek1 in
  let sc := hi - lo in
  let sc' := if leb sc 0 && leb 0 sc then 1 else sc in
  (x - lo) / sc'.

(* None = the code raises (ValueError): n_splines < spline_order + 1 *)
Definition bspline_scaled (n k : nat) (periodic : bool) (xs0 : T) : option (list T) :=
  if Nat.ltb n (S k) then None else
  let n' := if periodic then Nat.add n k else n in
  let t := knot n' k in
  let xs := if periodic then tmin (fmod xs0 (1 + eps9)) 1 else xs0 in
  let m := Nat.add n' k in
  let h0 := haar_row t m 0 in
  let h1 := rev h0 in
  let fold := fun l : list T => if periodic && negb (Nat.eqb k O) then pfold k l else l in
  let exl := ltb xs 0 in
  let exr := ltb 1 xs in
  if (exl || exr) && negb (Nat.eqb k O) then
    if exl then
      let b0 := fold (deboor t 0 k h0) in
      let g0 := grads t k O (deboor t 0 (Nat.pred k) h0) in
      if Nat.eqb (length g0) (length b0) then Some (vadd (fr o) (vscale (fr o) xs g0) b0) else None
    else
      let b1 := fold (deboor t 1 k h1) in
      let g1 := grads t k O (deboor t 1 (Nat.pred k) h1) in
      if Nat.eqb (length g1) (length b1) then Some (vadd (fr o) (vscale (fr o) (xs - 1) g1) b1) else None
  else Some (fold (deboor t xs k (haar_row t m xs))).

Definition bspline_row (ek0 ek1 : T) (n k : nat) (periodic : bool) (x : T) : option (list T) :=
  bspline_scaled n k periodic (scaled_x ek0 ek1 x).

(* gen_edge_knots(data, dtype): (min, max), widened by 1/2 for categorical data *)
Definition lmin (d : T) (l : list T) : T := fold_left tmin l d.
Definition lmax (d : T) (l : list T) : T := fold_left tmax l d.
Definition half : T := ofZ 1%Z / ofZ 2%Z.
Definition gen_edge_knots (categorical : bool) (col : list T) : option (T * T) :=
  match col with
  | [] => None
  | a :: rest =>
      let lo := lmin a rest in let hi := lmax a rest in
      Some (if categorical then (lo - half, hi + half) else (lo, hi))
  end.

(* SplineTerm.__init__ / SplineTerm.compile (after /repo e1fa477).  State of a term = its edge_knots_ attribute
   (None = attribute absent); `given` = _edge_knots_given = knots were passed to the constructor (then the initial state
   is Some of them).  compile(X):
       if not hasattr(self, 'edge_knots_') or not self._edge_knots_given: self.edge_knots_ = gen_edge_knots(X[:, f], dtype)
   The column is non-empty (check_X requires at least one sample); gen_edge_knots of an empty column is None. *)
Definition spline_init (user : option (T * T)) : bool * option (T * T) :=
  (match user with Some _ => true | None => false end, user).
Definition spline_compile (given categorical : bool) (st : option (T * T)) (col : list T) : option (T * T) :=
  match st with
  | Some e => if given then Some e else gen_edge_knots categorical col
  | None => gen_edge_knots categorical col
  end.
(* a history of compiles (refits, shared term objects): columns in call order *)
Definition spline_compile_history (user : option (T * T)) (categorical : bool) (cols : list (list T)) : option (T * T) :=
  fold_left (spline_compile (fst (spline_init user)) categorical) cols (snd (spline_init user)).
End BS.
