(* Model/C08Check.v -- exact-arithmetic checks of the reported statistics of one fit.
   The implementation's own B (= M^-1 WB' if correct) is an untrusted certificate: Coq checks M B = WB' and then
   recomputes edof = tr(WB B) and cov = scale B B' itself (DESIGN 3.4). *)
From Coq Require Import List ZArith QArith Qabs Bool Arith.
From PG Require Import Base.Ops Base.Vec Model.Pirls Model.C01Check.
Import ListNotations.

Record c08case := mk_c08 {
  s_dist : distk; s_m : nat;
  s_WB : list dyl;            (* n x m, rows *)
  s_E : list dyl;             (* m x m *)
  s_Bt : list dyl;            (* B transposed: n rows of length m (column j of B) *)
  s_edof : Z * Z; s_scale : Z * Z; s_known : bool;
  s_cov : list dyl; s_se : dyl;
  s_obs : list ((Z * Z) * (Z * Z) * (Z * Z));     (* w, y, mu for all observations *)
  s_tole : Z }.

Definition dtol (c : c08case) := mkdy 1 (s_tole c).
(* (1) certificate: for every observation j,  WB'(WB b_j) + E'(E b_j) = (row j of WB)  *)
Definition check_cert (c : c08case) : bool :=
  let WB := map (map todd) (s_WB c) in let E := map (map todd) (s_E c) in let Bt := map (map todd) (s_Bt c) in
  let m := s_m c in
  let WBt := transpose m WB in let Et := transpose m E in
  let rows := map (fun t =>
    let bj := fst t in let target := snd t in
    let WBb := map (fun r => ddot r bj) WB in let Eb := map (fun r => ddot r bj) E in
    let lhs := map (fun p => dadd (ddot (fst p) WBb) (ddot (snd p) Eb)) (combine WBt Et) in
    let scale := dmaxl (map (fun p => dadd (dabsdot (fst p) WBb) (dabsdot (snd p) Eb)) (combine WBt Et)) in
    (combine lhs target, dmax scale (dmaxl (map dabs target)))) (combine Bt WB) in
  (* errors of the explicit pseudo-inverse are absolute w.r.t. the overall matrix scale: one scale for all columns *)
  let gscale := dmaxl (map snd rows) in
  Z.leb (s_tole c) (-16) &&
  forallb (fun r => forallb (fun ab => dleb (dabs (dsub (fst ab) (snd ab))) (dadd (dmul (dtol c) gscale) tiny)) (fst r)) rows.
(* (2) edof = tr(WB B) *)
Definition check_edof (c : c08case) : bool :=
  let WB := map (map todd) (s_WB c) in let Bt := map (map todd) (s_Bt c) in
  let tr := dsum (map (fun t => ddot (fst t) (snd t)) (combine WB Bt)) in
  let ed := todd (s_edof c) in
  dleb (dabs (dsub tr ed)) (dmul (dtol c) (dadd (mkdy 1 0) (dabs ed))).
(* (3) cov = scale * B B' (entrywise; B B' [a][b] = sum_j Bt[j][a] Bt[j][b]) and se^2 = diag cov *)
Definition check_cov (c : c08case) : bool :=
  let Bt := map (map todd) (s_Bt c) in let m := s_m c in
  let Brows := transpose m Bt in                       (* m rows of length n *)
  let sc := todd (s_scale c) in
  let cov := map (map todd) (s_cov c) in
  let mx := dmaxl (map (fun r => dmaxl (map dabs r)) cov) in
  let tol := dadd (dmul (mkdy 1 (-36)) mx) tiny in
  forallb (fun t => forallb (fun u => dleb (dabs (dsub (dmul sc (ddot (fst t) (fst u))) (snd u))) tol) (combine Brows (snd t)))
          (combine Brows cov) &&
  forallb (fun t => let s2 := dmul (todd (fst t)) (todd (fst t)) in let d := snd t in
                    dleb (dabs (dsub s2 d)) (dadd (dmul (mkdy 1 (-40)) (dabs d)) tiny))
          (combine (s_se c) (map (fun t => nth (fst t) (snd t) (mkdy 0 0)) (combine (seq 0 m) cov))).
(* (4) scale: user-supplied, or weighted Pearson / (n - edof) *)
Definition check_scale (c : c08case) : bool :=
  if s_known c then true else
  let one := 1%Q in
  let pearson := fold_left (fun acc t => let w := todq (fst (fst t)) in let y := todq (snd (fst t)) in let mu := todq (snd t) in
                                  (acc + w * (y - mu) * (y - mu) / V0 Qfops (s_dist c) one mu)%Q) (s_obs c) 0%Q in
  let n := inject_Z (Z.of_nat (length (s_obs c))) in
  Qle_tol (1 # 1000000000) (todq (s_scale c) * (n - todq (s_edof c)) - pearson) pearson.
Definition check_code8 (c : c08case) : nat :=
  if negb (check_cert c) then 1 else if negb (check_edof c) then 2 else if negb (check_cov c) then 3
  else if negb (check_scale c) then 4 else 0.
Definition check_case8 (c : c08case) : bool := Nat.eqb (check_code8 c) 0.
