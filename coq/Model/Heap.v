(* Model/Heap.v -- heap machine for C15 (definitions only): Term objects shared by reference between models,
   data-dependent term state written in place by compile, fit results on the model object.
   Abstraction: a data set is a number d >= 1; the edge knots / category set derived from data set d are "Some d"
   (custom edge_knots passed to the constructor are source 0 and the object remembers that they were given).  What a model predicts is determined by its fit record
   (which data, which knots each term had when the coefficients were estimated) together with the CURRENT knots of its
   term objects (build_columns reads term.edge_knots_ at prediction time).
   The machine never looks at the model class (distribution, link, expectile, exposure): every definition and theorem holds for
   LinearGAM, LogisticGAM, PoissonGAM, GammaGAM, InvGaussGAM and ExpectileGAM alike; the harness runs histories of all six. *)
From Coq Require Import List ZArith Bool Arith.
Import ListNotations.

Inductive tkind := KSpline | KFactor | KLinear.
Record tobj := mkT { t_kind : tkind; t_knots : option nat; t_given : bool (* _edge_knots_given: knots passed by the user *) }.
Record mobj := mkM { m_terms : list nat;                         (* ids of the Term objects, referenced, never copied by fit *)
                     m_fit : option (nat * list (option nat));   (* Some (d, knots per term at fit time): coef_/statistics_ *)
                     m_logs : nat }.                             (* logs_ accumulates across fits *)
Record heap := mkH { h_terms : list tobj; h_models : list mobj }.

Definition dflt_t := mkT KLinear None false.
Definition dflt_m := mkM [] None 0.
Definition get_t (h : heap) (i : nat) : tobj := nth i (h_terms h) dflt_t.
Definition get_m (h : heap) (m : nat) : mobj := nth m (h_models h) dflt_m.

Fixpoint upd {A} (l : list A) (i : nat) (x : A) : list A :=
  match l, i with
  | [], _ => []
  | _ :: r, O => x :: r
  | y :: r, S j => y :: upd r j x
  end.

(* SplineTerm.compile (after "fix: a spline term kept the knots of the first data set it was compiled on"): edge_knots_ are
   regenerated from the data unless they were given by the user; FactorTerm / LinearTerm.compile always overwrite *)
Definition compile_t (d : nat) (t : tobj) : tobj :=
  if t_given t then t else mkT (t_kind t) (Some d) false.

Fixpoint compile_ids (d : nat) (ids : list nat) (ts : list tobj) : list tobj :=
  match ids with
  | [] => ts
  | i :: r => compile_ids d r (upd ts i (compile_t d (nth i ts dflt_t)))
  end.

Definition knots_of (ts : list tobj) (ids : list nat) : list (option nat) := map (fun i => t_knots (nth i ts dflt_t)) ids.

Inductive op :=
| NewModel (ids : list nat)                 (* GAM(terms=expr): the term objects of expr are referenced *)
| NewTerm (k : tkind) (custom : bool)       (* s(..) / f(..) / l(..); custom = edge_knots given *)
| Fit (m d : nat)
| Predict (m : nat) | Intervals (m : nat) | PartialDependence (m : nat) | Summary (m : nat) | Sample (m : nat)
| Loglik (m : nat) | Residuals (m : nat)
| PredictProba (m : nat) | Accuracy (m : nat) | Score (m : nat)   (* class-specific queries (LogisticGAM.predict_proba / accuracy, score) *)
| FitQuantile (m d : nat)                     (* ExpectileGAM.fit_quantile: a sequence of fits on the same data *)
| GridsearchNoKeep (m d : nat)
| GridsearchKeep (m d : nat) (self_best : bool) (* self_best: the already fitted self had the best score *)
| DeepCopy (m : nat)
| SetParams (m : nat).                       (* lam etc.: no data-dependent state *)

Definition is_fitted (h : heap) (m : nat) : bool := match m_fit (get_m h m) with Some _ => true | None => false end.

Definition fit_model (h : heap) (m d : nat) : heap :=
  let mo := get_m h m in
  let ts' := compile_ids d (m_terms mo) (h_terms h) in
  mkH ts' (upd (h_models h) m (mkM (m_terms mo) (Some (d, knots_of ts' (m_terms mo))) (S (m_logs mo)))).

(* deepcopy of a model: fresh copies of its term objects (current state), same fit record *)
Definition copy_model (h : heap) (m : nat) : heap * mobj :=
  let mo := get_m h m in
  let n := length (h_terms h) in
  let copies := map (fun i => get_t h i) (m_terms mo) in
  (mkH (h_terms h ++ copies) (h_models h), mkM (seq n (length (m_terms mo))) (m_fit mo) (m_logs mo)).

Definition step (o : op) (h : heap) : heap :=
  match o with
  | NewTerm k custom => mkH (h_terms h ++ [mkT k (if custom then Some 0 else None) custom]) (h_models h)
  | NewModel ids => mkH (h_terms h) (h_models h ++ [mkM ids None 0])
  | Fit m d | FitQuantile m d => fit_model h m d
  | Predict _ | Intervals _ | PartialDependence _ | Summary _ | Sample _ | Loglik _ | Residuals _ | SetParams _
  | PredictProba _ | Accuracy _ | Score _ => h
  | GridsearchNoKeep m d =>
      if is_fitted h m then h
      else mkH (compile_ids d (m_terms (get_m h m)) (h_terms h)) (h_models h)      (* _validate_data_dep_params on self *)
  | GridsearchKeep m d self_best =>
      (* an unfitted self first validates / compiles its own terms; every candidate is a deep copy of self fitted on d; then
         self.set_params(deep=True, force=True, deepcopy(best.get_params(deep=True))): self ends up with COPIES of the winner's
         term objects (of its own, when the already fitted self had the best score).  Candidates that are not kept are not
         represented: nothing refers to them unless return_scores=True, and then they share nothing with self any more. *)
      let h0 := if is_fitted h m then h else mkH (compile_ids d (m_terms (get_m h m)) (h_terms h)) (h_models h) in
      let (h1, c) := copy_model h0 m in
      if self_best && is_fitted h m then mkH (h_terms h1) (upd (h_models h1) m c) else
      let ts' := compile_ids d (m_terms c) (h_terms h1) in
      mkH ts' (upd (h_models h1) m (mkM (m_terms c) (Some (d, knots_of ts' (m_terms c))) (S (m_logs c))))
  | DeepCopy m => let (h1, c) := copy_model h m in mkH (h_terms h1) (h_models h1 ++ [c])
  end.

Definition run (ops : list op) (h : heap) : heap := fold_left (fun h o => step o h) ops h.
Definition empty : heap := mkH [] [].

(* what determines a model's predictions and statistics *)
Definition obs (h : heap) (m : nat) : option (nat * list (option nat)) * list (option nat) :=
  (m_fit (get_m h m), knots_of (h_terms h) (m_terms (get_m h m))).
(* the term object as its constructor left it (before any compile) *)
Definition fresh_term (t : tobj) : tobj := mkT (t_kind t) (if t_given t then t_knots t else None) (t_given t).
(* the outcome of fitting a fresh model -- fresh term objects with the same constructor settings -- on data d *)
Definition fresh_fit (h : heap) (d : nat) (ids : list nat) : option (nat * list (option nat)) :=
  Some (d, map (fun i => t_knots (compile_t d (fresh_term (get_t h i)))) ids).

Definition is_query (h : heap) (o : op) : bool :=
  match o with
  | Predict _ | Intervals _ | PartialDependence _ | Summary _ | Sample _ | Loglik _ | Residuals _
  | PredictProba _ | Accuracy _ | Score _ => true
  | GridsearchNoKeep m _ => is_fitted h m
  | _ => false
  end.

Definition valid_ids (h : heap) (ids : list nat) : Prop := forall i, In i ids -> i < length (h_terms h).
