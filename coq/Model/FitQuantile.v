(* Model/FitQuantile.v -- the bisection loop of ExpectileGAM.fit_quantile as a small state machine, built from the
   expressions GENERATED from the source (Gen/FitQuantile.v): once over the reals -- parametric in a function
   `rnd : R -> R` through which every arithmetic result passes (identity: exact real arithmetic; a rounding to a
   floating-point format: the rounded-real semantics) -- and once over binary64 (PrimFloat), bit-exact.
   The refits themselves are not modelled: what each fit does to the empirical ratio is an ORACLE (ratio k = value
   returned by _get_quantile_ratio after k refits), universally quantified in the theorems.  Definitions only. *)
From Coq Require Import Reals ZArith Bool List PrimFloat.
From PG Require Import Base.Ops Gen.FitQuantile.
Import ListNotations.

(* ---------------- reals (exact or rounded) ---------------- *)
(* q_broke: left by `break` because the ratio is within tol;  q_stalled: left by `break` because the new expectile equals
   an end of the bracket (it is then neither stored nor fitted) *)
Record fqst := mk_fqst { q_min : R; q_max : R; q_e : R; q_n : Z; q_broke : bool; q_stalled : bool; q_refits : nat }.
Definition fq_init (e0 : R) : fqst := mk_fqst Gen_fq_init_min Gen_fq_init_max e0 Gen_fq_init_n_iter false false 0.
(* one pass through the loop body (entered because the guard held) *)
Definition fq_body (rnd : R -> R) (quantile tol ratio : R) (s : fqst) : fqst :=
  if Gen_fq_within_tol rnd ratio quantile tol then mk_fqst (q_min s) (q_max s) (q_e s) (q_n s) true false (q_refits s)
  else let b := Gen_fq_bracket ratio quantile (q_min s) (q_max s) (q_e s) in
       let e' := Gen_fq_new_expectile rnd (fst b) (snd b) in
       if Gen_fq_stall e' (fst b) (snd b) then mk_fqst (fst b) (snd b) (q_e s) (q_n s) false true (q_refits s)
       else mk_fqst (fst b) (snd b) e' (q_n s + Gen_fq_n_iter_step)%Z false false (S (q_refits s)).
Definition fq_running (max_iter : Z) (s : fqst) : bool := negb (q_broke s) && negb (q_stalled s) && Gen_fq_guard (q_n s) max_iter.
Fixpoint fq_loop (rnd : R -> R) (fuel : nat) (quantile tol : R) (max_iter : Z) (ratio : nat -> R) (s : fqst) : fqst :=
  match fuel with
  | O => s
  | S f => if fq_running max_iter s then fq_loop rnd f quantile tol max_iter ratio (fq_body rnd quantile tol (ratio (q_refits s)) s) else s
  end.
(* the invariant of the property text: the expectile is strictly inside (0,1), the bracket inside [0,1], and -- until the
   loop is left through the stall exit -- the expectile is strictly inside the bracket *)
Definition fq_inv (s : fqst) : Prop :=
  (0 <= q_min s /\ q_max s <= 1 /\ 0 < q_e s < 1 /\ (q_stalled s = false -> q_min s < q_e s /\ q_e s < q_max s))%R.

(* ---------------- binary64 ---------------- *)
Record fqstf := mk_fqstf { f_min : float; f_max : float; f_e : float; f_n : Z; f_broke : bool; f_stalled : bool; f_raised : bool; f_refits : nat;
                           f_trace : list float (* expectiles handed to set_params, latest first *) }.
Definition fqf_init (e0 : float) : fqstf := mk_fqstf Gen_fq_init_min_f Gen_fq_init_max_f e0 Gen_fq_init_n_iter false false false 0 [].
Definition fqf_body (quantile tol ratio : float) (s : fqstf) : fqstf :=
  if Gen_fq_within_tol_f ratio quantile tol then mk_fqstf (f_min s) (f_max s) (f_e s) (f_n s) true false false (f_refits s) (f_trace s)
  else let b := Gen_fq_bracket_f ratio quantile (f_min s) (f_max s) (f_e s) in
       let e' := Gen_fq_new_expectile_f (fst b) (snd b) in
       if Gen_fq_stall_f e' (fst b) (snd b) then mk_fqstf (fst b) (snd b) (f_e s) (f_n s) false true false (f_refits s) (f_trace s)
       (* set_params(expectile=e') happens, then fit() validates the parameters first: ValueError leaves the loop *)
       else if Gen_expectile_out_of_range_f e' then mk_fqstf (fst b) (snd b) e' (f_n s) false false true (f_refits s) (e' :: f_trace s)
       else mk_fqstf (fst b) (snd b) e' (f_n s + Gen_fq_n_iter_step)%Z false false false (S (f_refits s)) (e' :: f_trace s).
Definition fqf_running (max_iter : Z) (s : fqstf) : bool :=
  negb (f_broke s) && negb (f_stalled s) && negb (f_raised s) && Gen_fq_guard (f_n s) max_iter.
Fixpoint fqf_loop (fuel : nat) (quantile tol : float) (max_iter : Z) (ratio : nat -> float) (s : fqstf) : fqstf :=
  match fuel with
  | O => s
  | S f => if fqf_running max_iter s then fqf_loop f quantile tol max_iter ratio (fqf_body quantile tol (ratio (f_refits s)) s) else s
  end.
(* "strictly inside (0,1)" for a binary64 expectile *)
Definition f_inside (e : float) : bool := PrimFloat.ltb 0%float e && PrimFloat.ltb e 1%float.
