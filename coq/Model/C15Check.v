(* Model/C15Check.v -- case type and checker for the generated correspondence files of C15 *)
From Coq Require Import List ZArith Bool Arith.
From PG Require Import Model.Heap.
Import ListNotations.

Definition onat_eqb (a b : option nat) : bool :=
  match a, b with Some x, Some y => Nat.eqb x y | None, None => true | _, _ => false end.
Fixpoint list_eqb {A} (e : A -> A -> bool) (a b : list A) : bool :=
  match a, b with [], [] => true | x :: r, y :: s => e x y && list_eqb e r s | _, _ => false end.

(* observation of one model: term ids (sharing graph, ids in first-created order), current knots source per term,
   fitted data id (0 = unfitted), knots sources at fit time, "prediction equals that of a fresh model fitted on the same data" *)
(* o_fresh_equal = None: not compared (the implementation's fit or the fresh fit did not report convergence) *)
Record mobs := mkObs { o_ids : list nat; o_knots : list (option nat); o_data : nat; o_fresh_equal : option bool }.

(* a LinearTerm's edge_knots_ do not enter its column: masked for the "equals a fresh fit" flag *)
Fixpoint mask (h : heap) (d : nat) (ids : list nat) (l : list (option nat)) : list (option nat) :=
  match ids, l with
  | i :: r, k :: s => (match t_kind (get_t h i) with KLinear => Some d | _ => k end) :: mask h d r s
  | _, _ => []
  end.

Definition model_obs (h : heap) (m : nat) : mobs :=
  let mo := get_m h m in
  let cur := knots_of (h_terms h) (m_terms mo) in
  match m_fit mo with
  | None => mkObs (m_terms mo) cur 0 (Some false)
  | Some (d, kn) => mkObs (m_terms mo) cur d (Some
                      (list_eqb onat_eqb (mask h d (m_terms mo) kn)
                                 (mask h d (m_terms mo) (match fresh_fit h d (m_terms mo) with Some (_, l) => l | None => [] end)) &&
                       list_eqb onat_eqb (mask h d (m_terms mo) cur) (mask h d (m_terms mo) kn)))
  end.

Definition mobs_eqb (a b : mobs) : bool :=
  list_eqb Nat.eqb (o_ids a) (o_ids b) && list_eqb onat_eqb (o_knots a) (o_knots b) && Nat.eqb (o_data a) (o_data b) &&
  match o_fresh_equal a, o_fresh_equal b with Some x, Some y => Bool.eqb x y | _, _ => true end.

Inductive c15case := CHist (ops : list op) (observed : list mobs).    (* observation of every model after the history *)

Definition check_case (c : c15case) : bool :=
  match c with
  | CHist ops observed =>
      let h := run ops empty in
      Nat.eqb (length (h_models h)) (length observed) &&
      list_eqb mobs_eqb (map (model_obs h) (seq 0 (length (h_models h)))) observed
  end.
