(* Model/Pirls.v -- one PIRLS iteration of GAM._pirls given the already inverse-linked mean:
   working weights W^2 = w / (g'(mu)^2 V(mu)) (times the expectile asymmetry), pseudo data z = lp + (y - mu) g'(mu),
   and the penalised normal equations  B'(W^2 o (B b)) + Ptot b = B'(W^2 o z)  as a residual (no solve: DESIGN 3.4).
   Parametric in the number type; definitions only. *)
From Coq Require Import List ZArith Bool Arith.
From PG Require Import Base.Ops Base.Vec.
Import ListNotations.

Inductive linkk := LIdentity | LLog | LLogit | LInverse | LInvSq.
Inductive distk := DNormal | DBinomial | DPoisson | DGamma | DInvGauss.

Section P.
Context {T : Type} (o : fops T).
Let r := fr o.
Notation "0" := (r0 r). Notation "1" := (r1 r).
Infix "+" := (radd r). Infix "-" := (rsub r). Infix "*" := (rmul r). Infix "/" := (fdiv o).

(* link.gradient(mu): same expression shapes as the generated Gen_*_gradient *)
Definition gprime (l : linkk) (L mu : T) : T :=
  match l with
  | LIdentity => 1
  | LLog => 1 / mu
  | LLogit => L / (mu * (L - mu))
  | LInverse => (0 - 1) * (1 / (mu * mu))
  | LInvSq => (0 - (1 + 1)) * (1 / (mu * mu * mu))
  end.
(* distribution.V(mu) at unit weight *)
Definition V0 (d : distk) (L mu : T) : T :=
  match d with
  | DNormal => 1
  | DBinomial => mu * (1 - mu / L)
  | DPoisson => mu
  | DGamma => mu * mu
  | DInvGauss => mu * mu * mu
  end.
(* ExpectileGAM: asym = (y > mu) * tau + (y <= mu) * (1 - tau);  None = ordinary GAM *)
Definition asym (tau : option T) (y mu : T) : T :=
  match tau with None => 1 | Some t => if rltb r mu y then t else 1 - t end.
Definition w2 (l : linkk) (d : distk) (tau : option T) (L w y mu : T) : T :=
  let gp := gprime l L mu in asym tau y mu * (w / (gp * gp * V0 d L mu)).
Definition zpd (l : linkk) (L lp y mu : T) : T := lp + (y - mu) * gprime l L mu.

Fixpoint vmul (u v : list T) : list T :=
  match u, v with a :: u', b :: v' => (a * b) :: vmul u' v' | _, _ => [] end.
(* B given by its rows (one per retained observation), m = number of coefficients *)
Definition Bt_mul (m : nat) (B : list (list T)) (v : list T) : list T := lincomb r m v B.     (* B' v *)
Definition neq_lhs (m : nat) (B : list (list T)) (W2 : list T) (Ptot : list (list T)) (b : list T) : list T :=
  vadd r (Bt_mul m B (vmul W2 (matvec r B b))) (matvec r Ptot b).
Definition neq_rhs (m : nat) (B : list (list T)) (W2 z : list T) : list T := Bt_mul m B (vmul W2 z).
Definition is_step (m : nat) B W2 Ptot z (b : list T) : Prop := neq_lhs m B W2 Ptot b = neq_rhs m B W2 z.
End P.
