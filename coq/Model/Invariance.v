(* Model/Invariance.v -- objects of property C12 (definitions only, parametric in the number type).
   * a training set as ONE list of combined rows (B_i, W2_i, z_i): model-matrix row, working weight, pseudo datum, so that
     "permuting the rows" / "replicating a row" is an operation on one list; the two sides of the penalised normal
     equations of Model/Pirls.v over such a list;
   * edof = tr(WB M^-1 (WB)') = sum_i W2_i * B_i . (M^-1 B_i)  (pygam.py _estimate_model_statistics: ||U1||_F^2), the inverse
     being given by a solver `sol` with M (sol x) = x  (no inverse is ever computed: DESIGN 3.4);
   * integer weights versus replicated rows;
   * SplineTerm.compile (terms.py: edge_knots_ = gen_edge_knots(X[:, feature], dtype)) for numerical data, and the action
     of a change of units x -> a x + b of feature f on compiled terms (edge knots of the spline terms / spline marginals on f). *)
From Coq Require Import List ZArith Bool Arith.
From PG Require Import Base.Ops Base.Vec Model.BSpline Model.Columns Model.Pirls.
Import ListNotations.

Section I.
Context {T : Type} (o : fops T).
Let r := fr o.

Definition trow := (list T * T * T)%type.
Definition rB (rows : list trow) : list (list T) := map (fun t => fst (fst t)) rows.
Definition rW (rows : list trow) : list T := map (fun t => snd (fst t)) rows.
Definition rZ (rows : list trow) : list T := map (fun t => snd t) rows.
Definition rows_lhs (m : nat) (rows : list trow) (Ptot : list (list T)) (b : list T) : list T :=
  neq_lhs o m (rB rows) (rW rows) Ptot b.
Definition rows_rhs (m : nat) (rows : list trow) : list T := neq_rhs o m (rB rows) (rW rows) (rZ rows).
Definition rows_step (m : nat) (rows : list trow) (Ptot : list (list T)) (b : list T) : Prop :=
  is_step o m (rB rows) (rW rows) Ptot (rZ rows) b.

(* leverage of one row and edof, through a solver of the normal-equation operator *)
Definition leverage (sol : list T -> list T) (t : trow) : T :=
  rmul r (snd (fst t)) (dot r (fst (fst t)) (sol (fst (fst t)))).
Definition edof_rows (sol : list T -> list T) (rows : list trow) : T := vsum r (map (leverage sol) rows).

(* a row carrying an integer multiplicity k: one row of weight k*w, or k rows of weight w *)
Definition ofnat (k : nat) : T := rofZ r (Z.of_nat k).
Definition weighted (rk : list (trow * nat)) : list trow :=
  map (fun p => (fst (fst (fst p)), rmul r (ofnat (snd p)) (snd (fst (fst p))), snd (fst p))) rk.
Definition replicated (rk : list (trow * nat)) : list trow := flat_map (fun p => repeat (fst p) (snd p)) rk.

(* SplineTerm.compile, dtype='numerical', no user edge knots: edge knots = (min, max) of the feature column *)
Definition compile_spline (f n k : nat) (periodic : bool) (by_ : option nat) (col : list T) : option (simple T) :=
  option_map (fun e => SSpline f (fst e) (snd e) n k periodic by_) (gen_edge_knots o false col).

(* change of units of feature f *)
Definition amap (a b x : T) : T := radd r (rmul r a x) b.
Definition map_simple (f : nat) (a b : T) (s : simple T) : simple T :=
  match s with
  | SSpline f' e0 e1 n k p by_ => if Nat.eqb f' f then SSpline f' (amap a b e0) (amap a b e1) n k p by_ else s
  | _ => s
  end.
Definition map_cterm (f : nat) (a b : T) (t : cterm T) : cterm T :=
  match t with
  | CIntercept => CIntercept
  | CSimple s => CSimple (map_simple f a b s)
  | CTensor ms by_ => CTensor (map (map_simple f a b) ms) by_
  end.
Definition map_row (f : nat) (a b : T) (row : list T) : list T :=
  firstn f row ++ match skipn f row with [] => [] | x :: rest => amap a b x :: rest end.
End I.

(* "feature f enters the model only through spline bases": not as a linear term, a factor term or a by-variable *)
Section G.
Context {T : Type}.
Definition by_not (f : nat) (by_ : option nat) : bool := match by_ with None => true | Some j => negb (Nat.eqb j f) end.
Definition only_spline_simple (f : nat) (s : simple T) : bool :=
  match s with
  | SLinear f' => negb (Nat.eqb f' f)
  | SSpline _ _ _ _ _ _ by_ => by_not f by_
  | SFactor f' _ _ _ _ => negb (Nat.eqb f' f)
  end.
Definition only_spline (f : nat) (t : cterm T) : bool :=
  match t with
  | CIntercept => true
  | CSimple s => only_spline_simple f s
  | CTensor ms by_ => forallb (only_spline_simple f) ms && by_not f by_
  end.
(* the guard inherited from C03: the spline terms on f have two distinct edge knots (a non-constant training column) *)
Definition knots_distinct_simple (f : nat) (s : simple T) : Prop :=
  match s with SSpline f' e0 e1 _ _ _ _ => f' = f -> e0 <> e1 | _ => True end.
Definition knots_distinct (f : nat) (t : cterm T) : Prop :=
  match t with
  | CIntercept => True
  | CSimple s => knots_distinct_simple f s
  | CTensor ms _ => Forall (knots_distinct_simple f) ms
  end.
End G.
