(* Model/C11Check.v -- the explicit exception list of C11 (entry points whose extracted trace does NOT reject a
   corruption before using the data: suspected pyGAM defects, each confirmed on the implementation by
   harness/props/c11.py), the boolean table checks decided by vm_compute in Proofs/C11.v, and the case type of the
   correspondence files.  Definitions only. *)
From Coq Require Import List String Bool Arith.
From PG Require Import Model.Validation Gen.C11Traces.
Import ListNotations.
Open Scope string_scope.

(* An exception is specific: defining class of the entry point (origin), optionally the receiving class, method,
   argument, corruption kind, optionally the container, fitted state.  Anything not listed must be rejected. *)
Record exc := mk_exc {
  x_id : string;
  x_cls : option string; x_origin : string; x_meth : string; x_arg : argk; x_kind : ckind;
  x_cont : option container; x_fitted : bool; x_dt : option dkind
}.

Definition S15 := "C11-S15-score-unvalidated".
Definition S8a := "C11-S8a-poisson-predict-exposure".
Definition S8b := "C11-S8b-sample-one-bootstrap".
Definition S8c := "C11-S8c-gridsearch-unfitted-X".
Definition S16 := "C11-S16-loglikelihood-lengths".
Definition S17 := "C11-S17-fit-quantile-fitted".
Definition S18 := "C11-S18-poisson-y-ravel".
Definition L1 := "C11-L1-accuracy-length-checked-after-predict".   (* benign: ValueError is raised, but only after X was used *)

Definition exceptions : list exc := [
  (* GAM.score -> _estimate_r2: y and weights are never validated, lengths never compared *)
  (* PoissonGAM.predict: exposure only cast and length-checked *)
  (* GAM.sample: with n_bootstraps = 1 the loop that would refit (and validate) never runs *)
  (* gridsearch on an unfitted model: _validate_data_dep_params(X) reads X.shape and compiles the terms first *)
  (* loglikelihood never compares len(X) with len(y) *)
  (* ExpectileGAM.fit_quantile on a fitted model: (predict(X) > y).mean() before any validation of y *)
  (* PoissonGAM._exposure_to_weights: y.ravel() on the raw argument (list / tuple -> AttributeError) *)
  (* LogisticGAM.accuracy / score: check_X_y(mu, y) runs after mu = predict_mu(X) *)
  mk_exc L1 None "LogisticGAM" "accuracy" AX KLen None true None;
  mk_exc L1 None "LogisticGAM" "score" AX KLen None true None
].

Definition opt_match {A} (eqb : A -> A -> bool) (o : option A) (x : A) : bool :=
  match o with None => true | Some y => eqb y x end.

Definition exc_entry_matches (x : exc) (e : entry) : bool :=
  argk_eqb (x_arg x) (e_arg e) && (String.eqb (x_meth x) (e_meth e) && (String.eqb (x_origin x) (e_origin e)
  && opt_match String.eqb (x_cls x) (e_cls e))).
Definition exc_matches (x : exc) (e : entry) (k : ckind) (c : container) (t : dkind) (fitted : bool) : bool :=
  if ckind_eqb (x_kind x) k && Bool.eqb (x_fitted x) fitted && opt_match cont_eqb (x_cont x) c && opt_match dkind_eqb (x_dt x) t
  then exc_entry_matches x e else false.

Definition excepted (e : entry) (k : ckind) (c : container) (t : dkind) (fitted : bool) : bool :=
  existsb (fun x => exc_matches x e k c t fitted) exceptions.

Definition all_kinds := [KNonFinite; KLen; KWidth; KDomain; KCat].

(* the state in which the property asks the question: a fitted model, or any model for the fitting methods *)
Definition state_ok (e : entry) (fitted : bool) : bool := fitted || e_fitting e.

(* ---- table check 1: every non-excepted (entry, applicable corruption, descriptor showing it, state, loop mode)
        is rejected with ValueError before any use *)
(* (written with `if` so that vm_compute evaluates the cheap tests first) *)
Definition cell_ok (e : entry) (k : ckind) (a : adesc) (fitted skip : bool) : bool :=
  if applicable e k && a_corrupted k a && state_ok e fitted
  then (if outcome_is_ve (run_atrace (e_actions e) a fitted skip) then true else excepted e k (a_cont a) (a_dt a) fitted)
  else true.

Definition table_ok (tr : list entry) : bool :=
  forallb (fun e => forallb (fun k => forallb (fun a => forallb (fun f => forallb (fun s =>
    cell_ok e k a f s) all_bool) all_bool) all_adesc) all_kinds) tr.

(* ---- table check 2: every exception is genuine in the model: some entry, descriptor and loop mode matching it
        is *not* rejected *)
Definition exc_genuine (tr : list entry) (x : exc) : bool :=
  existsb (fun e => if exc_entry_matches x e && applicable e (x_kind x) && state_ok e (x_fitted x) then
    existsb (fun a => if a_corrupted (x_kind x) a && (opt_match cont_eqb (x_cont x) (a_cont a) && opt_match dkind_eqb (x_dt x) (a_dt a)) then
      existsb (fun s => negb (outcome_is_ve (run_atrace (e_actions e) a (x_fitted x) s))) all_bool else false) all_adesc
    else false) tr.
Definition exceptions_genuine (tr : list entry) : bool := forallb (exc_genuine tr) exceptions.

(* ---- table check 3: methods that need a fitted model, called on an unfitted one: AttributeError for valid data
        (before any use), ValueError or AttributeError for invalid data *)
Definition unfitted_ok (tr : list entry) : bool :=
  forallb (fun e => e_fitting e || forallb (fun a => forallb (fun s =>
    let o := run_atrace (e_actions e) a false s in
    if a_valid a then outcome_is_ae o else outcome_is_ae o || outcome_is_ve o) all_bool) all_adesc) tr.

(* ---------------------------------------------------------------- correspondence cases *)
(* OVE: ValueError other than an optimisation failure; OOptErr: pygam.utils.OptimizationError / NotPositiveDefiniteError *)
Inductive observed := OVE | OOptErr | OAE | OTypeError | OOther | ORetFinite | ORetNonFinite.

Record c11case := mk_case {
  c_cls : string; c_meth : string; c_arg : argk; c_desc : desc; c_fitted : bool; c_skip : bool; c_obs : observed
}.

Definition find_entry (cls meth : string) (arg : argk) : option entry :=
  find (fun e => String.eqb (e_cls e) cls && String.eqb (e_meth e) meth && argk_eqb (e_arg e) arg) c11_traces.

(* model prediction vs observation.  A definite prediction (ValueError / AttributeError) must be matched exactly.
   `Used` / `Finished` means the call goes on computing with the data: on valid array data it must return finite
   numbers; on corrupted data (a listed exception) or on a container the code dereferences directly the model makes
   no prediction -- the property statement itself is then evaluated by the harness. *)
(* does this call (re)fit a model on the data?  fit, gridsearch; fit_quantile unless it leaves at its first break on a
   fitted model; sample when the bootstrap loop runs (n_bootstraps > 1: refits on simulated responses) *)
Definition refits (e : entry) (fitted skip : bool) : bool :=
  if String.eqb (e_meth e) "sample" then negb skip
  else if String.eqb (e_meth e) "fit_quantile" then negb fitted || negb skip
  else e_fitting e.

(* the actions before the first top-level MayRefit (None: there is none) *)
Fixpoint prefix_before_refit (l : list action) : option (list action) :=
  match l with
  | [] => None
  | MayRefit :: _ => Some []
  | x :: r => option_map (cons x) (prefix_before_refit r)
  end.
(* an optimisation failure of a refit on the OTHER (valid) arguments may end the call before the traced argument is
   validated: only when such a refit precedes, nothing before it stops the trace, and the loop that refits runs *)
Definition refit_may_preempt (e : entry) (a : adesc) (fitted skip : bool) : bool :=
  match prefix_before_refit (e_actions e) with
  | Some p => negb skip && match run_list fitted skip a p with None => true | Some _ => false end
  | None => false
  end.

Definition check_case (c : c11case) : bool :=
  match find_entry (c_cls c) (c_meth c) (c_arg c) with
  | None => false
  | Some e =>
      match run_trace (e_actions e) (c_desc c) (c_fitted c) (c_skip c), c_obs c with
      | RaisedVE, OVE => true
      | RaisedVE, OOptErr => refit_may_preempt e (abstract (c_desc c)) (c_fitted c) (c_skip c)
      | RaisedVE, _ => false
      | RaisedAE, OAE => true
      | RaisedAE, _ => false
      | Crashed _, OAE => true
      | Crashed _, _ => false
      | CrashedTE _, OTypeError => true
      | CrashedTE _, _ => false
      | Used _, o | Finished, o =>
          if a_valid (abstract (c_desc c)) && is_array (d_cont (c_desc c)) && (c_fitted c || e_fitting e)
          then match o with
               | ORetFinite => true
               | OOptErr => refits e (c_fitted c) (c_skip c)     (* the property permits an optimisation failure of a fit on valid data *)
               | _ => false
               end
          else true
      end
  end.
