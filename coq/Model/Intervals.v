(* Model/Intervals.v -- primitives used by the definitions GENERATED from GAM._get_quantiles / GAM.sample
   (coq/Gen/Intervals.v, coq/Gen/Sample.v).  Definitions only.
   Vectors are lists of reals, matrices are lists of rows; every array expression of the Python source is modelled
   index-wise (an explicit finite sum over positions), in the order the source writes it:
     modelmat.dot(b)                               ->  dotl row b        = sum_i row_i * b_i
     (modelmat.dot(cov) * modelmat.A).sum(axis=1)  ->  rowquad row cov   = sum_j (sum_i row_i * cov_ij) * row_j
     A[idxs][:, idxs]                              ->  block idxs A      (entries A[idxs_a][idxs_b])
     v[idxs] / columns idxs of a row               ->  select idxs v
   These compute with `interval` on literal arguments (cbn over the list structure only).                         *)
From Coq Require Import Reals List.
Import ListNotations.
Open Scope R_scope.

Fixpoint lsum {A : Type} (f : A -> R) (l : list A) : R :=
  match l with [] => 0 | x :: l' => f x + lsum f l' end.

Definition entry (M : list (list R)) (i j : nat) : R := nth j (nth i M []) 0.
Definition dotl (a b : list R) : R := lsum (fun i => nth i a 0 * nth i b 0) (seq 0 (length a)).
Definition rowquad (r : list R) (M : list (list R)) : R :=
  lsum (fun j => lsum (fun i => nth i r 0 * entry M i j) (seq 0 (length r)) * nth j r 0) (seq 0 (length r)).
Definition select (idxs : list nat) (v : list R) : list R := map (fun i => nth i v 0) idxs.
Definition block (idxs : list nat) (M : list (list R)) : list (list R) :=
  map (fun i => map (fun j => entry M i j) idxs) idxs.
(* matrix-vector product, one entry per row of the matrix:  modelmat.dot(v) *)
Definition matvec (M : list (list R)) (v : list R) : list R := map (fun row => dotl row v) M.
(* A + c * I   (utils.load_diagonal) on an n x n matrix given by rows *)
Definition add_diag (c : R) (M : list (list R)) : list (list R) :=
  map (fun i => map (fun j => entry M i j + (if Nat.eqb i j then c else 0)) (seq 0 (length M))) (seq 0 (length M)).

(* which coefficient indices an interval call uses: term = -1 (all coefficients) or the indices of one term *)
Inductive term_sel := AllTerms | TheTerm.
(* what a public method hands to _get_quantiles *)
Record qflags := mk_qflags { qf_prediction : bool; qf_xform : bool; qf_term : term_sel }.

(* monotone inverse links *)
Definition increasing (f : R -> R) : Prop := forall a b, a <= b -> f a <= f b.
