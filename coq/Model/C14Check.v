(* Model/C14Check.v -- case type and checker used by the generated correspondence files for C14 *)
From Coq Require Import List ZArith Ascii String Bool Arith.
From PG Require Import Model.Terms Model.C14Pen.
Import ListNotations.
Open Scope string_scope.
Open Scope list_scope.

Definition vstatus (s : status) : value :=
  VStr (match s with Ok => "Ok" | EVal => "EVal" | EAttr => "EAttr" | EType => "EType" | EIndex => "EIndex" | Unmod => "Unmod" end).

(* every attribute, hidden or not: used to compare model states for equality *)
Definition vknots (k : option (bool * list num)) : value := match k with None => VNone | Some (g, l) => VList [VBool g; vnums l] end.
Definition full_simple (x : simple) : value :=
  match x with
  | SL l => VList [VStr "L"; VInt (l_feat l); vnums (l_lam l); vostrs (l_pen l); VBool (l_verbose l); VStr (l_dtype l); vostrs (l_con l)]
  | SS s => VList [VStr "S"; VInt (s_feat s); VInt (s_n s); VInt (s_order s); vnums (s_lam s); vostrs (s_pen s); vostrs (s_con s);
                   VStr (s_basis s); VStr (s_dtype s); v_of_oz (s_by s); vknots (s_knots s); VBool (s_verbose s)]
  | SF s c => VList [VStr "F"; VInt (s_feat s); VInt (s_n s); VInt (s_order s); vnums (s_lam s); vostrs (s_pen s); vostrs (s_con s);
                   VStr (s_basis s); VStr (s_dtype s); v_of_oz (s_by s); vknots (s_knots s); VBool (s_verbose s); VStr c]
  end.
Definition full_term (t : term) : value :=
  match t with
  | TI vb => VList [VStr "I"; VBool vb]
  | TS x => full_simple x
  | TTe ms b vb => VList [VStr "Te"; VList (map full_simple ms); v_of_oz b; VBool vb]
  end.

Definition infos (ts : list term) : value := VList (map info ts).

(* ------------------------------------------------------------------ term programs on a TermList *)
Inductive op :=
| OpSet (name : string) (v : value)       (* tl.<name> = v *)
| OpGet (name : string)                   (* tl.<name> *)
| OpCompile (ncat : list (Z * Z)).        (* tl.compile(X): number of categories per factor feature *)

Definition ncat_fn (l : list (Z * Z)) (f : Z) : Z :=
  match find (fun p => Z.eqb (fst p) f) l with Some p => snd p | None => 0%Z end.

Fixpoint run_ops (ops : list op) (ts : list term) : list value :=
  match ops with
  | [] => []
  | OpSet name v :: r =>
      match tl_set name v ts with
      | (Ok, ts') => vstatus Ok :: infos ts' :: run_ops r ts'
      | (e, _) => [vstatus e]                               (* the harness stops a program at the first exception *)
      end
  | OpGet name :: r => tl_get name ts :: run_ops r ts
  | OpCompile nc :: r =>
      let ts' := map (compile (fun _ => []) (ncat_fn nc)) ts in infos ts' :: run_ops r ts'
  end.
Definition run_prog (e : expr) (ops : list op) : list value := let ts := eval e in infos ts :: run_ops ops ts.

(* ------------------------------------------------------------------ GAM-level programs *)
Inductive gop :=
| GSet (name : string) (v : value)                    (* gam.<name> = v *)
| GSetParams (name : string) (v : value) (force : bool) (* gam.set_params(<name>=v, force=force) *)
| GGet (name : string)                                (* getattr(gam, name) *)
| GFit (auto : list term) (ncat : list (Z * Z)).      (* _validate_data_dep_params(X) (+ compile) *)

Definition gam_infos (g : gam) : value := match g_terms g with Some ts => infos ts | None => VNone end.

Fixpoint run_gops (ops : list gop) (g : gam) : list value :=
  match ops with
  | [] => []
  | GSet name v :: r =>
      match gam_set name v g with (Ok, g') => vstatus Ok :: gam_infos g' :: run_gops r g' | (e, _) => [vstatus e] end
  | GSetParams name v force :: r =>
      match gam_set_params name v force g with (Ok, g') => vstatus Ok :: gam_infos g' :: run_gops r g' | (e, _) => [vstatus e] end
  | GGet name :: r => (match gam_get name g with Some v => v | None => vstatus EAttr end) :: run_gops r g
  | GFit auto nc :: r =>
      match gam_fit_terms auto g with
      | (Ok, g') =>
          let g'' := mkG (option_map (map (compile (fun _ => []) (ncat_fn nc))) (g_terms g')) (g_pending g') (g_fit_intercept g') in
          vstatus Ok :: gam_infos g'' :: run_gops r g''
      | (e, _) => [vstatus e]
      end
  end.

(* ------------------------------------------------------------------ cases *)
Definition vlist_eqb (a b : list value) : bool := value_eqb (VList a) (VList b).

Inductive c14case :=
| CProg (e : expr) (ops : list op) (trace : list value)
| CGam (g : gam) (ops : list gop) (trace : list value)
| CInfo (t : term) (i : value) (rebuilt : value) (guard : bool)
    (* i = t.info; rebuilt = Term.build_from_info(t.info).info (VNone if it raised); guard = harness's classification
       "no user-given knots, hidden factor attributes at their defaults" *)
| CAccept (o : obj) (deep force : bool) (k : string) (accepted : bool) (public_keys : list string)
| CPenalty (ts : list term) (tol : QArith_base.Q) (impl : list (list (Z * Z))).
    (* TermList.build_penalties() of a term list in the state ts (after uses and assignments), exact dyadics *)

Definition check_case (c : c14case) : bool :=
  match c with
  | CProg e ops trace => vlist_eqb (run_prog e ops) trace
  | CGam g ops trace => vlist_eqb (run_gops ops g) trace
  | CInfo t i rebuilt guard =>
      value_eqb (info t) i &&
      value_eqb (match build_from_info i with Some t' => info t' | None => VNone end) rebuilt &&
      Bool.eqb (roundtrip_guard t) guard &&
      (* when the guard holds the rebuilt term has exactly the behaviour-determining settings of the original *)
      (negb guard || match build_from_info i with Some t' => value_eqb (full_term (behav t')) (full_term (behav t)) | None => false end)
  | CAccept o deep force k accepted public_keys =>
      Bool.eqb (accepts (map fst (get_params deep o)) force o k) accepted &&
      vlist_eqb (map VStr (map fst (get_params false o))) (map VStr public_keys)
  | CPenalty ts tol impl => check_penalty ts tol impl
  end.
