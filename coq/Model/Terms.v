(* Model/Terms.v -- executable model of pygam/terms.py object plumbing (definitions only).
   Term AST with every keyword setting as data (including the attributes a class hides through `_exclude`),
   `info` / `build_from_info`, TermList construction (flatten + first-occurrence de-duplication on the info key),
   MetaTermMixin plural get / set, GAM-level hand-over of plural keyword arguments, get_params / set_params. *)
From Coq Require Import List ZArith Ascii String Bool Arith.
Import ListNotations.
Open Scope string_scope.
Open Scope list_scope.

(* ------------------------------------------------------------------ generic python values *)
Inductive value :=
| VNone | VBool (b : bool) | VInt (z : Z) | VFloat (m e : Z)   (* m * 2^e, m odd or 0: structural = numeric equality *)
| VStr (s : string) | VList (l : list value).
(* dictionaries are written as key-sorted lists of pairs VList [VStr k; v]  (= sorted(d.items())) *)

Fixpoint value_eqb (a b : value) {struct a} : bool :=
  match a, b with
  | VNone, VNone => true
  | VBool x, VBool y => Bool.eqb x y
  | VInt x, VInt y => Z.eqb x y
  | VFloat m e, VFloat m' e' => Z.eqb m m' && Z.eqb e e'
  | VStr x, VStr y => String.eqb x y
  | VList l, VList l' =>
      (fix go (l l' : list value) : bool :=
         match l, l' with
         | [], [] => true
         | x :: xs, y :: ys => value_eqb x y && go xs ys
         | _, _ => false
         end) l l'
  | _, _ => false
  end.

Definition is_list (v : value) : bool := match v with VList _ => true | _ => false end.
Definition is_atom (v : value) : bool := negb (is_list v).

(* utils.flatten on an iterable: nested lists -> flat list of atoms (strings are atoms) *)
Fixpoint flatten (v : value) : list value :=
  match v with
  | VList l => (fix go (l : list value) : list value := match l with [] => [] | x :: xs => flatten x ++ go xs end) l
  | _ => [v]
  end.

Definition kv (k : string) (v : value) : value := VList [VStr k; v].

Fixpoint vlookup (k : string) (kvs : list value) : option value :=
  match kvs with
  | VList [VStr k'; v] :: r => if String.eqb k k' then Some v else vlookup k r
  | _ :: r => vlookup k r
  | [] => None
  end.

(* ------------------------------------------------------------------ settings *)
Inductive num := NI (z : Z) | NF (m e : Z).
Definition ostr := option string.

Definition v_of_num (n : num) : value := match n with NI z => VInt z | NF m e => VFloat m e end.
Definition num_of_v (v : value) : option num := match v with VInt z => Some (NI z) | VFloat m e => Some (NF m e) | _ => None end.
Definition v_of_ostr (o : ostr) : value := match o with None => VNone | Some s => VStr s end.
Definition ostr_of_v (v : value) : option ostr := match v with VNone => Some None | VStr s => Some (Some s) | _ => None end.
Definition v_of_oz (o : option Z) : value := match o with None => VNone | Some z => VInt z end.
Definition oz_of_v (v : value) : option (option Z) := match v with VNone => Some None | VInt z => Some (Some z) | _ => None end.

Fixpoint omap {A B} (f : A -> option B) (l : list A) : option (list B) :=
  match l with
  | [] => Some []
  | x :: r => match f x, omap f r with Some y, Some ys => Some (y :: ys) | _, _ => None end
  end.

Record lset := mkL { l_feat : Z; l_lam : list num; l_pen : list ostr; l_verbose : bool;
                     l_dtype : string; l_con : list ostr (* hidden by _exclude *) }.
Record sset := mkS { s_feat : Z; s_n : Z; s_order : Z; s_lam : list num; s_pen : list ostr; s_con : list ostr;
                     s_basis : string; s_dtype : string; s_by : option Z; s_knots : option (bool * list num);  (* edge_knots_ and _edge_knots_given *)
                     s_verbose : bool }.
(* a FactorTerm IS a SplineTerm (same attributes) plus `coding`; its _exclude hides dtype, spline_order, by, n_splines,
   basis, constraints from get_params / info *)
Inductive simple := SL (l : lset) | SS (s : sset) | SF (s : sset) (coding : string).
Inductive term := TI (verbose : bool) | TS (x : simple) | TTe (ms : list simple) (by_ : option Z) (verbose : bool).

Definition is_intercept (t : term) : bool := match t with TI _ => true | _ => false end.

(* ------------------------------------------------------------------ info (Term.info, TensorTerm.info) *)
Definition vnums (l : list num) := VList (map v_of_num l).
Definition vostrs (l : list ostr) := VList (map v_of_ostr l).

(* edge knots given by the user (SplineTerm(..., edge_knots=...), _edge_knots_given) *)
Definition keep_given (k : option (bool * list num)) : option (bool * list num) :=
  match k with Some (true, x) => Some (true, x) | _ => None end.
Definition given_knots (k : option (bool * list num)) : bool := match k with Some (true, _) => true | _ => false end.
(* SplineTerm.info (inherited by FactorTerm): the knots the user gave are part of the dictionary
   ("fix: a spline term's info dropped edge knots given by the user") *)
Definition knots_entry (k : option (bool * list num)) : list value :=
  match k with Some (true, x) => [VList [VStr "edge_knots"; VList (map v_of_num x)]] | _ => [] end.

Definition info_simple (x : simple) : value :=
  match x with
  | SL l => VList [kv "feature" (VInt (l_feat l)); kv "lam" (vnums (l_lam l)); kv "penalties" (vostrs (l_pen l));
                   kv "term_type" (VStr "linear_term"); kv "verbose" (VBool (l_verbose l))]
  | SS s => VList ([kv "basis" (VStr (s_basis s)); kv "by" (v_of_oz (s_by s)); kv "constraints" (vostrs (s_con s));
                    kv "dtype" (VStr (s_dtype s))] ++ knots_entry (s_knots s) ++
                   [kv "feature" (VInt (s_feat s)); kv "lam" (vnums (s_lam s));
                    kv "n_splines" (VInt (s_n s)); kv "penalties" (vostrs (s_pen s)); kv "spline_order" (VInt (s_order s));
                    kv "term_type" (VStr "spline_term"); kv "verbose" (VBool (s_verbose s))])
                  (* edge_knots_ itself is dropped (trailing underscore); knots not given by the user are data, not settings *)
  | SF s c => VList ([kv "coding" (VStr c)] ++ knots_entry (s_knots s) ++
                     [kv "feature" (VInt (s_feat s)); kv "lam" (vnums (s_lam s));
                      kv "penalties" (vostrs (s_pen s)); kv "term_type" (VStr "factor_term"); kv "verbose" (VBool (s_verbose s))])
  end.

Definition info (t : term) : value :=
  match t with
  | TI vb => VList [kv "term_type" (VStr "intercept_term"); kv "verbose" (VBool vb)]
  | TS x => info_simple x
  | TTe ms b vb => VList [kv "by" (v_of_oz b); kv "term_type" (VStr "tensor_term"); kv "terms" (VList (map info_simple ms));
                          kv "verbose" (VBool vb)]
  end.

(* ------------------------------------------------------------------ validation (_validate_arguments) *)
Definition PEN_KEYS := ["auto"; "derivative"; "l2"; "none"; "periodic"].
Definition CON_KEYS := ["convex"; "concave"; "monotonic_inc"; "monotonic_dec"; "none"].
Definition mem_str (s : string) (l : list string) : bool := existsb (String.eqb s) l.
Definition ostr_ok (keys : list string) (o : ostr) : bool := match o with None => true | Some s => mem_str s keys end.
Definition num_nonneg (n : num) : bool := match n with NI z => (0 <=? z)%Z | NF m _ => (0 <=? m)%Z end.
Definition bcast {A} (l : list A) (k : nat) : list A := match l with [x] => repeat x k | _ => l end.

Definition term_level_ok (dtype : string) (pen : list ostr) (lam : list num) (con : list ostr) : bool :=
  mem_str dtype ["numerical"; "categorical"] && forallb (ostr_ok PEN_KEYS) pen && forallb num_nonneg lam &&
  (List.length lam =? List.length pen)%nat && forallb (ostr_ok CON_KEYS) con.

Definition spline_level_ok (s : sset) : bool :=
  term_level_ok (s_dtype s) (s_pen s) (s_lam s) (s_con s) && mem_str (s_basis s) ["ps"; "cp"] &&
  (0 <=? s_n s)%Z && (0 <=? s_order s)%Z && (s_order s <? s_n s)%Z &&
  match s_by s with None => true | Some b => (0 <=? b)%Z end.

Definition norm_simple (x : simple) : simple :=
  match x with
  | SL l => SL (mkL (l_feat l) (bcast (l_lam l) (List.length (l_pen l))) (l_pen l) (l_verbose l) (l_dtype l) (l_con l))
  | SS s => SS (mkS (s_feat s) (s_n s) (s_order s) (bcast (s_lam s) (List.length (s_pen s))) (s_pen s) (s_con s) (s_basis s)
                    (s_dtype s) (s_by s) (s_knots s) (s_verbose s))
  | SF s c => SF (mkS (s_feat s) (s_n s) (s_order s) (bcast (s_lam s) (List.length (s_pen s))) (s_pen s) (s_con s) (s_basis s)
                      (s_dtype s) (s_by s) (s_knots s) (s_verbose s)) c
  end.

Definition valid_simple (x : simple) : bool :=
  match x with
  | SL l => term_level_ok (l_dtype l) (l_pen l) (l_lam l) (l_con l)
  | SS s => spline_level_ok s
  | SF s c => spline_level_ok s && mem_str c ["one-hot"; "dummy"]
  end.

Definition validate_simple (x : simple) : option simple :=
  let x' := norm_simple x in if valid_simple x' then Some x' else None.

Definition wf_simple (x : simple) : Prop := validate_simple x = Some x.
Definition by_ok (b : option Z) : bool := match b with None => true | Some z => (0 <=? z)%Z end.
(* a tensor term's own `by` is validated by the SplineTerm constructor it inherits: an int >= 0 or None *)
Definition wf_term (t : term) : Prop :=
  match t with TI _ => True | TS x => wf_simple x | TTe ms b _ => Forall wf_simple ms /\ by_ok b = true end.

(* ------------------------------------------------------------------ build_from_info *)
Definition vstr (v : value) : option string := match v with VStr s => Some s | _ => None end.
Definition vint (v : value) : option Z := match v with VInt z => Some z | _ => None end.
Definition vbool (v : value) : option bool := match v with VBool b => Some b | _ => None end.
Definition vlist (v : value) : option (list value) := match v with VList l => Some l | _ => None end.
Definition obind {A B} (o : option A) (f : A -> option B) : option B := match o with Some a => f a | None => None end.
Notation "x <- e ;; f" := (obind e (fun x => f)) (at level 61, e at next level, right associativity).

Definition vnum_list (v : value) : option (list num) := l <- vlist v ;; omap num_of_v l.
Definition vostr_list (v : value) : option (list ostr) := l <- vlist v ;; omap ostr_of_v l.

(* cls_ called with the dictionary as keyword arguments: the constructor receives exactly the keys of the dictionary; a key the constructor does not know is a
   TypeError, modelled as None (so is a missing `term_type`: not produced by `info`). *)
Definition build_simple (i : value) : option simple :=
  kvs <- vlist i ;; ty <- (t <- vlookup "term_type" kvs ;; vstr t) ;;
  if String.eqb ty "linear_term" then
    if negb (List.length kvs =? 5)%nat then None else
    f <- (v <- vlookup "feature" kvs ;; vint v) ;; lam <- (v <- vlookup "lam" kvs ;; vnum_list v) ;;
    pen <- (v <- vlookup "penalties" kvs ;; vostr_list v) ;; vb <- (v <- vlookup "verbose" kvs ;; vbool v) ;;
    validate_simple (SL (mkL f lam pen vb "numerical" [None]))
  else if String.eqb ty "spline_term" then
    kn <- (match vlookup "edge_knots" kvs with Some v => (k <- vnum_list v ;; Some (Some (true, k))) | None => Some None end) ;;
    if negb (List.length kvs =? (match kn with Some _ => 12 | None => 11 end))%nat then None else
    f <- (v <- vlookup "feature" kvs ;; vint v) ;; lam <- (v <- vlookup "lam" kvs ;; vnum_list v) ;;
    pen <- (v <- vlookup "penalties" kvs ;; vostr_list v) ;; vb <- (v <- vlookup "verbose" kvs ;; vbool v) ;;
    con <- (v <- vlookup "constraints" kvs ;; vostr_list v) ;; n <- (v <- vlookup "n_splines" kvs ;; vint v) ;;
    o <- (v <- vlookup "spline_order" kvs ;; vint v) ;; ba <- (v <- vlookup "basis" kvs ;; vstr v) ;;
    dt <- (v <- vlookup "dtype" kvs ;; vstr v) ;; b <- (v <- vlookup "by" kvs ;; oz_of_v v) ;;
    validate_simple (SS (mkS f n o lam pen con ba dt b kn vb))        (* edge_knots=None or the user's knots again *)
  else if String.eqb ty "factor_term" then
    if negb (List.length kvs =? 6)%nat then None else
    f <- (v <- vlookup "feature" kvs ;; vint v) ;; lam <- (v <- vlookup "lam" kvs ;; vnum_list v) ;;
    pen <- (v <- vlookup "penalties" kvs ;; vostr_list v) ;; vb <- (v <- vlookup "verbose" kvs ;; vbool v) ;;
    c <- (v <- vlookup "coding" kvs ;; vstr v) ;;
    validate_simple (SF (mkS f 20 0 lam pen [None] "ps" "categorical" None None vb) c)
  else None.

Definition build_from_info (i : value) : option term :=
  kvs <- vlist i ;; ty <- (t <- vlookup "term_type" kvs ;; vstr t) ;;
  if String.eqb ty "intercept_term" then
    if negb (List.length kvs =? 2)%nat then None else vb <- (v <- vlookup "verbose" kvs ;; vbool v) ;; Some (TI vb)
  else if String.eqb ty "tensor_term" then
    (* TensorTerm.build_from_info: cls applied to the rebuilt marginals and by=info.get('by'); `verbose` is not passed on *)
    ts <- (v <- vlookup "terms" kvs ;; vlist v) ;; ms <- omap build_simple ts ;;
    b <- (match vlookup "by" kvs with Some v => oz_of_v v | None => Some None end) ;;
    if (List.length ms <? 2)%nat then None else if by_ok b then Some (TTe ms b false) else None
  else x <- build_simple i ;; Some (TS x).

(* ------------------------------------------------------------------ compile (data-dependent state) *)
(* the data set enters through: dk f = gen_edge_knots of column f; ncat f = number of distinct values of column f *)
Definition compile_simple (dk : Z -> list num) (ncat : Z -> Z) (x : simple) : simple :=
  match x with
  | SL l => SL l                               (* edge_knots_ of a linear term does not enter columns/penalties/constraints *)
  | SS s => SS (mkS (s_feat s) (s_n s) (s_order s) (s_lam s) (s_pen s) (s_con s) (s_basis s) (s_dtype s) (s_by s)
                    (match s_knots s with Some (true, k) => Some (true, k) | _ => Some (false, dk (s_feat s)) end)
                    (* regenerated on every compile unless given by the user ("fix: a spline term kept the knots ...") *)
                    (s_verbose s))
  | SF s c => SF (mkS (s_feat s) (ncat (s_feat s)) (s_order s) (s_lam s) (s_pen s) (s_con s) (s_basis s) (s_dtype s) (s_by s)
                      (Some (false, dk (s_feat s))) (s_verbose s)) c                            (* always overwritten *)
  end.
Definition compile (dk : Z -> list num) (ncat : Z -> Z) (t : term) : term :=
  match t with TI v => TI v | TS x => TS (compile_simple dk ncat x) | TTe ms b v => TTe (map (compile_simple dk ncat) ms) b v end.

(* behav: the settings that determine model-matrix columns, penalties and constraints of the term once it is compiled on
   data: everything except `verbose`, except edge knots that were NOT given by the user and a factor term's n_splines (both
   are regenerated from the data by every compile), and for a linear term also except dtype / constraints: with one
   coefficient every constraint matrix is zero and the 'auto' penalty is l2 for both dtypes -- checked by the harness *)
Definition behav_simple (x : simple) : simple :=
  match x with
  | SL l => SL (mkL (l_feat l) (l_lam l) (l_pen l) false "numerical" [None])
  | SS s => SS (mkS (s_feat s) (s_n s) (s_order s) (s_lam s) (s_pen s) (s_con s) (s_basis s) (s_dtype s) (s_by s)
                    (keep_given (s_knots s)) false)
  | SF s c => SF (mkS (s_feat s) 20 (s_order s) (s_lam s) (s_pen s) (s_con s) (s_basis s) (s_dtype s) (s_by s)
                      (keep_given (s_knots s)) false) c
  end.
Definition behav (t : term) : term :=
  match t with TI _ => TI false | TS x => TS (behav_simple x) | TTe ms b _ => TTe (map behav_simple ms) b false end.

(* guards of the info round trip *)
(* hidden attributes of a factor term at the values its constructor gives them (n_splines is overwritten by compile) *)
Definition hidden_default_simple (x : simple) : bool :=
  match x with
  | SL _ => true | SS _ => true
  | SF s _ => Z.eqb (s_order s) 0 && String.eqb (s_basis s) "ps" && String.eqb (s_dtype s) "categorical" &&
              match s_by s with None => true | _ => false end &&
              match s_con s with [None] => true | _ => false end &&
              negb (given_knots (s_knots s))        (* the FactorTerm constructor takes no edge_knots: never given *)
  end.
Definition roundtrip_guard (t : term) : bool :=
  match t with
  | TI _ => true
  | TS x => hidden_default_simple x
  | TTe ms _ _ => forallb hidden_default_simple ms && (2 <=? List.length ms)%nat
  end.

(* ------------------------------------------------------------------ TermList construction *)
Section Dedup.
  Context {A K : Type} (key : A -> K) (keqb : K -> K -> bool).
  (* TermList.__init__: walk the flattened arguments, keep a term iff its key was not seen before *)
  Fixpoint dedup_acc (seen : list K) (l : list A) : list A :=
    match l with
    | [] => []
    | x :: r => if existsb (keqb (key x)) seen then dedup_acc seen r else x :: dedup_acc (key x :: seen) r
    end.
  Definition dedup (l : list A) : list A := dedup_acc [] l.
End Dedup.

Definition termlist (l : list term) : list term := dedup info value_eqb l.

Inductive expr := ELeaf (t : term) | EAdd (a b : expr) | EList (args : list expr).   (* t | a + b | TermList( *args ) *)
Fixpoint eval (e : expr) : list term :=
  match e with
  | ELeaf t => [t]                                   (* a bare Term; wrapped on first use *)
  | EAdd a b => termlist (eval a ++ eval b)
  | EList args => termlist ((fix go (l : list expr) := match l with [] => [] | x :: r => eval x ++ go r end) args)
  end.

(* ------------------------------------------------------------------ plural attributes (MetaTermMixin) *)
Inductive status := Ok | EVal | EAttr | EType | EIndex | Unmod.   (* Unmod: outside the modelled fragment *)

Definition attr_get (name : string) (x : simple) : option value :=     (* None = AttributeError *)
  match x with
  | SL l =>
      if String.eqb name "lam" then Some (vnums (l_lam l)) else
      if String.eqb name "penalties" then Some (vostrs (l_pen l)) else
      if String.eqb name "constraints" then Some (vostrs (l_con l)) else
      if String.eqb name "dtype" then Some (VStr (l_dtype l)) else
      if String.eqb name "feature" then Some (VInt (l_feat l)) else None
  | SS s | SF s _ =>
      if String.eqb name "lam" then Some (vnums (s_lam s)) else
      if String.eqb name "penalties" then Some (vostrs (s_pen s)) else
      if String.eqb name "constraints" then Some (vostrs (s_con s)) else
      if String.eqb name "dtype" then Some (VStr (s_dtype s)) else
      if String.eqb name "feature" then Some (VInt (s_feat s)) else
      if String.eqb name "n_splines" then Some (VInt (s_n s)) else
      if String.eqb name "spline_order" then Some (VInt (s_order s)) else
      if String.eqb name "basis" then Some (VStr (s_basis s)) else None
  end.

Definition list_or_single {B} (f : value -> option B) (v : value) : option (list B) :=
  match v with VList l => omap f l | _ => match f v with Some b => Some [b] | None => None end end.

Definition upd_s (s : sset) (name : string) (v : value) : option sset :=
  if String.eqb name "lam" then l <- list_or_single num_of_v v ;;
    Some (mkS (s_feat s) (s_n s) (s_order s) l (s_pen s) (s_con s) (s_basis s) (s_dtype s) (s_by s) (s_knots s) (s_verbose s)) else
  if String.eqb name "penalties" then l <- list_or_single ostr_of_v v ;;
    Some (mkS (s_feat s) (s_n s) (s_order s) (s_lam s) l (s_con s) (s_basis s) (s_dtype s) (s_by s) (s_knots s) (s_verbose s)) else
  if String.eqb name "constraints" then l <- list_or_single ostr_of_v v ;;
    Some (mkS (s_feat s) (s_n s) (s_order s) (s_lam s) (s_pen s) l (s_basis s) (s_dtype s) (s_by s) (s_knots s) (s_verbose s)) else
  if String.eqb name "dtype" then d <- vstr v ;;
    Some (mkS (s_feat s) (s_n s) (s_order s) (s_lam s) (s_pen s) (s_con s) (s_basis s) d (s_by s) (s_knots s) (s_verbose s)) else
  if String.eqb name "feature" then f <- vint v ;;
    Some (mkS f (s_n s) (s_order s) (s_lam s) (s_pen s) (s_con s) (s_basis s) (s_dtype s) (s_by s) (s_knots s) (s_verbose s)) else
  if String.eqb name "n_splines" then n <- vint v ;;
    Some (mkS (s_feat s) n (s_order s) (s_lam s) (s_pen s) (s_con s) (s_basis s) (s_dtype s) (s_by s) (s_knots s) (s_verbose s)) else
  if String.eqb name "spline_order" then o <- vint v ;;
    Some (mkS (s_feat s) (s_n s) o (s_lam s) (s_pen s) (s_con s) (s_basis s) (s_dtype s) (s_by s) (s_knots s) (s_verbose s)) else
  if String.eqb name "basis" then b <- vstr v ;;
    Some (mkS (s_feat s) (s_n s) (s_order s) (s_lam s) (s_pen s) (s_con s) b (s_dtype s) (s_by s) (s_knots s) (s_verbose s)) else
  None.

Definition upd_l (l : lset) (name : string) (v : value) : option lset :=
  if String.eqb name "lam" then x <- list_or_single num_of_v v ;; Some (mkL (l_feat l) x (l_pen l) (l_verbose l) (l_dtype l) (l_con l)) else
  if String.eqb name "penalties" then x <- list_or_single ostr_of_v v ;; Some (mkL (l_feat l) (l_lam l) x (l_verbose l) (l_dtype l) (l_con l)) else
  if String.eqb name "constraints" then x <- list_or_single ostr_of_v v ;; Some (mkL (l_feat l) (l_lam l) (l_pen l) (l_verbose l) (l_dtype l) x) else
  if String.eqb name "dtype" then d <- vstr v ;; Some (mkL (l_feat l) (l_lam l) (l_pen l) (l_verbose l) d (l_con l)) else
  if String.eqb name "feature" then f <- vint v ;; Some (mkL f (l_lam l) (l_pen l) (l_verbose l) (l_dtype l) (l_con l)) else
  None.

(* setattr(term, name, v) ; term._validate_arguments() *)
Definition attr_set (name : string) (x : simple) (v : value) : status * simple :=
  let upd := match x with
             | SL l => match upd_l l name v with Some l' => Some (SL l') | None => None end
             | SS s => match upd_s s name v with Some s' => Some (SS s') | None => None end
             | SF s c => match upd_s s name v with Some s' => Some (SF s' c) | None => None end
             end in
  match upd with
  | None => (Unmod, x)          (* a value of a type the harness never generates for this attribute *)
  | Some x1 => match validate_simple x1 with Some x2 => (Ok, x2) | None => (EVal, x1) end
  end.

(* np.atleast_1d(v).size for the shapes that occur: atom, list of atoms, list of equally long lists of atoms;
   a ragged list makes NumPy (>= 1.24) raise ValueError: None *)
Definition np_size (v : value) : option nat :=
  match v with
  | VList l =>
      if forallb is_atom l then Some (List.length l) else
      match l with
      | VList l0 :: _ =>
          if forallb (fun x => match x with VList lx => forallb is_atom lx && (List.length lx =? List.length l0)%nat | _ => false end) l
          then Some (List.length l * List.length l0)%nat else None
      | _ => None
      end
  | _ => Some 1%nat
  end.

Definition wrap (n : nat) (vals : list value) : value :=
  if (n =? 1)%nat then hd VNone vals else VList vals.

Section Dist.
  Context {A : Type} (skip : A -> bool) (size_of : A -> status + nat) (set1 : A -> value -> status * A).
  (* `for term in terms[::-1]: n = ...; vals = [value.pop() for _ in range(n)][::-1]; setattr(...)`.
     l is the REVERSED term list, rs the REVERSED value stack (pop = take from the front). *)
  Fixpoint dist_rev (l : list A) (rs : list value) : status * list A :=
    match l with
    | [] => (Ok, [])
    | t :: l' =>
        if skip t then let (st, r) := dist_rev l' rs in (st, t :: r) else
        match size_of t with
        | inl e => (e, t :: l')
        | inr n =>
            if (List.length rs <? n)%nat then (EIndex, t :: l') else
            match set1 t (wrap n (rev (firstn n rs))) with
            | (Ok, t') => let (st, r) := dist_rev l' (skipn n rs) in (st, t' :: r)
            | (e, t') => (e, t' :: l')
            end
        end
    end.
  Definition dist (l : list A) (vs : list value) : status * list A :=
    let (st, r) := dist_rev (rev l) (rev vs) in (st, rev r).

  (* MetaTermMixin.__setattr__ for a plural name, given the flattened size of the current values *)
  Definition meta_set (size : nat) (v : value) (l : list A) : status * list A :=
    match v with
    | VList _ => let f := flatten v in if (List.length f =? size)%nat then dist l f else (EVal, l)
    | _ => dist l (repeat v size)
    end.
End Dist.

Definition get_or_none (name : string) (x : simple) : value := match attr_get name x with Some v => v | None => VNone end.
Definition margs_get (name : string) (ms : list simple) : value := VList (map (get_or_none name) ms).
Definition term_get (name : string) (t : term) : value :=
  match t with TI _ => VNone | TS x => get_or_none name x | TTe ms _ _ => margs_get name ms end.
(* MetaTermMixin.__getattr__ on a TermList *)
Definition tl_get (name : string) (ts : list term) : value :=
  VList (map (term_get name) (filter (fun t => negb (is_intercept t)) ts)).

Definition simple_size (name : string) (x : simple) : status + nat :=
  match attr_get name x with None => inl EAttr | Some v => match np_size v with Some n => inr n | None => inl EVal end end.
Definition margs_set (name : string) (v : value) (ms : list simple) : status * list simple :=
  meta_set (fun _ => false) (simple_size name) (attr_set name) (List.length (flatten (margs_get name ms))) v ms.

Definition term_size (name : string) (t : term) : status + nat :=
  match t with
  | TI _ => inr 0%nat
  | TS x => simple_size name x
  | TTe ms _ _ => match np_size (margs_get name ms) with Some n => inr n | None => inl EVal end
  end.
Definition term_set (name : string) (t : term) (v : value) : status * term :=
  match t with
  | TI vb => (Ok, TI vb)
  | TS x => let (st, x') := attr_set name x v in (st, TS x')
  | TTe ms b vb => let (st, ms') := margs_set name v ms in (st, TTe ms' b vb)
  end.
Definition tl_size (name : string) (ts : list term) : nat := List.length (flatten (tl_get name ts)).
Definition tl_set (name : string) (v : value) (ts : list term) : status * list term :=
  meta_set is_intercept (term_size name) (term_set name) (tl_size name ts) v ts.

Definition PLURAL := ["feature"; "dtype"; "fit_linear"; "fit_splines"; "lam"; "n_splines"; "spline_order"; "constraints";
                      "penalties"; "basis"; "edge_knots_"].
Definition MODELLED_PLURAL := ["feature"; "dtype"; "lam"; "n_splines"; "spline_order"; "constraints"; "penalties"; "basis"].

(* ------------------------------------------------------------------ GAM level *)
(* a model before / after fit as far as term plumbing is concerned: the term list (None = 'auto' / no Term objects yet) and
   the plural keyword arguments of the constructor that still sit in the instance dictionary *)
Record gam := mkG { g_terms : option (list term); g_pending : list (string * value); g_fit_intercept : bool }.

Fixpoint alookup {B} (k : string) (l : list (string * B)) : option B :=
  match l with [] => None | (k', v) :: r => if String.eqb k k' then Some v else alookup k r end.
Fixpoint aset {B} (k : string) (v : B) (l : list (string * B)) : list (string * B) :=
  match l with [] => [(k, v)] | (k', v') :: r => if String.eqb k k' then (k', v) :: r else (k', v') :: aset k v r end.

Definition gam_has_terms (g : gam) : bool := match g_terms g with Some (_ :: _) => true | _ => false end.

(* `gam.<name> = v` for a plural name *)
(* the expected length is computed from `getattr(self, name)`: a pending constructor keyword shadows the terms here too *)
Definition gam_size (name : string) (g : gam) (ts : list term) : nat :=
  match alookup name (g_pending g) with
  | Some pv => if is_list pv then List.length (flatten pv) else 1%nat
  | None => tl_size name ts
  end.
Definition gam_set (name : string) (v : value) (g : gam) : status * gam :=
  match g_terms g with
  | Some (t :: ts) => let (st, ts') := meta_set is_intercept (term_size name) (term_set name) (gam_size name g (t :: ts)) v (t :: ts) in
                      (st, mkG (Some ts') (g_pending g) (g_fit_intercept g))
  | _ => (Ok, mkG (g_terms g) (aset name v (g_pending g)) (g_fit_intercept g))
  end.
(* `gam.<name>`: the instance dictionary wins; __getattr__ (collection from the terms) is only reached when it has no entry *)
Definition gam_get (name : string) (g : gam) : option value :=
  match alookup name (g_pending g) with
  | Some v => Some v
  | None => match g_terms g with Some (t :: ts) => Some (tl_get name (t :: ts)) | _ => None end
  end.

(* gam.set_params(name=v, force=force) for a plural name *)
Definition gam_set_params (name : string) (v : value) (force : bool) (g : gam) : status * gam :=
  (* plural names carry no underscore; hasattr(gam, name) holds through the instance dictionary or through __getattr__ *)
  if mem_str name (map fst (g_pending g)) || force || gam_has_terms g then gam_set name v g else (Ok, g).

(* _validate_data_dep_params: wrap (de-duplicate), add the intercept, hand the pending keyword arguments over in dictionary
   order, delete them.  `auto` : the default term list for the data (one spline per feature). *)
Fixpoint handover (kvs : list (string * value)) (ts : list term) : status * list term :=
  match kvs with
  | [] => (Ok, ts)
  | (k, v) :: r => match tl_set k v ts with (Ok, ts') => handover r ts' | (e, ts') => (e, ts') end
  end.
Definition gam_fit_terms (auto : list term) (g : gam) : status * gam :=
  let ts0 := termlist (match g_terms g with Some ts => ts | None => auto end) in
  let ts1 := if g_fit_intercept g then termlist (ts0 ++ [TI false]) else ts0 in
  match ts1 with
  | [] => (EVal, g)
  | _ => let (st, ts2) := handover (g_pending g) ts1 in
         (st, mkG (Some ts2) (match st with Ok => [] | _ => g_pending g end) (g_fit_intercept g))
  end.

(* ------------------------------------------------------------------ get_params / set_params (core.py) *)
Record obj := mkO { o_attrs : list (string * value);     (* instance __dict__, in order *)
                    o_exclude : list string;
                    o_class : list string }.             (* names found on the class (methods, properties, class attributes) *)

Definition first_char (s : string) : option Ascii.ascii := match s with EmptyString => None | String c _ => Some c end.
Fixpoint last_char (s : string) : option Ascii.ascii :=
  match s with EmptyString => None | String c EmptyString => Some c | String _ r => last_char r end.
Definition is_us (o : option Ascii.ascii) : bool := match o with Some c => Ascii.eqb c "_"%char | None => false end.
(* k[0] != '_' and k[-1] != '_'  (an empty name cannot be a keyword) *)
Definition no_edge_us (k : string) : bool := negb (is_us (first_char k)) && negb (is_us (last_char k)).
Definition public (o : obj) (k : string) : bool := no_edge_us k && negb (mem_str k (o_exclude o)).

Definition get_params (deep : bool) (o : obj) : list (string * value) :=
  if deep then o_attrs o else filter (fun p => public o (fst p)) (o_attrs o).
Definition has_attr (o : obj) (k : string) : bool := mem_str k (map fst (o_attrs o)) || mem_str k (o_class o).
(* parameter == parameter.strip('_') *)
Definition accepts (names : list string) (force : bool) (o : obj) (k : string) : bool :=
  mem_str k names || force || (has_attr o k && no_edge_us k).
Definition set_param (names : list string) (force : bool) (o : obj) (p : string * value) : obj :=
  if accepts names force o (fst p) then mkO (aset (fst p) (snd p) (o_attrs o)) (o_exclude o) (o_class o) else o.
(* param_names is computed once, before the loop *)
Definition set_params (deep force : bool) (o : obj) (ps : list (string * value)) : obj :=
  fold_left (set_param (map fst (get_params deep o)) force) ps o.
