(* Props/C08.v -- property theorems (formula side): the statistics formulas GENERATED from pygam/pygam.py
   (coq/Gen/Stats.v) equal their documented definitions.  The generator also checks, by shape, which expression feeds
   which entry of statistics_ and the Wald p-value recipe (a change there is a broken translation obligation). *)
From Coq Require Import Reals Lra List.
From PG Require Import Base.Ops Gen.Stats Proofs.C08 Proofs.C08Cor.
Import ListNotations.
Open Scope R_scope.

Theorem C08_AIC : forall known ll edof, Gen_AIC known ll edof = -2 * ll + 2 * edof + (if known then 0 else 2).
Proof. exact AIC_doc. Qed.
Print Assumptions C08_AIC.
Theorem C08_AICc : forall AIC edof n, Gen_AICc AIC edof n = AIC + 2 * (edof + 1) * (edof + 2) / (n - edof - 2).
Proof. exact AICc_doc. Qed.
Print Assumptions C08_AICc.
Theorem C08_GCV : forall n dev edof, n - Gen_gamma_default * edof <> 0 ->
  Gen_gamma_default = 14 / 10 /\ Gen_GCV Gen_gamma_default n dev edof = n * dev / (n - 14 / 10 * edof) ^ 2.
Proof. exact GCV_doc. Qed.
Print Assumptions C08_GCV.
Theorem C08_UBRE : forall n dev edof scale, n <> 0 ->
  Gen_add_scale_default = true /\
  Gen_UBRE Gen_add_scale_default Gen_gamma_default n dev edof scale = dev / n + 2 * (14 / 10) * edof * scale / n /\
  Gen_UBRE false Gen_gamma_default n dev edof scale = dev / n - scale + 2 * (14 / 10) * edof * scale / n.
Proof. exact UBRE_doc. Qed.
Print Assumptions C08_UBRE.
Theorem C08_pseudo_r2 : forall full_d null_d full_ll null_ll edof,
  Gen_explained_deviance full_d null_d = 1 - full_d / null_d /\
  Gen_McFadden full_ll null_ll = 1 - full_ll / null_ll /\
  Gen_McFadden_adj full_ll null_ll edof = 1 - (full_ll - edof) / null_ll.
Proof. exact r2_doc. Qed.
Print Assumptions C08_pseudo_r2.
Theorem C08_deviance_residuals : forall y mu dev,
  (0 <= dev -> y <> mu -> Gen_deviance_residual y mu dev * Gen_deviance_residual y mu dev = dev) /\
  (0 < dev -> (mu < y -> 0 < Gen_deviance_residual y mu dev) /\ (y < mu -> Gen_deviance_residual y mu dev < 0) /\
              (y = mu -> Gen_deviance_residual y mu dev = 0)).
Proof. intros; split; [apply dev_resid_sq | apply dev_resid_sign]. Qed.
Print Assumptions C08_deviance_residuals.
Theorem C08_accuracy : forall y mu, (y = 0 \/ y = 1) ->
  (Gen_accuracy_hit y mu = true <-> ((1 / 2 < mu /\ y = 1) \/ (mu <= 1 / 2 /\ y = 0))).
Proof. exact accuracy_hit. Qed.
Print Assumptions C08_accuracy.
(* Wald p-values: 1 - cdf of chi2_rank at the score when the scale is known, of F_(rank, n - edof) at score / rank otherwise *)
Theorem C08_wald : forall cdf_chi2 cdf_f score rank n edof,
  Gen_wald_known cdf_chi2 score rank = 1 - cdf_chi2 score rank /\
  Gen_wald_unknown cdf_f score rank n edof = 1 - cdf_f (score / rank) rank (n - edof).
Proof. intros; split; reflexivity. Qed.
Print Assumptions C08_wald.

(* consequences a reader of the summary relies on (Proofs/C08Cor.v) *)
Theorem C08_information_criteria_order : forall AIC ll l2 edof n,
  (0 <= edof -> edof + 2 < n -> AIC <= Gen_AICc AIC edof n) /\
  Gen_AIC false ll edof = Gen_AIC true ll edof + 2 /\
  (forall known, ll < l2 -> Gen_AIC known l2 edof < Gen_AIC known ll edof).
Proof. intros. split; [apply AICc_ge_AIC|split; [apply AIC_scale_charge|intros; apply AIC_decreasing_in_ll; assumption]]. Qed.
Print Assumptions C08_information_criteria_order.
Theorem C08_ranges : forall n dev edof full_d null_d,
  (0 < n -> 0 <= dev -> n - Gen_gamma_default * edof <> 0 -> 0 <= Gen_GCV Gen_gamma_default n dev edof) /\
  (0 < null_d ->
     (0 <= full_d -> Gen_explained_deviance full_d null_d <= 1) /\
     (Gen_explained_deviance full_d null_d = 1 <-> full_d = 0) /\
     (0 <= Gen_explained_deviance full_d null_d <-> full_d <= null_d)).
Proof. intros. split; [apply GCV_nonneg|apply explained_deviance_range]. Qed.
Print Assumptions C08_ranges.
(* rows (y, mu, unit deviance): the squared deviance residuals of a data set add up to its deviance *)
Theorem C08_residuals_sum_to_deviance : forall rows, List.Forall row_ok rows -> sum_sq_resid rows = sum_dev rows.
Proof. exact resid_squares_sum_to_deviance. Qed.
Print Assumptions C08_residuals_sum_to_deviance.
Example C08_rows_example : List.Forall row_ok [(1, 3, 2); (2, 2, 0); (5, 1, 7)]%R.
Proof. exact rows_ok_example. Qed.
