(* Props/C08Alg.v -- property theorems (MathComp side): edof and covariance as the code computes them
   (Gen_edof, Gen_cov generated from _estimate_model_statistics) under the LAPACK contracts. *)
From mathcomp Require Import all_ssreflect all_algebra.
From PG Require Import Alg.Solve Alg.Order Alg.Edof Gen.Solver Proofs.C01Alg.
Set Implicit Arguments. Unset Strict Implicit. Unset Printing Implicit Defensive.
Import GRing.Theory Num.Theory.
Local Open Scope ring_scope.

(* edof = ||U1||_F^2 is the trace of the influence matrix WB (WB'WB + E'E)^-1 WB' = WB B, for n<m, n=m, n>m *)
Theorem C08_edof_is_trace : forall (F : fieldType) (n k m : nat)
  (WB : 'M[F]_(n,m)) (Q : 'M[F]_(n,k)) (R : 'M[F]_(k,m))
  (U1 : 'M[F]_(k, Gen_c k m)) (D V : 'M[F]_m) (Dinv : 'M[F]_(m, Gen_c k m)),
  WB = Q *m R -> Q^T *m Q = 1%:M -> R = U1 *m D *m V^T -> V^T *m V = 1%:M -> D *m Dinv = 1%:M ->
  Gen_edof U1 = \tr (WB *m Gen_Bmat V Dinv U1 Q).
Proof. move=> F n k m WB Q R U1 D V Dinv HQR HQ HR HV HD. exact: (@edof_is_trace_of_influence F n k m WB Q R U1 D V Dinv HQR HQ HR HV HD). Qed.
Print Assumptions C08_edof_is_trace.

(* 0 <= edof <= min(rows of R, m) <= min(n, m); strictly positive unless WB = 0 *)
Theorem C08_edof_bounds : forall (F : realFieldType) (k m c : nat)
  (U1 : 'M[F]_(k, Gen_c k m)) (U2 : 'M[F]_(m, Gen_c k m)) (U1c : 'M[F]_(k,c)),
  U1^T *m U1 + U2^T *m U2 = 1%:M -> U1 *m U1^T + U1c *m U1c^T = 1%:M ->
  0 <= Gen_edof U1 /\ Gen_edof U1 <= m%:R /\ Gen_edof U1 <= k%:R /\ (U1 != 0 -> 0 < Gen_edof U1).
Proof.
move=> F k m c U1 U2 U1c HU HUr; rewrite /Gen_edof; split; first exact: edof_ge0.
split; first exact: (edof_le_m HU).
split; first exact: (edof_le_k HUr).
exact: edof_gt0.
Qed.
Print Assumptions C08_edof_bounds.

(* covariance = scale * B B' is the sandwich scale * M^-1 (WB'WB) M^-1, M = WB'WB + E'E (stated without inverses) *)
Theorem C08_cov_sandwich : forall (F : fieldType) (n k m : nat)
  (WB : 'M[F]_(n,m)) (Q : 'M[F]_(n,k)) (R : 'M[F]_(k,m)) (E : 'M[F]_(m,m))
  (U1 : 'M[F]_(k, Gen_c k m)) (U2 : 'M[F]_(m, Gen_c k m)) (D V : 'M[F]_m) (Dinv : 'M[F]_(m, Gen_c k m)),
  WB = Q *m R -> Q^T *m Q = 1%:M -> R = U1 *m D *m V^T -> E = U2 *m D *m V^T ->
  U1^T *m U1 + U2^T *m U2 = 1%:M -> V^T *m V = 1%:M -> D *m Dinv = 1%:M -> D^T = D ->
  forall scale : F,
  (WB^T *m WB + E^T *m E) *m Gen_cov scale (Gen_Bmat V Dinv U1 Q) *m (WB^T *m WB + E^T *m E) = scale *: (WB^T *m WB).
Proof. move=> F n k m WB Q R E U1 U2 D V Dinv HQR HQ HR HE HU HV HD HDs scale. exact: (cov_is_sandwich HQR HQ HR HE HU HV HD HDs). Qed.
Print Assumptions C08_cov_sandwich.
