(* Props/C14.v -- property theorems only.  Each is closed by `exact <lemma>` and followed by Print Assumptions.
   Model: Model/Terms.v (term AST with every attribute, info, build_from_info, TermList construction, MetaTermMixin plural
   get/set, GAM hand-over, get_params/set_params), tied to pygam/terms.py, core.py, pygam.py by harness/props/c14.py. *)
From Coq Require Import List ZArith String Bool.
From PG Require Import Model.Terms Model.C14Pen Proofs.C14Dedup Proofs.C14Dist Proofs.C14Plural Proofs.C14Info Proofs.C14Pen.
Import ListNotations.
Open Scope string_scope.
Open Scope list_scope.
Ltac wf := repeat first [apply Forall_nil | apply Forall_cons | reflexivity | split | progress simpl].

(* (a + b) + c and a + (b + c) are the same term list, for all term expressions and for all lists of terms *)
Theorem C14_assoc : (forall a b c : expr, eval (EAdd (EAdd a b) c) = eval (EAdd a (EAdd b c))) /\
                    (forall a b c : list term, termlist (termlist (a ++ b) ++ c) = termlist (a ++ termlist (b ++ c))) /\
                    (forall a b c : expr, eval (EList [a; b; c]) = eval (EAdd (EAdd a b) c)).
Proof. exact (conj eval_assoc (conj termlist_assoc eval_list3)). Qed.
Print Assumptions C14_assoc.

(* order preserved, exact duplicates (equal info) dropped keeping the first: appending t to l appends it to the result iff no
   term of l has the same info; the result has pairwise distinct infos, exactly the infos of the input; a list without
   duplicates is unchanged; construction is idempotent *)
Theorem C14_order_dedup :
  (forall l t, termlist (l ++ [t]) = if existsb (value_eqb (info t)) (map info l) then termlist l else termlist l ++ [t]) /\
  termlist [] = [] /\
  (forall l, NoDup (map info (termlist l))) /\
  (forall l k, In k (map info (termlist l)) <-> In k (map info l)) /\
  (forall l, NoDup (map info l) -> termlist l = l) /\
  (forall l, termlist (termlist l) = termlist l).
Proof. exact (conj termlist_snoc (conj eq_refl (conj termlist_NoDup (conj termlist_keys (conj termlist_nodup_id termlist_idem))))). Qed.
Print Assumptions C14_order_dedup.

(* a plural assignment that is accepted reads back as set (a scalar reads back broadcast), on every well-formed term list,
   for every modelled plural name; and all terms stay well-formed, so this holds after any sequence of assignments.
   _partial: the assignment is NOT accepted for every valid value of the right length (see C14_distribute_total_refuted);
   attribute names fit_linear / fit_splines / edge_knots_ and callables as penalties are outside the model. *)
Theorem C14_distribute_roundtrip_partial :
  (forall name v ts ts', Forall wf_term ts -> tl_set name v ts = (Ok, ts') ->
     flatten (tl_get name ts') = (if is_list v then flatten v else repeat v (tl_size name ts)) /\ Forall wf_term ts') /\
  (forall ops name v ts ts', Forall wf_term ts -> tl_sets (ops ++ [(name, v)]) ts = Some ts' ->
     exists ts0, tl_sets ops ts = Some ts0 /\
                 flatten (tl_get name ts') = (if is_list v then flatten v else repeat v (tl_size name ts0))).
Proof. exact (conj tl_set_readback tl_sets_last_readback). Qed.
Print Assumptions C14_distribute_roundtrip_partial.

Example C14_distribute_roundtrip_nonvacuous :
  let ts := [TS (SS (mkS 0 6 3 [NI 1; NI 2] [Some "l2"; Some "auto"] [None] "ps" "numerical" None None false)); TI false;
             TTe [SS w_spline; SL (mkL 1 [NI 1] [Some "l2"] false "numerical" [None])] None false] in
  Forall wf_term ts /\ exists ts', tl_set "lam" (VList [VInt 5; VList [VInt 6; VInt 7; VInt 8]]) ts = (Ok, ts') /\
                                   tl_get "lam" ts' = VList [VList [VInt 5; VInt 6]; VList [VList [VInt 7]; VList [VInt 8]]].
Proof. cbv zeta. split; [wf | eexists; split; vm_compute; reflexivity]. Qed.

Theorem C14_scalar_broadcast : forall name v ts, is_list v = false ->
  tl_set name v ts = tl_set name (VList (repeat v (tl_size name ts))) ts.
Proof. exact tl_set_scalar_broadcast. Qed.
Print Assumptions C14_scalar_broadcast.

(* a wrong length is rejected with ValueError and nothing is changed *)
Theorem C14_wrong_length_rejected : forall name l ts, List.length (flatten (VList l)) <> tl_size name ts ->
  tl_set name (VList l) ts = (EVal, ts).
Proof. exact tl_set_wrong_length. Qed.
Print Assumptions C14_wrong_length_rejected.

(* "distributed ... a scalar is broadcast" at full strength would need the assignment to succeed on valid values of the right
   length.  False of the code: n_splines / spline_order / basis on a list containing a LinearTerm raise AttributeError ... *)
Theorem C14_distribute_total_refuted :
  exists ts, Forall wf_term ts /\ tl_size "n_splines" ts = 2%nat /\
             fst (tl_set "n_splines" (VList [VInt 9; VInt 9]) ts) = EAttr /\ fst (tl_set "n_splines" (VInt 9) ts) = EAttr.
Proof. exact (ex_intro _ _ w_plural_linear_attr_error). Qed.
Print Assumptions C14_distribute_total_refuted.

(* ... and a tensor term whose marginals have different numbers of penalties makes np.atleast_1d raise ValueError *)
Theorem C14_distribute_ragged_refuted :
  exists ts, Forall wf_term ts /\ tl_size "lam" ts = 3%nat /\ fst (tl_set "lam" (VList [VInt 1; VInt 2; VInt 3]) ts) = EVal.
Proof. exact (ex_intro _ _ w_plural_ragged_tensor). Qed.
Print Assumptions C14_distribute_ragged_refuted.

(* model level: an accepted assignment reads back as set PROVIDED no constructor keyword of that name is still pending *)
Theorem C14_model_roundtrip_partial : forall name v g st g',
  match g_terms g with Some ts => Forall wf_term ts | None => True end ->
  gam_has_terms g = true -> alookup name (g_pending g) = None ->
  gam_set name v g = (st, g') -> st = Ok ->
  exists ts r, g_terms g = Some ts /\ gam_get name g' = Some r /\
               flatten r = (if is_list v then flatten v else repeat v (tl_size name ts)).
Proof. exact gam_set_readback_partial. Qed.
Print Assumptions C14_model_roundtrip_partial.

(* without the proviso it is false: GAM(s(0)+s(1), lam=[1,2]); gam.lam = [3,4]; gam.lam reads [1,2] and fit puts [1,2] back *)
Theorem C14_model_roundtrip_refuted :
  exists g g', gam_set "lam" (VList [VInt 3; VInt 4]) g = (Ok, g') /\ gam_get "lam" g' = Some (VList [VInt 1; VInt 2]) /\
               exists g'', gam_fit_terms [] g' = (Ok, g'') /\ gam_get "lam" g'' = Some (VList [VList [VInt 1]; VList [VInt 2]]).
Proof. exact (ex_intro _ w_gam w_gam_shadow). Qed.
Print Assumptions C14_model_roundtrip_refuted.

(* set_params(lam=5) on a model with terms='auto' and no lam keyword is silently dropped *)
Theorem C14_model_set_params_refuted :
  exists g, gam_set_params "lam" (VInt 5) false g = (Ok, g) /\ gam_get "lam" g = None.
Proof. exact (ex_intro _ _ w_gam_set_params_dropped). Qed.
Print Assumptions C14_model_set_params_refuted.

(* build_from_info (info t) has the settings that determine columns / penalties / constraints of t -- also after compiling both
   on the same data.  Edge knots given by the user are part of info and come back as given ("fix: a spline term's info dropped
   edge knots given by the user"); knots left by an earlier fit are regenerated by every compile ("fix: a spline term kept the
   knots of the first data set it was compiled on") and are not part of `behav`, nor is a factor term's n_splines; a tensor
   term's `by` is carried over ("fix: a tensor term rebuilt from its info lost its by-variable").  _partial: the only guard
   left is that the attributes a FactorTerm hides (spline_order, basis, dtype, by, constraints) are at their constructor
   values -- see C14_info_roundtrip_refuted_hidden_factor; a tensor term's `verbose` flag is not carried over. *)
Theorem C14_info_roundtrip_partial :
  (forall t, wf_term t -> roundtrip_guard t = true -> exists t', build_from_info (info t) = Some t' /\ behav t' = behav t) /\
  (forall dk nc t, wf_term t -> roundtrip_guard t = true ->
     exists t', build_from_info (info t) = Some t' /\ behav (compile dk nc t') = behav (compile dk nc t)).
Proof. exact (conj info_roundtrip_guarded info_roundtrip_compiled_guarded). Qed.
Print Assumptions C14_info_roundtrip_partial.

Example C14_info_roundtrip_nonvacuous :
  let t := TTe [SS (mkS 0 6 3 [NF 3 (-2)] [Some "auto"] [None] "ps" "numerical" None (Some (true, [NI 0; NI 1])) false);
                SF (mkS 1 4 0 [NI 2] [Some "l2"] [None] "ps" "categorical" None (Some (false, [NI 0; NI 3])) true) "dummy"] (Some 2%Z) true in
  wf_term t /\ roundtrip_guard t = true.
Proof. cbv zeta. split; [wf | reflexivity]. Qed.

(* the former counterexample (user-given edge knots) now round-trips exactly, and user knots distinguish terms *)
Example C14_info_roundtrip_edge_knots :
  let t := TS (SS (mkS 0 6 3 [NF 3 (-2)] [Some "auto"] [None] "ps" "numerical" None (Some (true, [NI (-1); NI 2])) false)) in
  wf_term t /\ build_from_info (info t) = Some t /\ termlist [t; TS (SS w_spline); t] = [t; TS (SS w_spline)].
Proof. exact w_knots_roundtrips. Qed.

(* the unguarded statement is still false for hidden factor attributes *)
Theorem C14_info_roundtrip_refuted_hidden_factor :
  exists t, wf_term t /\
    (exists ts, tl_set "spline_order" (VInt 2)
                  [TS (SS w_spline); TS (SF (mkS 1 20 0 [NF 3 (-2)] [Some "auto"] [None] "ps" "categorical" None None false) "one-hot")]
                = (Ok, ts) /\ nth 1 ts (TI false) = t) /\
    forall t', build_from_info (info t) = Some t' -> behav t' <> behav t.
Proof. exact (ex_intro _ w_factor_order w_factor_order_refutes). Qed.
Print Assumptions C14_info_roundtrip_refuted_hidden_factor.

(* what build_penalties returns for a term list compiled on data is a function of the CURRENT hyper-parameters (Model/C14Pen.v
   translates a term into the penalty model of C04): equal settings give equal penalties; after an accepted assignment --
   whatever was built or assigned before -- the penalty is that of any term list constructed with the resulting settings; and
   (under the round-trip guard) that of the term rebuilt from its info.  The harness compares penalty_now with the
   implementation after interleaved uses / assignments. *)
Theorem C14_penalty_function_of_settings :
  (forall dk nc ts us, map behav ts = map behav us -> penalty_now (map (compile dk nc) ts) = penalty_now (map (compile dk nc) us)) /\
  (forall dk nc name v ts ts' fresh, tl_set name v ts = (Ok, ts') -> map behav fresh = map behav ts' ->
     penalty_now (map (compile dk nc) fresh) = penalty_now (map (compile dk nc) ts')) /\
  (forall dk nc t, wf_term t -> roundtrip_guard t = true ->
     exists t', build_from_info (info t) = Some t' /\ pen_term (compile dk nc t') = pen_term (compile dk nc t)).
Proof. exact (conj penalty_now_settings (conj penalty_after_assign penalty_rebuilt)). Qed.
Print Assumptions C14_penalty_function_of_settings.

(* set_params applied to the dictionary returned by get_params changes nothing; a public parameter that is set reads back *)
Theorem C14_params_roundtrip :
  (forall deep force o, NoDup (map fst (o_attrs o)) -> set_params deep force o (get_params deep o) = o) /\
  (forall deep force o k v, public o k = true -> In k (map fst (get_params false o)) ->
     alookup k (get_params false (set_params deep force o [(k, v)])) = Some v).
Proof. exact (conj params_roundtrip_same params_set_get). Qed.
Print Assumptions C14_params_roundtrip.

Example C14_params_roundtrip_nonvacuous :
  let o := mkO [("feature", VInt 0); ("lam", VList [VInt 1]); ("_name", VStr "spline_term"); ("edge_knots_", VNone)] ["fit_linear"] ["info"] in
  NoDup (map fst (o_attrs o)) /\ public o "lam" = true /\ In "lam" (map fst (get_params false o)).
Proof. cbv zeta. split; [repeat constructor; simpl; intuition discriminate | split; [reflexivity | simpl; auto]]. Qed.

(* names the object does not have, and private / fitted names, are ignored; force sets anything *)
Theorem C14_unknown_ignored_unless_forced :
  (forall deep o k v, has_attr o k = false -> set_params deep false o [(k, v)] = o) /\
  (forall o k v, no_edge_us k = false -> set_params false false o [(k, v)] = o) /\
  (forall deep o k v, alookup k (o_attrs (set_params deep true o [(k, v)])) = Some v).
Proof. exact (conj unknown_ignored (conj private_ignored forced_set)). Qed.
Print Assumptions C14_unknown_ignored_unless_forced.
