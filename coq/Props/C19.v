(* Props/C19.v -- PoissonGAM exposure is equivalent to rate modelling with exposure weights.
   Objects: the plumbing GENERATED from PoissonGAM.fit / gridsearch / predict / loglikelihood / _loglikelihood /
   _exposure_to_weights, GAM.gridsearch's candidate refit and PoissonDist.log_pdf (Gen/Poisson.v, Gen/Stats.v, Gen/Dists.v).
   `option R` = an argument that may be omitted (None = the code's array of ones). *)
From Coq Require Import Reals ZArith List Bool.
From PG Require Import Base.Ops Gen.Stats Gen.Dists Gen.Poisson Proofs.C19.
Import ListNotations.
Open Scope R_scope.

(* fit(X, y, exposure = e, weights = w) is the base-class fit on rates y / e with weights w * e (e alone without weights) *)
Theorem C19_fit_equiv : forall y e w,
  Gen_pois_fit_data y (Some e) (Some w) = (y / e, w * e) /\ Gen_pois_fit_data y (Some e) None = (y / e, e) /\
  (y / e, w * e) = (Gen_exposure_rate y e, Gen_exposure_weight w e).
Proof. intros. destruct (fit_equiv y e w). repeat split; assumption. Qed.
Print Assumptions C19_fit_equiv.

(* omitting exposure is exposure one: y / 1 = y, w * 1 = w *)
Theorem C19_default_exposure_one : forall y (ow : option R) w,
  Gen_pois_fit_data y None ow = Gen_pois_fit_data y (Some 1) ow /\
  Gen_pois_fit_data y None (Some w) = (y, w) /\ Gen_pois_fit_data y None None = (y, 1).
Proof. exact default_exposure_one. Qed.
Print Assumptions C19_default_exposure_one.

(* predict(X, exposure = e) = e * predict_mu(X); without exposure the rate itself *)
Theorem C19_predict_scales : forall mu e, Gen_pois_predict mu (Some e) = e * mu /\ Gen_pois_predict mu None = mu.
Proof. exact predict_scales. Qed.
Print Assumptions C19_predict_scales.

(* gridsearch(X, y, exposure, weights) fits every candidate on exactly the data of fit(X, y, exposure, weights)
   (true of today's GAM.gridsearch, which passes weights by keyword; with the positional call of the pinned tree the converted
   weights landed in PoissonGAM.fit's `exposure` parameter and the rate was divided a second time, see
   Proofs/C19.v positional_routing_divides_twice) *)
Theorem C19_gridsearch_equiv : forall y e w, Gen_pois_gridsearch_data y e w = Gen_pois_fit_data y e w.
Proof. exact gridsearch_equiv. Qed.
Print Assumptions C19_gridsearch_equiv.

(* loglikelihood(X, y, exposure) with unit sample weights: for integer counts k_i and exposures e_i <> 0,
   round((k_i / e_i) * e_i) = k_i and the value is sum_i logpmf(k_i ; mu_i * e_i), mu_i = predict_mu (the fitted rate).
   np.round enters through the only fact used about it (it fixes integers), which the concrete round-half-even `rint` satisfies;
   logpmf is scipy.stats.poisson.logpmf (any function: the statement is about its arguments). *)
Theorem C19_loglik : forall (rnd : R -> R) (logpmf : R -> R -> R) (rows : list (R * Z * R)),
  (forall z, rnd (IZR z) = IZR z) -> List.Forall (fun t => snd t <> 0) rows ->
  pois_ll rnd logpmf rows = pois_ll_spec logpmf rows.
Proof. exact loglik_sum. Qed.
Print Assumptions C19_loglik.
Theorem C19_loglik_pieces :
  (forall y e, e <> 0 -> (y / e) * e = y) /\ (forall z, rint (IZR z) = IZR z) /\
  (forall scale levels w y mu, Gen_PoissonDist_log_pdf scale levels w y mu = Spec_poisson_logpmf_kernel y (Gen_pois_ll_mean mu w)) /\
  (forall rnd logpmf mu k e w, e <> 0 ->
     Gen_pois_ll_term rnd logpmf mu (IZR k) (Some e) (Some w) = logpmf (rnd (IZR k * w)) (mu * (w * e))).
Proof. split; [exact rate_times_exposure|]. split; [exact rint_IZR|]. split; [exact log_pdf_is_kernel|exact loglik_term_weighted]. Qed.
Print Assumptions C19_loglik_pieces.

(* the conversion keeps the weighted count (rate x weight = count x sample weight) for every non-zero exposure, and a change of
   exposure units c rescales the rate by 1/c and the weight by c: exposure only moves mass between "rate" and "weight" *)
Theorem C19_conversion_preserves_counts : forall y e w c, e <> 0 -> c <> 0 ->
  fst (Gen_pois_fit_data y (Some e) (Some w)) * snd (Gen_pois_fit_data y (Some e) (Some w)) = y * w /\
  fst (Gen_pois_fit_data y (Some e) None) * snd (Gen_pois_fit_data y (Some e) None) = y /\
  Gen_pois_fit_data y (Some (c * e)) (Some w) =
    (fst (Gen_pois_fit_data y (Some e) (Some w)) / c, c * snd (Gen_pois_fit_data y (Some e) (Some w))).
Proof. intros y e w c He Hc. destruct (rate_times_weight_is_count y e w He) as [H1 H2].
  split; [exact H1|split; [exact H2|exact (exposure_units y e w c He Hc)]]. Qed.
Print Assumptions C19_conversion_preserves_counts.
