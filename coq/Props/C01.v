(* Props/C01.v -- property theorems (list-vector / real-analysis side).  Objects: coq/Model/Pirls.v (one PIRLS
   iteration, hand-written, parametric) tied to the formulas GENERATED from the source (Gen/Links, Gen/Dists, Gen/Stats). *)
From Coq Require Import List Reals Lra.
From Coquelicot Require Import Coquelicot.
From PG Require Import Base.Ops Base.Vec Model.Pirls Proofs.VecR Proofs.C04 Proofs.C04b Proofs.C01 Proofs.C01Grad Proofs.C01Inst Gen.Links Gen.Dists Gen.Stats.
Import ListNotations.
Open Scope R_scope.

(* the hand-written step model uses exactly the generated link gradients, variance functions, working weights and
   pseudo data (so a change of any of those formulas in the source breaks these ties) *)
Theorem C01_model_uses_generated_formulas :
  (forall L mu, gprime Rfops LIdentity L mu = Gen_IdentityLink_gradient L mu) /\
  (forall L mu, mu <> 0 -> gprime Rfops LLog L mu = Gen_LogLink_gradient L mu) /\
  (forall L mu, mu * (L - mu) <> 0 -> gprime Rfops LLogit L mu = Gen_LogitLink_gradient L mu) /\
  (forall L mu, mu <> 0 -> gprime Rfops LInverse L mu = Gen_InverseLink_gradient L mu) /\
  (forall L mu, mu <> 0 -> gprime Rfops LInvSq L mu = Gen_InvSquaredLink_gradient L mu) /\
  (forall L mu, V0 Rfops DNormal L mu = Gen_NormalDist_V0 L mu) /\
  (forall L mu, L <> 0 -> V0 Rfops DBinomial L mu = Gen_BinomialDist_V0 L mu) /\
  (forall L mu, V0 Rfops DPoisson L mu = Gen_PoissonDist_V0 L mu) /\
  (forall L mu, V0 Rfops DGamma L mu = Gen_GammaDist_V0 L mu) /\
  (forall L mu, V0 Rfops DInvGauss L mu = Gen_InvGaussDist_V0 L mu) /\
  (forall l d L w y mu, 0 < gprime Rfops l L mu * gprime Rfops l L mu * V0 Rfops d L mu -> 0 < w ->
     w2 Rfops l d None L w y mu = Gen_W (gprime Rfops l L mu) (V0 Rfops d L mu) w * Gen_W (gprime Rfops l L mu) (V0 Rfops d L mu) w) /\
  (forall l L lp y mu, zpd Rfops l L lp y mu = Gen_pseudo_data (gprime Rfops l L mu) lp y mu) /\
  (forall tau y mu, 0 <= tau <= 1 -> asym Rfops (Some tau) y mu = (b2r (Rltb mu y) * tau + b2r (Rleb y mu) * (1 - tau))).
Proof.
  repeat split; intros.
  - apply gprime_log; assumption. - apply gprime_logit; assumption. - apply gprime_inverse; assumption.
  - apply gprime_invsq; assumption. - apply V0_binomial; assumption.
  - apply w2_is_Gen_W_sq; assumption. - apply asym_is_Gen; assumption.
Qed.
Print Assumptions C01_model_uses_generated_formulas.

(* Score equation: a fixed point of the step (z built from the entering coefficients b themselves) satisfies
   B' [ asym w (y - mu) / (V(mu) g'(mu)) ] = Ptot b   -- for every family / link / expectile, all n, m *)
Theorem C01_score_equation : forall l d tau L m B Ptot ob b,
  List.Forall (fun r => length r = m) B -> length ob = length B -> length Ptot = m ->
  List.Forall (fun t => gprime Rfops l L (snd t) <> 0 /\ V0 Rfops d L (snd t) <> 0) ob ->
  is_step Rfops m B (obs_w2 l d tau L ob) Ptot (vaddR (matvecR B b) (obs_rr l L ob)) b ->
  Bt_mul Rfops m B (obs_score l d tau L ob) = matvecR Ptot b.
Proof. exact score_equation. Qed.
Print Assumptions C01_score_equation.

(* the penalised deviance  sum_i w_i dev(y_i, ginv(B_i . beta)) + beta' Ptot beta  has, along any direction v,
   the derivative given by the chain rule ... *)
Theorem C01_score_is_gradient : forall (dev : R -> R -> R) (ginv : R -> R) (dd : R -> R -> R) (gi : R -> R) (ok : R -> R -> Prop),
  (forall y lp, ok y lp -> is_derive (dev y) (ginv lp) (dd y (ginv lp))) ->
  (forall y lp, ok y lp -> is_derive ginv lp (gi lp)) ->
  forall m B wy P b v, square P m -> length b = m -> length v = m ->
  List.Forall (fun o => ok (snd (fst (fst o))) (snd (fst o))) (mkobs B wy b v) ->
  is_derive (pendev dev ginv B wy P b v) 0
            (dsum ginv dd gi (mkobs B wy b v) + (dotR b (matvecR P v) + dotR v (matvecR P b))).
Proof. exact pendev_derive. Qed.
Print Assumptions C01_score_is_gradient.
(* ... and that derivative vanishes in every direction when the score equation holds (dd gi w = -2 s per observation,
   i.e. dd = -2 (y - mu) / V by C06 and gi = 1 / g' by C07): a converged fit is a stationary point *)
Theorem C01_stationary_point : forall (ginv : R -> R) (dd : R -> R -> R) (gi : R -> R) m B wy s P b v,
  List.Forall (fun r => length r = m) B -> length wy = length B -> length s = length B ->
  length b = m -> length v = m -> bisym P m ->
  List.Forall (fun t => fst (fst (snd t)) * (dd (snd (fst (snd t))) (ginv (dotR (fst t) b)) * gi (dotR (fst t) b)) = -2 * snd (snd t))
         (combine B (combine wy s)) ->
  Bt_mul Rfops m B s = matvecR P b ->
  dsum ginv dd gi (mkobs B wy b v) + (dotR b (matvecR P v) + dotR v (matvecR P b)) = 0.
Proof. exact stationary_from_score. Qed.
Print Assumptions C01_stationary_point.

(* normal / identity: working weights are the sample weights and the pseudo data are the responses themselves, so the
   step does not depend on the entering coefficients: it IS the penalised weighted least-squares normal equation *)
Theorem C01_normal_identity_closed_form : forall m B Ptot (ob : list (R * R * R)) b,
  List.Forall (fun t => fst (fst t) <> 0 \/ True) ob ->
  neq_lhs Rfops m B (obs_w2 LIdentity DNormal None 1 ob) Ptot b = neq_lhs Rfops m B (map (fun t => fst (fst t)) ob) Ptot b /\
  map (fun t => zpd Rfops LIdentity 1 (snd t) (snd (fst t)) (snd t)) ob = map (fun t => snd (fst t)) ob.
Proof. exact normal_identity_closed_form. Qed.
Print Assumptions C01_normal_identity_closed_form.

(* The chain closed for the five model classes, with the deviances and links GENERATED from the source: a fixed point of the
   PIRLS step (working weights and pseudo data of Model/Pirls.v, proved above to be the generated ones) is a stationary point
   of  sum_i w_i dev(y_i, ginv(B_i . beta)) + beta' Ptot beta  in every direction v -- all n, m, all valid responses. *)
Theorem C01_converged_fit_is_stationary_point :
  (forall sc m B wy P b v,
     List.Forall (fun r => length r = m) B -> length wy = length B -> square P m -> bisym P m -> length b = m -> length v = m ->
     is_step Rfops m B (obs_w2 LIdentity DNormal None 1 (obs_of (Gen_IdentityLink_mu 1) B wy b)) P
             (vaddR (matvecR B b) (obs_rr LIdentity 1 (obs_of (Gen_IdentityLink_mu 1) B wy b))) b ->
     is_derive (pendev (Gen_NormalDist_deviance0 false sc 1) (Gen_IdentityLink_mu 1) B wy P b v) 0 0) /\
  (forall m B wy P b v,
     List.Forall (fun r => length r = m) B -> length wy = length B -> square P m -> bisym P m -> length b = m -> length v = m ->
     List.Forall (fun t => 0 <= snd (snd t)) (combine B wy) ->
     is_step Rfops m B (obs_w2 LLog DPoisson None 1 (obs_of (Gen_LogLink_mu 1) B wy b)) P
             (vaddR (matvecR B b) (obs_rr LLog 1 (obs_of (Gen_LogLink_mu 1) B wy b))) b ->
     is_derive (pendev (Gen_PoissonDist_deviance0 false 1 1) (Gen_LogLink_mu 1) B wy P b v) 0 0) /\
  (forall L m B wy P b v, 0 < L ->
     List.Forall (fun r => length r = m) B -> length wy = length B -> square P m -> bisym P m -> length b = m -> length v = m ->
     List.Forall (fun t => 0 <= snd (snd t) <= L) (combine B wy) ->
     is_step Rfops m B (obs_w2 LLogit DBinomial None L (obs_of (Gen_LogitLink_mu L) B wy b)) P
             (vaddR (matvecR B b) (obs_rr LLogit L (obs_of (Gen_LogitLink_mu L) B wy b))) b ->
     is_derive (pendev (Gen_BinomialDist_deviance0 false 1 L) (Gen_LogitLink_mu L) B wy P b v) 0 0) /\
  (forall sc m B wy P b v,
     List.Forall (fun r => length r = m) B -> length wy = length B -> square P m -> bisym P m -> length b = m -> length v = m ->
     List.Forall (fun t => 0 < snd (snd t)) (combine B wy) ->
     is_step Rfops m B (obs_w2 LLog DGamma None 1 (obs_of (Gen_LogLink_mu 1) B wy b)) P
             (vaddR (matvecR B b) (obs_rr LLog 1 (obs_of (Gen_LogLink_mu 1) B wy b))) b ->
     is_derive (pendev (Gen_GammaDist_deviance0 false sc 1) (Gen_LogLink_mu 1) B wy P b v) 0 0) /\
  (forall sc m B wy P b v,
     List.Forall (fun r => length r = m) B -> length wy = length B -> square P m -> bisym P m -> length b = m -> length v = m ->
     List.Forall (fun t => 0 < snd (snd t)) (combine B wy) ->
     is_step Rfops m B (obs_w2 LLog DInvGauss None 1 (obs_of (Gen_LogLink_mu 1) B wy b)) P
             (vaddR (matvecR B b) (obs_rr LLog 1 (obs_of (Gen_LogLink_mu 1) B wy b))) b ->
     is_derive (pendev (Gen_InvGaussDist_deviance0 false sc 1) (Gen_LogLink_mu 1) B wy P b v) 0 0).
Proof.
  exact (conj linear_fixed_point_stationary (conj poisson_fixed_point_stationary (conj logistic_fixed_point_stationary
        (conj gamma_fixed_point_stationary invgauss_fixed_point_stationary)))).
Qed.
Print Assumptions C01_converged_fit_is_stationary_point.
