(* Props/C16.v -- property theorems only.  Each is closed by `exact <lemma>` and followed by Print Assumptions.
   Statements are about the real instance of coq/Model/Columns.v: block t row = the columns term t contributes for the
   sample `row` (None = the code raises); row_blocks = TermList.build_columns; coef_start / coef_indices / n_coefs =
   TermList.get_coef_indices / n_coefs.  Examples (hypotheses satisfiable): Proofs/C16Transfer.v.                 *)
From Coq Require Import List Reals ZArith QArith Qreals.
From PG Require Import Base.Ops Base.Vec Model.BSpline Model.Columns Proofs.C03Basis Proofs.C16 Proofs.C16Transfer.
Import ListNotations.
Open Scope R_scope.

(* factor term compiled on consecutive integer codes 0..L-1 (edge knots -1/2 and L-1+1/2, L levels): the row of code c
   is the indicator of c (one-hot), with the first column dropped under dummy coding; every L >= 1 *)
Theorem C16_factor_indicator : forall f L c dummy row, (c < L)%nat -> nth f row 0 = INR c ->
  block_simple Rfops (SFactor f (0 - / 2) (INR L - 1 + / 2) L dummy) row =
  Some ((if dummy then @tl R else fun l => l) (map (fun i => if Nat.eqb i c then 1 else 0) (seq 0 L))).
Proof. exact factor_indicator. Qed.
Print Assumptions C16_factor_indicator.

(* tensor term = iterated row-wise Kronecker product of the marginal blocks, any number of marginals of any kind,
   then the by-variable; entry (i * m_b + j) of a (x) b is a_i * b_j (C order) *)
Theorem C16_tensor_is_rowwise_kron : forall row m ms by_ b bs, block_simple Rfops m row = Some b ->
  Forall2 (fun m b => block_simple Rfops m row = Some b) ms bs ->
  block Rfops (CTensor (m :: ms) by_) row = Some (scale_by Rfops by_ row (fold_left (kron_row Rrops) bs b)).
Proof. exact tensor_is_rowwise_kron. Qed.
Print Assumptions C16_tensor_is_rowwise_kron.
Theorem C16_kron_row_entry : forall (b a : list R) i j, (j < length b)%nat ->
  nth (i * length b + j) (kron_row Rrops a b) 0 = nth i a 0 * nth j b 0.
Proof. exact kron_row_entry. Qed.
Print Assumptions C16_kron_row_entry.

(* a by-variable multiplies the term's row by that feature (spline terms and tensor terms) *)
Theorem C16_by_scales_rows_spline : forall f e0 e1 n k p j row,
  block_simple Rfops (SSpline f e0 e1 n k p (Some j)) row =
  option_map (vscale Rrops (nth j row 0)) (block_simple Rfops (SSpline f e0 e1 n k p None) row).
Proof. exact by_scales_spline. Qed.
Print Assumptions C16_by_scales_rows_spline.
Theorem C16_by_scales_rows_tensor : forall ms j row,
  block Rfops (CTensor ms (Some j)) row = option_map (vscale Rrops (nth j row 0)) (block Rfops (CTensor ms None) row).
Proof. exact by_scales_tensor. Qed.
Print Assumptions C16_by_scales_rows_tensor.

(* intercept -> [1]; linear -> [x_f]; spline -> the C03 basis row of x_f *)
Theorem C16_intercept_linear_spline : forall row,
  block Rfops CIntercept row = Some [1] /\
  (forall f, block Rfops (CSimple (SLinear f)) row = Some [nth f row 0]) /\
  (forall f e0 e1 n k p, block Rfops (CSimple (SSpline f e0 e1 n k p None)) row = bspline_row Rfops e0 e1 n k p (nth f row 0)).
Proof. exact (fun row => conj (intercept_block row) (conj (fun f => linear_block f row) (fun f e0 e1 n k p => spline_block f e0 e1 n k p row))). Qed.
Print Assumptions C16_intercept_linear_spline.

(* shape: one row per sample by construction; the row has sum of n_coefs entries *)
Theorem C16_shape : forall ts row r, row_blocks Rfops ts row = Some r -> length r = total_coefs ts.
Proof. exact row_blocks_length. Qed.
Print Assumptions C16_shape.
Theorem C16_block_width : forall t row b, block Rfops t row = Some b -> length b = n_coefs t.
Proof. exact block_length. Qed.
Print Assumptions C16_block_width.

(* each term's coefficient indices address exactly its own columns ... *)
Theorem C16_indices_address_block : forall ts row r i, row_blocks Rfops ts row = Some r -> (i < length ts)%nat ->
  exists b, block Rfops (nth i ts CIntercept) row = Some b /\
            slice r (coef_start ts i) (n_coefs (nth i ts CIntercept)) = b.
Proof. exact indices_address_block. Qed.
Print Assumptions C16_indices_address_block.
(* ... and the index ranges, in term order, tile 0 .. n_coefs-1 (disjoint and covering) *)
Theorem C16_indices_partition : forall ts : list (cterm R),
  concat (map (coef_indices ts) (seq 0 (length ts))) = seq 0 (total_coefs ts).
Proof. exact indices_partition. Qed.
Print Assumptions C16_indices_partition.

(* data-dependent state of a spline term (after /repo e1fa477): the compiled term carries the edge knots of the data of the
   LAST compile ((min, max), C03_compile_default_knots_min_max) unless the user gave knots, which are kept *)
Theorem C16_spline_compile_uses_last_data : forall f cat n k p by_ cols col,
  compile_spline Rfops f None cat n k p by_ (cols ++ [col]) =
  option_map (fun e => SSpline f (fst e) (snd e) n k p by_) (gen_edge_knots Rfops cat col).
Proof. exact compile_spline_default. Qed.
Print Assumptions C16_spline_compile_uses_last_data.
Theorem C16_spline_compile_keeps_user_knots : forall f lo hi cat n k p by_ cols,
  compile_spline Rfops f (Some (lo, hi)) cat n k p by_ cols = Some (SSpline f lo hi n k p by_).
Proof. exact compile_spline_given. Qed.
Print Assumptions C16_spline_compile_keeps_user_knots.

(* the rational instance evaluated by the correspondence check denotes the real instance *)
Theorem C16_model_transfer : forall (ts : list (cterm Q)) (row : list Q),
  row_blocks Rfops (map cterm_Q2R ts) (map Q2R row) = option_map (map Q2R) (row_blocks Qfops ts row).
Proof. exact row_blocks_Q2R. Qed.
Print Assumptions C16_model_transfer.
