(* Props/C11.v -- property theorems only.  Each is closed by `exact <lemma>` and followed by Print Assumptions.
   c11_traces is GENERATED from pygam/pygam.py on every check (translator/skel_c11.py): the theorems are re-proved
   against today's validation traces. *)
From Coq Require Import List String Bool.
From PG Require Import Model.Validation Gen.C11Traces Model.C11Check Proofs.C11.
Import ListNotations.

(* check_array rejects exactly when some element, at any position of an array of any length, is NaN / +Inf / -Inf
   (or the width is wrong when n_feats is given, or there is no sample) *)
Theorem C11_nonfinite_anywhere : forall nf d,
  check_array nf d = RaiseValueError <->
  (exists i, nonfinite_at d i) \/ (nf = true /\ d_width_ok d = false) \/ d_elems d = [].
Proof. exact check_array_spec. Qed.
Print Assumptions C11_nonfinite_anywhere.

Theorem C11_nonfinite_any_position : forall nf c t pre e post l w dm ct,
  is_fin e = false -> check_array nf (mk_desc c t (pre ++ e :: post) l w dm ct) = RaiseValueError.
Proof. exact check_array_any_position. Qed.
Print Assumptions C11_nonfinite_any_position.

(* PARTIAL: the full statement (no `excepted` hypothesis) is false of today's code, see C11_entrypoints_refuted.
   What is missing is exactly Model/C11Check.v `exceptions` (each entry specific: defining class, method, argument,
   corruption kind, container, fitted state; each a confirmed suspected defect of pyGAM or the benign L1).
   For every extracted entry point x data argument x applicable corruption (NaN / +Inf / -Inf anywhere, mismatched
   length, wrong width, out-of-domain target, unseen category), every container / dtype, every other content of the
   descriptor, fitted (or unfitted for the fitting methods), loops skipped or not: ValueError before any use. *)
Theorem C11_entrypoints_partial : forall e k d fitted skip,
  In e c11_traces -> applicable e k = true -> corrupted k d -> state_ok e fitted = true ->
  excepted e k (d_cont d) (d_dt d) fitted = false ->
  run_trace (e_actions e) d fitted skip = RaisedVE.
Proof. exact entrypoints_partial. Qed.
Print Assumptions C11_entrypoints_partial.

Theorem C11_entrypoints_refuted :
  ~ (forall e k d fitted skip, In e c11_traces -> applicable e k = true -> corrupted k d -> state_ok e fitted = true ->
       run_trace (e_actions e) d fitted skip = RaisedVE).
Proof. exact entrypoints_refuted. Qed.
Print Assumptions C11_entrypoints_refuted.

(* the exception list is tight: each listed exception is witnessed by an extracted trace that does not reject *)
Theorem C11_exceptions_genuine : forall x, In x exceptions ->
  exists e a s, In e c11_traces /\ exc_entry_matches x e = true /\ applicable e (x_kind x) = true /\
    state_ok e (x_fitted x) = true /\ a_corrupted (x_kind x) a = true /\ (opt_match cont_eqb (x_cont x) (a_cont a) && opt_match dkind_eqb (x_dt x) (a_dt a)) = true /\
    run_atrace (e_actions e) a (x_fitted x) s <> RaisedVE.
Proof. exact exceptions_genuine_all. Qed.
Print Assumptions C11_exceptions_genuine.

(* methods that need a fitted model, on an unfitted one: AttributeError before anything else for valid data;
   for any data nothing but AttributeError or ValueError (no exceptions needed) *)
Theorem C11_unfitted_attribute_error : forall e d skip, In e c11_traces -> e_fitting e = false ->
  (valid d -> run_trace (e_actions e) d false skip = RaisedAE) /\
  (run_trace (e_actions e) d false skip = RaisedAE \/ run_trace (e_actions e) d false skip = RaisedVE).
Proof. exact unfitted_attribute_error. Qed.
Print Assumptions C11_unfitted_attribute_error.
