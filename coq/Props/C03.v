(* Props/C03.v -- property theorems only.  Each is closed by `exact <lemma>` and followed by Print Assumptions. *)
From Coq Require Import List Reals ZArith.
From PG Require Import Base.Ops Base.Vec Model.BSpline Proofs.C03Scale.
Import ListNotations.
Open Scope R_scope.

(* the basis depends on x only through its position relative to the edge knots.
   _partial: requires distinct edge knots.  For equal knots the code replaces the scale 0 by 1, so the basis is then
   invariant under translations (C03_translation_invariance, all knots) but not under rescaling. *)
Theorem C03_affine_invariance_partial : forall a b ek0 ek1 n k periodic x, 0 < a -> ek0 <> ek1 ->
  bspline_row Rfops (a * ek0 + b) (a * ek1 + b) n k periodic (a * x + b) = bspline_row Rfops ek0 ek1 n k periodic x.
Proof. exact bspline_row_affine. Qed.
Print Assumptions C03_affine_invariance_partial.

Theorem C03_translation_invariance : forall b ek0 ek1 n k periodic x,
  bspline_row Rfops (ek0 + b) (ek1 + b) n k periodic (x + b) = bspline_row Rfops ek0 ek1 n k periodic x.
Proof. exact bspline_row_translate. Qed.
Print Assumptions C03_translation_invariance.
