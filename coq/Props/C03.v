(* Props/C03.v -- property theorems only.  Each is closed by `exact <lemma>` and followed by Print Assumptions.
   All statements are about the real instance of coq/Model/BSpline.v (bspline_row / bspline_scaled = one row of
   pygam.utils.b_spline_basis; None = the code raises, which after the repair of S10 only happens for n < k+1).  vsum = row sum, scaled_x = (x - min ek)/(max ek - min ek)
   with the code's replacement of a zero scale by 1.  Examples showing that the hypotheses are satisfiable are in
   Proofs/C03Transfer.v (ex_inside, ex_extrap_left, ex_extrap_right, ex_periodic, ex_edge_knots).               *)
From Coq Require Import List Reals ZArith QArith Qreals.
From PG Require Import Base.Ops Base.Vec Model.BSpline Proofs.C03Basis Proofs.C03Scale Proofs.C03Row
  Proofs.C03Periodic Proofs.C03PeriodicSupport Proofs.C03PeriodicLip Proofs.C03PeriodicWrap
  Proofs.C03PeriodicShift Proofs.C03Transfer.
Import ListNotations.
Open Scope R_scope.

(* Cox-de Boor recursion over ANY strictly increasing knot sequence t, any order k, for the polynomial piece j0
   (t j0 <= x <= t (j0+1)): non-negative, supported on i in [j0-k, j0], sums to one. *)
Theorem C03_general_knots_nonneg : forall t : nat -> R, (forall i, t i < t (S i)) -> forall x j0, t j0 <= x <= t (S j0) ->
  forall k i, 0 <= Bix Rfops t (ind j0) x k i.
Proof. exact inonneg. Qed.
Print Assumptions C03_general_knots_nonneg.
Theorem C03_general_knots_support : forall t : nat -> R, (forall i, t i < t (S i)) -> forall x j0 k i,
  ~ (i <= j0 <= i + k)%nat -> Bix Rfops t (ind j0) x k i = 0.
Proof. exact isupport. Qed.
Print Assumptions C03_general_knots_support.
Theorem C03_general_knots_partition_of_unity : forall t : nat -> R, (forall i, t i < t (S i)) -> forall x j0 k a len,
  (a + k <= j0 <= a + k + len)%nat -> vsum Rrops (map (Bix Rfops t (ind j0) x k) (seq a (k + S len))) = 1.
Proof. exact partition_of_unity. Qed.
Print Assumptions C03_general_knots_partition_of_unity.
(* the vectorised list recursion of the code computes exactly that index function *)
Theorem C03_recursion_is_cox_de_boor : forall t h x k m,
  deboor Rfops t x k (map h (seq 0 (m + k))) = map (Bix Rfops t h x k) (seq 0 m).
Proof. exact deboor_Bix. Qed.
Print Assumptions C03_recursion_is_cox_de_boor.

(* inside the knot range (scaled position in [0,1], both ends included), non-periodic, every order k and size n:
   n entries, non-negative, summing to one, at most k+1 consecutive non-zero *)
Theorem C03_inside_nonneg_sum_support : forall n k xs row, 0 <= xs <= 1 ->
  bspline_scaled Rfops n k false xs = Some row ->
  length row = n /\ Forall (fun v => 0 <= v) row /\ vsum Rrops row = 1 /\
  (exists j, forall i, (i < j \/ j + k < i)%nat -> nth i row 0 = 0).
Proof. exact inside_row. Qed.
Print Assumptions C03_inside_nonneg_sum_support.
Theorem C03_inside_means_between_edge_knots : forall ek0 ek1 x, ek0 <> ek1 -> Rmin ek0 ek1 <= x <= Rmax ek0 ek1 ->
  0 <= scaled_x Rfops ek0 ek1 x <= 1.
Proof. exact scaled_x_inside. Qed.
Print Assumptions C03_inside_means_between_edge_knots.

(* outside the range, order >= 1: rows still sum to one *)
Theorem C03_extrap_rowsum : forall n k xs row, (1 <= k)%nat -> xs < 0 \/ 1 < xs ->
  bspline_scaled Rfops n k false xs = Some row -> length row = n /\ vsum Rrops row = 1.
Proof. exact extrap_rowsum. Qed.
Print Assumptions C03_extrap_rowsum.
(* ... the continuation is affine in x, takes the value of the interior basis at the boundary (continuity), and its
   slopes sum to zero *)
Theorem C03_extrap_linear_continuous : forall n k, (1 <= k < n)%nat ->
  exists g0 g1 b0 b1,
    bspline_scaled Rfops n k false 0 = Some b0 /\ bspline_scaled Rfops n k false 1 = Some b1 /\
    length g0 = n /\ length g1 = n /\ length b0 = n /\ length b1 = n /\ vsum Rrops g0 = 0 /\ vsum Rrops g1 = 0 /\
    (forall xs, xs < 0 -> bspline_scaled Rfops n k false xs = Some (vadd Rrops (vscale Rrops xs g0) b0)) /\
    (forall xs, 1 < xs -> bspline_scaled Rfops n k false xs = Some (vadd Rrops (vscale Rrops (xs - 1) g1) b1)).
Proof. exact extrap_linear_continuous. Qed.
Print Assumptions C03_extrap_linear_continuous.
(* That the slopes g0, g1 are, column by column, the one-sided derivatives at the boundary of the interior polynomial pieces
   (the stretch goal of DESIGN section 7, formerly a _partial note here) is proved in Props/C05.v:
   C05_continuation_slope_is_boundary_derivative (derivable_pt_lim of every column of the boundary pieces at 0 and 1). *)

(* periodic basis (after the repair of S10, /repo f738620: the wrapped x is clipped to the right edge): for EVERY order,
   size (n >= k+1) and x the code returns a row; it has n non-negative entries summing to one *)
Theorem C03_periodic_defined_everywhere_rows_sum_to_one : forall n k xs0, (k < n)%nat ->
  exists row, bspline_scaled Rfops n k true xs0 = Some row /\
              length row = n /\ Forall (fun v => 0 <= v) row /\ vsum Rrops row = 1.
Proof. exact periodic_everywhere. Qed.
Print Assumptions C03_periodic_defined_everywhere_rows_sum_to_one.
Theorem C03_periodic_rows_sum_to_one : forall n k xs0 row, bspline_scaled Rfops n k true xs0 = Some row ->
  length row = n /\ Forall (fun v => 0 <= v) row /\ vsum Rrops row = 1.
Proof. exact periodic_row. Qed.
Print Assumptions C03_periodic_rows_sum_to_one.
(* ... and at most k+1 CYCLICALLY consecutive of its n columns are non-zero: there is a start column s < n such that every
   column c outside { (s + d) mod n : d = 0..k } is zero (every order, size and x; the folded row has n columns, k+1 <= n,
   so these k+1 residues are distinct).  Example: ex_support_hyp (Proofs/C03PeriodicShift.v). *)
Theorem C03_periodic_support : forall n k xs0 row, bspline_scaled Rfops n k true xs0 = Some row ->
  length row = n /\ Forall (fun v => 0 <= v) row /\
  exists s, (s < n)%nat /\
    forall c, (c < n)%nat -> (forall d, (d <= k)%nat -> c <> ((s + d) mod n)%nat) -> nth c row 0 = 0.
Proof. exact periodic_support. Qed.
Print Assumptions C03_periodic_support.

(* on the clipped sliver [1, 1+1e-9) of the wrapped axis (the former S10 gap) the row is the row of the right edge;
   in x: for hi <= x < lo + (1+1e-9)*(hi-lo) the row equals the row at x = hi *)
Theorem C03_periodic_sliver_is_right_edge : forall ek0 ek1 n k x, ek0 <> ek1 ->
  Rmax ek0 ek1 <= x < Rmin ek0 ek1 + (1 + / 1000000000) * (Rmax ek0 ek1 - Rmin ek0 ek1) ->
  bspline_row Rfops ek0 ek1 n k true x = bspline_row Rfops ek0 ek1 n k true (Rmax ek0 ek1).
Proof. exact bspline_row_sliver. Qed.
Print Assumptions C03_periodic_sliver_is_right_edge.
Theorem C03_periodic_former_gap_point :
  bspline_row Rfops 0 1 6 3 true (Q2R (20000000001 # 20000000000)) = bspline_row Rfops 0 1 6 3 true 1
  /\ bspline_row Rfops 0 1 6 3 true 1 = Some (map Q2R [1 # 6; 2 # 3; 1 # 6; 0; 0; 0]%Q).
Proof. exact periodic_former_gap_point. Qed.
Print Assumptions C03_periodic_former_gap_point.

(* period.  The exact period of the code is p = (1+1e-9) * knot range (the code wraps with x % (1+1e-9), then clips to the
   right edge): basis(x + m*p) = basis(x) for every x and integer m, clipped sliver included.  "Period = knot range" (the
   property text) is false as an exact statement (refuted below) and true up to n * 1e-9 (C03_periodic_shift_bound). *)
Theorem C03_periodic_exact_period : forall ek0 ek1 n k x (m : Z), ek0 <> ek1 ->
  bspline_row Rfops ek0 ek1 n k true (x + IZR m * (1 + / 1000000000) * (Rmax ek0 ek1 - Rmin ek0 ek1))
  = bspline_row Rfops ek0 ek1 n k true x.
Proof. exact bspline_row_period. Qed.
Print Assumptions C03_periodic_exact_period.
Theorem C03_periodic_period_knot_range_refuted : exists ek0 ek1 n k x, ek0 <> ek1 /\ (k < n)%nat /\
  bspline_row Rfops ek0 ek1 n k true (x + (Rmax ek0 ek1 - Rmin ek0 ek1)) <> bspline_row Rfops ek0 ek1 n k true x.
Proof. exact period_knot_range_refuted. Qed.
Print Assumptions C03_periodic_period_knot_range_refuted.

(* "repeats with period equal to the knot range", quantitatively, order k >= 1, EVERY x (no exclusion zone, the wrap point
   included): a shift of x by exactly one knot range changes every column by at most n * 1e-9, where n = n_splines = 1/h is
   the Lipschitz constant of the columns in scaled units (h = knot spacing; |B'| <= 1/h by the B-spline derivative formula).
   Example: ex_shift_bound_hyp. *)
Theorem C03_periodic_shift_bound : forall ek0 ek1 n k c x, ek0 <> ek1 -> (1 <= k < n)%nat -> (c < n)%nat ->
  Rabs (match bspline_row Rfops ek0 ek1 n k true (x + (Rmax ek0 ek1 - Rmin ek0 ek1)) with Some row => nth c row 0 | None => 0 end
        - match bspline_row Rfops ek0 ek1 n k true x with Some row => nth c row 0 | None => 0 end)
  <= INR n * / 1000000000.
Proof. exact bspline_row_shift_bound. Qed.
Print Assumptions C03_periodic_shift_bound.
(* its two ingredients, on the wrapped axis [0,1] of the scaled position: the columns are Lipschitz with constant n ... *)
Theorem C03_periodic_lipschitz : forall n k c w1 w2, (1 <= k < n)%nat -> (c < n)%nat -> 0 <= w1 -> w1 <= w2 -> w2 <= 1 ->
  Rabs (match bspline_scaled Rfops n k true w2 with Some row => nth c row 0 | None => 0 end
        - match bspline_scaled Rfops n k true w1 with Some row => nth c row 0 | None => 0 end) <= INR n * (w2 - w1).
Proof. exact pcol_lipschitz_wrapped. Qed.
Print Assumptions C03_periodic_lipschitz.
(* ... and continuous across the wrap: the row at the right edge is the row at the left edge (the 1e-9 bump of the last
   augmented knot never reaches a non-zero term inside [0,1]) *)
Theorem C03_periodic_continuous_across_wrap : forall n k, (k < n)%nat -> (1 <= k)%nat -> forall c, (c < n)%nat ->
  match bspline_scaled Rfops n k true 1 with Some row => nth c row 0 | None => 0 end
  = match bspline_scaled Rfops n k true 0 with Some row => nth c row 0 | None => 0 end.
Proof. exact pcol_wrap_continuous. Qed.
Print Assumptions C03_periodic_continuous_across_wrap.
(* order 0 (piecewise constant, so no Lipschitz statement): the rows at x and x + range are EQUAL unless the wrapped position
   x_scaled mod (1+1e-9) lies in one of the n windows [t_j, t_j + 1e-9) just above a knot t_j = j/n (t_0 = 0 is the wrap
   point) -- the jump points of the shifted basis are the knots moved by 1e-9 * range.  Inside such a window the rows can
   differ (C03_periodic_period_knot_range_refuted is such a point).  Example: ex_order0_shift_hyp. *)
Theorem C03_periodic_order0_shift : forall n xs0 j0, (j0 < n)%nat ->
  knot Rfops (n + 0) 0 j0 + / 1000000000 <= fmod Rfops xs0 (1 + / 1000000000) < knot Rfops (n + 0) 0 (S j0) ->
  bspline_scaled Rfops n 0 true (xs0 + 1) = bspline_scaled Rfops n 0 true xs0.
Proof. exact order0_shift. Qed.
Print Assumptions C03_periodic_order0_shift.

(* the basis depends on x only through its position relative to the edge knots.
   _partial: requires distinct edge knots.  For equal knots the code replaces the scale 0 by 1, so the basis is then
   invariant under translations (C03_translation_invariance, all knots) but not under rescaling (refuted below). *)
Theorem C03_affine_invariance_partial : forall a b ek0 ek1 n k periodic x, 0 < a -> ek0 <> ek1 ->
  bspline_row Rfops (a * ek0 + b) (a * ek1 + b) n k periodic (a * x + b) = bspline_row Rfops ek0 ek1 n k periodic x.
Proof. exact bspline_row_affine. Qed.
Print Assumptions C03_affine_invariance_partial.
Theorem C03_translation_invariance : forall b ek0 ek1 n k periodic x,
  bspline_row Rfops (ek0 + b) (ek1 + b) n k periodic (x + b) = bspline_row Rfops ek0 ek1 n k periodic x.
Proof. exact bspline_row_translate. Qed.
Print Assumptions C03_translation_invariance.
Theorem C03_affine_invariance_equal_knots_refuted : exists a b e x n k, 0 < a /\ (k < n)%nat /\
  bspline_row Rfops (a * e + b) (a * e + b) n k false (a * x + b) <> bspline_row Rfops e e n k false x.
Proof. exact affine_degenerate_refuted. Qed.
Print Assumptions C03_affine_invariance_equal_knots_refuted.
Theorem C03_edge_knot_order_irrelevant : forall ek0 ek1 x, scaled_x Rfops ek1 ek0 x = scaled_x Rfops ek0 ek1 x.
Proof. exact scaled_x_sym. Qed.
Print Assumptions C03_edge_knot_order_irrelevant.

(* default edge knots = (min, max) of the column (widened by 1/2 for categorical data) *)
Theorem C03_edge_knots_min_max : forall col lo hi, gen_edge_knots Rfops false col = Some (lo, hi) ->
  In lo col /\ In hi col /\ Forall (fun v => lo <= v <= hi) col.
Proof. exact gen_edge_knots_min_max. Qed.
Print Assumptions C03_edge_knots_min_max.
Theorem C03_edge_knots_categorical : forall col lo hi, gen_edge_knots Rfops true col = Some (lo, hi) ->
  In (lo + / 2) col /\ In (hi - / 2) col /\ Forall (fun v => lo + / 2 <= v <= hi - / 2) col.
Proof. exact gen_edge_knots_categorical. Qed.
Print Assumptions C03_edge_knots_categorical.

(* SplineTerm.compile (after /repo e1fa477), as a function of the history of compiles of one term object (refits, shared
   terms): knots not given by the user come from the data of the LAST compile only -- hence they are its (min, max) --,
   knots given through edge_knots= are kept across every compile, and compiling again on the same data changes nothing *)
Theorem C03_compile_default_knots_from_last_data : forall cat cols col,
  spline_compile_history Rfops None cat (cols ++ [col]) = gen_edge_knots Rfops cat col.
Proof. exact compile_history_default. Qed.
Print Assumptions C03_compile_default_knots_from_last_data.
Theorem C03_compile_default_knots_min_max : forall cols col lo hi,
  spline_compile_history Rfops None false (cols ++ [col]) = Some (lo, hi) ->
  In lo col /\ In hi col /\ Forall (fun v => lo <= v <= hi) col.
Proof. exact compile_history_default_min_max. Qed.
Print Assumptions C03_compile_default_knots_min_max.
Theorem C03_compile_keeps_user_knots : forall e cat cols, spline_compile_history Rfops (Some e) cat cols = Some e.
Proof. exact compile_history_given. Qed.
Print Assumptions C03_compile_keeps_user_knots.
Theorem C03_compile_idempotent : forall user cat cols col,
  spline_compile_history Rfops user cat ((cols ++ [col]) ++ [col]) = spline_compile_history Rfops user cat (cols ++ [col]).
Proof. exact compile_history_idempotent. Qed.
Print Assumptions C03_compile_idempotent.

(* the rational instance evaluated by the correspondence check denotes the real instance the theorems are about *)
Theorem C03_model_transfer : forall (ek0 ek1 : Q) n k periodic (x : Q),
  bspline_row Rfops (Q2R ek0) (Q2R ek1) n k periodic (Q2R x) =
  option_map (map Q2R) (bspline_row Qfops ek0 ek1 n k periodic x).
Proof. exact bspline_row_Q2R. Qed.
Print Assumptions C03_model_transfer.
