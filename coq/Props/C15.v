(* Props/C15.v -- property theorems only.  Model: Model/Heap.v (term objects shared by reference, compile in place,
   fit record on the model), tied to pygam.py / terms.py by harness/props/c15.py (random call histories).
   State of /repo modelled: after "fix: a spline term kept the knots of the first data set it was compiled on" and
   "fix: gridsearch(keep_best=True) left the model sharing objects with a returned candidate".
   The machine does not inspect the model family (distribution, link, expectile, exposure), so every theorem below holds for
   each of the six model classes; the correspondence runs histories of LinearGAM, LogisticGAM, PoissonGAM (with and without
   exposure), GammaGAM, InvGaussGAM and ExpectileGAM (fit_quantile is the op FitQuantile, which steps exactly like Fit). *)
From Coq Require Import List ZArith Bool Arith.
From PG Require Import Model.Heap Proofs.C15.
Import ListNotations.

(* predict, intervals, partial_dependence, summary, sample, loglikelihood, residuals and -- on a fitted model -- grid search
   with keep_best=False leave the whole heap (every term object, every model's fit record) unchanged; so does any sequence *)
Theorem C15_queries_pure :
  (forall h o, is_query h o = true -> step o h = h) /\
  (forall ops h, (forall o, In o ops -> is_query h o = true) -> run ops h = h).
Proof. exact (conj step_query run_queries). Qed.
Print Assumptions C15_queries_pure.

(* the outcome of fit(d) -- the fit record and the state of the model's term objects right after the fit -- is that of a fresh
   model (fresh term objects with the same constructor settings, user-given knots included) fitted on d: for EVERY heap, i.e.
   whatever was fitted, copied, searched or shared before *)
Theorem C15_fit_history_independent :
  (forall h m d, m < length (h_models h) -> valid_ids h (m_terms (get_m h m)) ->
     let h' := step (Fit m d) h in
     m_fit (get_m h' m) = fresh_fit h d (m_terms (get_m h m)) /\
     m_terms (get_m h' m) = m_terms (get_m h m) /\
     knots_of (h_terms h') (m_terms (get_m h' m)) = map (fun i => t_knots (compile_t d (fresh_term (get_t h i)))) (m_terms (get_m h m))) /\
  (forall ops m d, let h := run ops empty in m < length (h_models h) -> valid_ids h (m_terms (get_m h m)) ->
     m_fit (get_m (run (ops ++ [Fit m d]) empty) m) = fresh_fit h d (m_terms (get_m h m))).
Proof.
  split; [exact fit_fresh |]. intros ops m d h Hm Hv. unfold run. rewrite fold_left_app. simpl.
  exact (proj1 (fit_fresh (fold_left (fun h0 o => step o h0) ops empty) m d Hm Hv)).
Qed.
Print Assumptions C15_fit_history_independent.

(* the former refit witness (fit on data 1, then on data 2) now gives the fresh outcome, and the hypotheses are satisfiable *)
Example C15_fit_history_independent_nonvacuous :
  let ops := [NewTerm KSpline false; NewTerm KFactor false; NewTerm KSpline true; NewModel [0; 1; 2]; NewModel [1]; Fit 1 3; Fit 0 1] in
  let h := run ops empty in
  0 < length (h_models h) /\ valid_ids h (m_terms (get_m h 0)) /\
  m_fit (get_m (run (ops ++ [Fit 0 2]) empty) 0) = Some (2, [Some 2; Some 2; Some 0]).
Proof.
  cbv zeta. split; [vm_compute; auto |]. split; [| reflexivity]. intros i Hi. vm_compute in Hi.
  destruct Hi as [<- | [<- | [<- | []]]]; vm_compute; auto.
Qed.

(* ExpectileGAM.fit_quantile is a fit as far as the heap is concerned: the theorems about Fit are theorems about it *)
Theorem C15_fit_quantile_is_fit : forall h m d, step (FitQuantile m d) h = step (Fit m d) h.
Proof. intros; reflexivity. Qed.
Print Assumptions C15_fit_quantile_is_fit.

(* fitting one model does not change what determines another model's predictions -- PROVIDED they share no term object *)
Theorem C15_fit_isolated_partial : forall h m m' d, m <> m' ->
  (forall i, In i (m_terms (get_m h m)) -> ~ In i (m_terms (get_m h m'))) ->
  obs (step (Fit m d) h) m' = obs h m'.
Proof. exact fit_isolated. Qed.
Print Assumptions C15_fit_isolated_partial.

(* without the proviso it is false: two models built from one term expression share the term objects, and the second model's fit
   recompiles them in place -- spline, factor and linear terms alike *)
Theorem C15_fit_isolated_refuted : forall k : tkind,
  exists ops m m' d, m <> m' /\ obs (run (ops ++ [Fit m d]) empty) m' <> obs (run ops empty) m'.
Proof. intros k. exists (hist_shared k), 1, 0, 2. split; [discriminate | vm_compute; discriminate]. Qed.
Print Assumptions C15_fit_isolated_refuted.

(* gridsearch(keep_best=True) leaves the model with term objects of its own: all new, so shared with no other model, with no
   returned candidate and with nothing the caller holds *)
Theorem C15_keep_best_unshared : forall h m d self_best, m < length (h_models h) ->
  forall i, In i (m_terms (get_m (step (GridsearchKeep m d self_best) h) m)) -> length (h_terms h) <= i.
Proof. exact keep_best_fresh_objects. Qed.
Print Assumptions C15_keep_best_unshared.
