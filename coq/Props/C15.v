(* Props/C15.v -- property theorems only.  Model: Model/Heap.v (term objects shared by reference, compile in place,
   fit record on the model), tied to pygam.py / terms.py by harness/props/c15.py (random call histories). *)
From Coq Require Import List ZArith Bool Arith.
From PG Require Import Model.Heap Proofs.C15.
Import ListNotations.

(* predict, intervals, partial_dependence, summary, sample, loglikelihood, residuals and -- on a fitted model -- grid search
   with keep_best=False leave the whole heap (every term object, every model's fit record) unchanged; so does any sequence *)
Theorem C15_queries_pure :
  (forall h o, is_query h o = true -> step o h = h) /\
  (forall ops h, (forall o, In o ops -> is_query h o = true) -> run ops h = h).
Proof. exact (conj step_query run_queries). Qed.
Print Assumptions C15_queries_pure.

(* if no spline term of the model carries knots (from an earlier fit of this or another model, or from the constructor),
   fit(d) gives exactly the fit record of a fresh model fitted on d -- whatever else happened on the heap before *)
Theorem C15_fit_fresh_equiv : forall h m d, m < length (h_models h) -> clean h (m_terms (get_m h m)) ->
  m_fit (get_m (step (Fit m d) h) m) = fresh_fit d (m_terms (get_m h m)) /\
  m_terms (get_m (step (Fit m d) h) m) = m_terms (get_m h m).
Proof. exact fit_fresh. Qed.
Print Assumptions C15_fit_fresh_equiv.

Example C15_fit_fresh_equiv_nonvacuous :
  let h := run [NewTerm KSpline false; NewTerm KFactor false; NewModel [0; 1]; NewModel [1]; Fit 1 3] empty in
  0 < length (h_models h) /\ clean h (m_terms (get_m h 0)).
Proof.
  cbv zeta. split; [vm_compute; auto |]. intros i Hi. vm_compute in Hi.
  destruct Hi as [<- | [<- | []]]; vm_compute; split; auto; discriminate.
Qed.

(* fitting one model does not change what determines another model's predictions -- PROVIDED they share no term object *)
Theorem C15_fit_isolated_partial : forall h m m' d, m <> m' ->
  (forall i, In i (m_terms (get_m h m)) -> ~ In i (m_terms (get_m h m'))) ->
  obs (step (Fit m d) h) m' = obs h m'.
Proof. exact fit_isolated. Qed.
Print Assumptions C15_fit_isolated_partial.

(* full history independence is false: (a) a model fitted on data 1 and then on data 2 keeps the knots of data 1 *)
Theorem C15_fit_history_independent_refuted_refit :
  exists ops m d, m_fit (get_m (run (ops ++ [Fit m d]) empty) m) <> fresh_fit d (m_terms (get_m (run ops empty) m)).
Proof. exists hist_refit, 0, 2. vm_compute. discriminate. Qed.
Print Assumptions C15_fit_history_independent_refuted_refit.

(* (b) two models built from one term expression share the term objects, hence the knots of whichever was fitted first *)
Theorem C15_fit_history_independent_refuted_shared :
  exists ops m d, m_fit (get_m (run ops empty) m) = None /\
                  m_fit (get_m (run (ops ++ [Fit m d]) empty) m) <> fresh_fit d (m_terms (get_m (run ops empty) m)).
Proof. exists hist_shared, 1, 2. split; [reflexivity | vm_compute; discriminate]. Qed.
Print Assumptions C15_fit_history_independent_refuted_shared.

(* (c) fitting one model changes another model's predictions: a shared factor (or linear) term is overwritten in place *)
Theorem C15_fit_isolated_refuted :
  exists ops m m' d, m <> m' /\ obs (run (ops ++ [Fit m d]) empty) m' <> obs (run ops empty) m'.
Proof. exists hist_shared_factor, 1, 0, 2. split; [discriminate | vm_compute; discriminate]. Qed.
Print Assumptions C15_fit_isolated_refuted.
