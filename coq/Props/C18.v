(* Props/C18.v -- ExpectileGAM fits the requested expectile; fit_quantile reaches its quantile.
   Objects: Model/Pirls.v (PIRLS step, tied to the generated formulas by Props/C01.v), Model/Expectile.v, and the bisection
   machine Model/FitQuantile.v assembled from the loop pieces GENERATED from ExpectileGAM.fit_quantile (Gen/FitQuantile.v). *)
From Coq Require Import List Reals ZArith Bool PrimFloat.
From PG Require Import Base.Ops Base.Vec Model.Pirls Model.Expectile Proofs.VecR Proofs.C01 Proofs.C18 Proofs.C18Half
  Gen.Stats Gen.FitQuantile Model.FitQuantile Proofs.C18Bisect Proofs.C18Float.
Import ListNotations.
Open Scope R_scope.

(* Balance.  b a fixed point of the PIRLS step of the identity / normal / expectile-tau model (means mu_i recorded in ob =
   (w_i, y_i, mu_i)); column j of the model matrix constant one (intercept) and row j of the total penalty only the ridge se
   (= sqrt(eps) in the code; the intercept term has no other penalty).  Then, for every n, m and every data set,
       tau * sum_{y_i > mu_i} w_i (y_i - mu_i)  =  (1 - tau) * sum_{y_i <= mu_i} w_i (mu_i - y_i)  +  se * b_j.            *)
Theorem C18_balance : forall tau se m j B Ptot ob b,
  List.Forall (fun r => length r = m) B -> length ob = length B -> length Ptot = m -> length b = m -> (j < m)%nat ->
  List.Forall (fun r => nth j r 0 = 1) B -> nth j Ptot [] = ridge_row Rrops m j se ->
  is_step Rfops m B (obs_w2 LIdentity DNormal (Some tau) 1 ob) Ptot (vaddR (matvecR B b) (obs_rr LIdentity 1 ob)) b ->
  tau * pos_sum Rrops ob = (1 - tau) * neg_sum Rrops ob + se * nth j b 0.
Proof. exact balance. Qed.
Print Assumptions C18_balance.

(* the working weight of the step model is the square of the GENERATED ExpectileGAM._W (swapping the y > mu / y <= mu
   branches, or not taking the square root of asym, breaks this) *)
Theorem C18_weights_are_generated : forall tau w y mu, 0 < tau < 1 -> 0 < w ->
  Gen_Expectile_W tau 1 1 w y mu * Gen_Expectile_W tau 1 1 w y mu = w2 Rfops LIdentity DNormal (Some tau) 1 w y mu.
Proof. exact Gen_Expectile_W_sq. Qed.
Print Assumptions C18_weights_are_generated.

(* expectile 1/2, exact part: the ExpectileGAM step with total penalty Ptot (= S + P) has the same solutions as the
   LinearGAM step with total penalty 2 Ptot (= 2 S + 2 P): doubled lam AND doubled ridge *)
Theorem C18_half_is_linear_doubled_penalty : forall m B Ptot ob z b,
  is_step Rfops m B (obs_w2 LIdentity DNormal (Some (1/2)) 1 ob) Ptot z b <->
  is_step Rfops m B (obs_w2 LIdentity DNormal None 1 ob) (mscaleR 2 Ptot) z b.
Proof. exact half_is_linear_doubled_penalty. Qed.
Print Assumptions C18_half_is_linear_doubled_penalty.
(* PARTIAL with respect to the property text ("reproduces the LinearGAM fit with doubled lam"): LinearGAM with doubled lam
   has total penalty S + 2 P, because the ridge S = sqrt(eps) I is not scaled by lam.  What holds exactly: an expectile-1/2
   solution b satisfies LinearGAM(2 lam)'s normal equations with defect S b (= sqrt(eps) b, about 1.5e-8 |b|):
       [B' w B + S + 2P] b + S b = B' w z.
   Missing: a bound on the resulting difference of fitted values (it is checked numerically, 1e-6 relative, every run). *)
Theorem C18_half_is_linear_2lam_partial : forall m B S P ob z b,
  length S = length P -> List.Forall2 (fun r s => length r = length s) S P ->
  is_step Rfops m B (obs_w2 LIdentity DNormal (Some (1/2)) 1 ob) (maddR S P) z b ->
  vaddR (neq_lhs Rfops m B (obs_w2 LIdentity DNormal None 1 ob) (maddR S (mscaleR 2 P)) b) (matvecR S b) =
  neq_rhs Rfops m B (obs_w2 LIdentity DNormal None 1 ob) z.
Proof. exact half_vs_doubled_lam. Qed.
Print Assumptions C18_half_is_linear_2lam_partial.

(* Bisection, real-number semantics of today's loop text, for EVERY oracle `ratio` (ratio k = empirical quantile after k
   refits), every quantile, tol, budget and every starting expectile in (0,1), after any number of passes:
   (1) 0 <= min < expectile < max <= 1, so no refit is rejected by _validate_params;
   (2) a pass that does not break moves the expectile strictly up (staying below max) when ratio < quantile and strictly down
       (staying above min) otherwise, the bracket strictly shrinks and the expectile is its midpoint;
   (3)-(5) with fuel max_iter the loop has stopped; it made at most max_iter refits, counted by n_iter; no earlier pass saw
       a ratio within tol; it stopped by `break` iff the current ratio is within tol, else exactly max_iter refits were made. *)
Theorem C18_bisect_invariant : forall quantile tol max_iter (ratio : nat -> R) e0, 0 < e0 < 1 ->
  (forall fuel, let s := fq_loop fuel quantile tol max_iter ratio (fq_init e0) in
                fq_inv s /\ Gen_expectile_out_of_range (q_e s) = false) /\
  (forall s r, fq_inv s -> Gen_fq_within_tol r quantile tol = false ->
     let s' := fq_body quantile tol r s in
     (r < quantile -> q_e s < q_e s' /\ q_e s' < q_max s /\ q_min s' = q_e s /\ q_max s' = q_max s) /\
     (quantile <= r -> q_e s' < q_e s /\ q_min s < q_e s' /\ q_max s' = q_e s /\ q_min s' = q_min s) /\
     (0 < tol -> r <> quantile) /\
     q_max s' - q_min s' < q_max s - q_min s /\ q_e s' = (q_min s' + q_max s') / 2) /\
  (let s := fq_loop (Z.to_nat max_iter) quantile tol max_iter ratio (fq_init e0) in
   fq_running max_iter s = false /\
   (q_refits s <= Z.to_nat max_iter)%nat /\ q_n s = Z.of_nat (q_refits s) /\
   (forall j, (j < q_refits s)%nat -> Gen_fq_within_tol (ratio j) quantile tol = false) /\
   ((q_broke s = true /\ Gen_fq_within_tol (ratio (q_refits s)) quantile tol = true) \/
    (q_broke s = false /\ q_refits s = Z.to_nat max_iter))).
Proof. intros quantile tol max_iter ratio e0 He. split; [|split].
  - intros fuel s. split; [apply fq_loop_inv; exact He|apply fq_inv_in_range; apply fq_loop_inv; exact He].
  - intros s r Hs Hw. apply fq_body_direction; assumption.
  - apply fq_exit. Qed.
Print Assumptions C18_bisect_invariant.

(* the argument checks reject exactly quantile outside (0,1), tol <= 0, max_iter <= 0 *)
Theorem C18_bisect_arguments : forall quantile tol max_iter,
  (Gen_fq_bad_quantile quantile = false <-> 0 < quantile < 1) /\ (Gen_fq_bad_tol tol = false <-> 0 < tol) /\
  (Gen_fq_bad_max_iter max_iter = false <-> (0 < max_iter)%Z).
Proof. exact fq_args. Qed.
Print Assumptions C18_bisect_arguments.

(* REFUTED in binary64 (the arithmetic the code runs in): the same loop text over PrimFloat, quantile 0.999, tol 1e-9,
   budget 100, start 0.5, ratio stuck at 0: after 52 refits the expectile is 1 - 2^-53, the 53rd midpoint rounds to exactly
   1.0 -- not strictly inside (0,1) -- and the refit's _validate_params raises ValueError with 48 passes of budget unused
   (S11; replayed on the implementation by harness/props/c18.py) *)
Theorem C18_bisect_float_refuted :
  exists (ratio : nat -> float) (quantile tol e0 : float) (max_iter : Z),
    f_inside e0 = true /\ Gen_fq_bad_quantile_f quantile = false /\ Gen_fq_bad_tol_f tol = false /\ Gen_fq_bad_max_iter max_iter = false /\
    let s := fqf_loop (Z.to_nat max_iter) quantile tol max_iter ratio (fqf_init e0) in
    f_inside (f_e s) = false /\ PrimFloat.eqb (f_e s) 1%float = true /\ f_raised s = true /\ f_refits s = 52%nat /\ (f_n s < max_iter)%Z.
Proof. exact bisect_float_refuted. Qed.
Print Assumptions C18_bisect_float_refuted.
