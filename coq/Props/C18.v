(* Props/C18.v -- ExpectileGAM fits the requested expectile; fit_quantile reaches its quantile.
   Objects: Model/Pirls.v (PIRLS step, tied to the generated formulas by Props/C01.v), Model/Expectile.v, and the bisection
   machine Model/FitQuantile.v assembled from the loop pieces GENERATED from ExpectileGAM.fit_quantile (Gen/FitQuantile.v). *)
From Coq Require Import List Reals ZArith Bool PrimFloat.
From PG Require Import Base.Ops Base.Vec Model.Pirls Model.Expectile Proofs.VecR Proofs.C01 Proofs.C18 Proofs.C18Half
  Gen.Stats Gen.FitQuantile Model.FitQuantile Proofs.C18Bisect Proofs.C18Flocq Proofs.C18Float Proofs.C18PrimFlocq.
Import ListNotations.
Open Scope R_scope.

(* Balance.  b a fixed point of the PIRLS step of the identity / normal / expectile-tau model (means mu_i recorded in ob =
   (w_i, y_i, mu_i)); column j of the model matrix constant one (intercept) and row j of the total penalty only the ridge se
   (= sqrt(eps) in the code; the intercept term has no other penalty).  Then, for every n, m and every data set,
       tau * sum_{y_i > mu_i} w_i (y_i - mu_i)  =  (1 - tau) * sum_{y_i <= mu_i} w_i (mu_i - y_i)  +  se * b_j.            *)
Theorem C18_balance : forall tau se m j B Ptot ob b,
  List.Forall (fun r => length r = m) B -> length ob = length B -> length Ptot = m -> length b = m -> (j < m)%nat ->
  List.Forall (fun r => nth j r 0 = 1) B -> nth j Ptot [] = ridge_row Rrops m j se ->
  is_step Rfops m B (obs_w2 LIdentity DNormal (Some tau) 1 ob) Ptot (vaddR (matvecR B b) (obs_rr LIdentity 1 ob)) b ->
  tau * pos_sum Rrops ob = (1 - tau) * neg_sum Rrops ob + se * nth j b 0.
Proof. exact balance. Qed.
Print Assumptions C18_balance.

(* the working weight of the step model is the square of the GENERATED ExpectileGAM._W (swapping the y > mu / y <= mu
   branches, or not taking the square root of asym, breaks this) *)
Theorem C18_weights_are_generated : forall tau w y mu, 0 < tau < 1 -> 0 < w ->
  Gen_Expectile_W tau 1 1 w y mu * Gen_Expectile_W tau 1 1 w y mu = w2 Rfops LIdentity DNormal (Some tau) 1 w y mu.
Proof. exact Gen_Expectile_W_sq. Qed.
Print Assumptions C18_weights_are_generated.

(* expectile 1/2, exact part: the ExpectileGAM step with total penalty Ptot (= S + P) has the same solutions as the
   LinearGAM step with total penalty 2 Ptot (= 2 S + 2 P): doubled lam AND doubled ridge *)
Theorem C18_half_is_linear_doubled_penalty : forall m B Ptot ob z b,
  is_step Rfops m B (obs_w2 LIdentity DNormal (Some (1/2)) 1 ob) Ptot z b <->
  is_step Rfops m B (obs_w2 LIdentity DNormal None 1 ob) (mscaleR 2 Ptot) z b.
Proof. exact half_is_linear_doubled_penalty. Qed.
Print Assumptions C18_half_is_linear_doubled_penalty.
(* PARTIAL with respect to the property text ("reproduces the LinearGAM fit with doubled lam"): LinearGAM with doubled lam
   has total penalty S + 2 P, because the ridge S = sqrt(eps) I is not scaled by lam.  What holds exactly: an expectile-1/2
   solution b satisfies LinearGAM(2 lam)'s normal equations with defect S b (= sqrt(eps) b, about 1.5e-8 |b|):
       [B' w B + S + 2P] b + S b = B' w z.
   Missing: a bound on the resulting difference of fitted values (it is checked numerically, 1e-6 relative, every run). *)
Theorem C18_half_is_linear_2lam_partial : forall m B S P ob z b,
  length S = length P -> List.Forall2 (fun r s => length r = length s) S P ->
  is_step Rfops m B (obs_w2 LIdentity DNormal (Some (1/2)) 1 ob) (maddR S P) z b ->
  vaddR (neq_lhs Rfops m B (obs_w2 LIdentity DNormal None 1 ob) (maddR S (mscaleR 2 P)) b) (matvecR S b) =
  neq_rhs Rfops m B (obs_w2 LIdentity DNormal None 1 ob) z.
Proof. exact half_vs_doubled_lam. Qed.
Print Assumptions C18_half_is_linear_2lam_partial.

(* Bisection, EXACT real-number semantics of today's loop text (rnd = identity), for EVERY oracle `ratio` (ratio k = empirical
   quantile after k refits), every quantile, tol, budget and every starting expectile in (0,1), after any number of passes:
   (1) the expectile is strictly inside (0,1) and strictly inside the bracket, 0 <= min < expectile < max <= 1, so no refit is
       rejected by _validate_params; the stall exit `if expectile in (min_, max_): break` is never taken;
   (2) a pass that does not break moves the expectile strictly up (staying below max) when ratio < quantile and strictly down
       (staying above min) otherwise, the bracket strictly shrinks and the expectile is its midpoint;
   (3) with fuel max_iter the loop has stopped; it made at most max_iter refits, counted by n_iter; no earlier pass saw
       a ratio within tol; it stopped by `break` iff the current ratio is within tol, else exactly max_iter refits were made. *)
Theorem C18_bisect_invariant : forall quantile tol max_iter (ratio : nat -> R) e0, 0 < e0 < 1 ->
  (forall fuel, let s := fq_loop rid fuel quantile tol max_iter ratio (fq_init e0) in
                0 <= q_min s /\ q_min s < q_e s /\ q_e s < q_max s /\ q_max s <= 1 /\ 0 < q_e s < 1 /\ q_stalled s = false /\
                Gen_expectile_out_of_range (q_e s) = false) /\
  (forall s r, fq_inv s -> fq_running max_iter s = true -> Gen_fq_within_tol rid r quantile tol = false ->
     let s' := fq_body rid quantile tol r s in
     (r < quantile -> q_e s < q_e s' /\ q_e s' < q_max s /\ q_min s' = q_e s /\ q_max s' = q_max s) /\
     (quantile <= r -> q_e s' < q_e s /\ q_min s < q_e s' /\ q_max s' = q_e s /\ q_min s' = q_min s) /\
     (0 < tol -> r <> quantile) /\
     q_max s' - q_min s' < q_max s - q_min s /\ q_e s' = (q_max s' + q_min s') / 2 /\ q_refits s' = S (q_refits s)) /\
  (let s := fq_loop rid (Z.to_nat max_iter) quantile tol max_iter ratio (fq_init e0) in
   fq_running max_iter s = false /\
   (q_refits s <= Z.to_nat max_iter)%nat /\ q_n s = Z.of_nat (q_refits s) /\
   (forall j, (j < q_refits s)%nat -> Gen_fq_within_tol rid (ratio j) quantile tol = false) /\
   ((q_broke s = true /\ Gen_fq_within_tol rid (ratio (q_refits s)) quantile tol = true) \/
    (q_broke s = false /\ q_refits s = Z.to_nat max_iter))).
Proof. exact bisect_exact. Qed.
Print Assumptions C18_bisect_invariant.

(* The same loop when every arithmetic result is ROUNDED by a function `rnd` satisfying the IEEE contract (monotone, identity on the
   format, lands in the format, format closed under doubling, 0 and 1 representable) -- for every oracle, from a representable
   starting expectile in (0,1):
   (0) the new expectile of a bracket with representable ends is an end of the bracket or strictly inside it -- never outside;
   (1) the expectile stays strictly inside (0,1) (never rejected by _validate_params) and, until the stall exit is taken,
       strictly inside the bracket;
   (2) a pass that neither breaks nor stalls moves the expectile strictly toward the side indicated by ratio - quantile and strictly
       shrinks the bracket; a stalled pass changes neither expectile nor counters (nothing is stored or refitted);
   (3) exit: within tol, or the bracket cannot be halved any further (new value = an end), or exactly max_iter refits.
   This is where the repair of S11 shows: without the stall exit (0) would let the value 1.0 = max_ be stored. *)
Theorem C18_bisect_invariant_rounded : forall (rnd : R -> R) (fmt : R -> Prop),
  (forall x y, x <= y -> rnd x <= rnd y) -> (forall x, fmt x -> rnd x = x) -> (forall x, fmt (rnd x)) ->
  (forall x, fmt x -> fmt (2 * x)) -> fmt 0 -> fmt 1 ->
  forall quantile tol max_iter (ratio : nat -> R) e0, 0 < e0 < 1 -> fmt e0 ->
  (forall mn mx, fmt mn -> fmt mx -> mn <= mx ->
     let e' := Gen_fq_new_expectile rnd mn mx in (e' = mn \/ e' = mx) \/ (mn < e' < mx)) /\
  (forall fuel, let s := fq_loop rnd fuel quantile tol max_iter ratio (fq_init e0) in
                fq_inv s /\ 0 < q_e s < 1 /\ Gen_expectile_out_of_range (q_e s) = false) /\
  (forall s r, fq_invf fmt s -> fq_running max_iter s = true -> Gen_fq_within_tol rnd r quantile tol = false ->
     let s' := fq_body rnd quantile tol r s in
     (q_stalled s' = true -> q_e s' = q_e s /\ q_refits s' = q_refits s /\ q_n s' = q_n s /\
        Gen_fq_stall (Gen_fq_new_expectile rnd (q_min s') (q_max s')) (q_min s') (q_max s') = true) /\
     (q_stalled s' = false ->
        (r < quantile -> q_e s < q_e s' /\ q_e s' < q_max s /\ q_min s' = q_e s /\ q_max s' = q_max s) /\
        (quantile <= r -> q_e s' < q_e s /\ q_min s < q_e s' /\ q_max s' = q_e s /\ q_min s' = q_min s) /\
        q_max s' - q_min s' < q_max s - q_min s /\ q_e s' = Gen_fq_new_expectile rnd (q_min s') (q_max s') /\
        q_refits s' = S (q_refits s)) /\
     (0 < tol -> r <> quantile)) /\
  (let s := fq_loop rnd (Z.to_nat max_iter) quantile tol max_iter ratio (fq_init e0) in
   fq_running max_iter s = false /\
   (q_refits s <= Z.to_nat max_iter)%nat /\ q_n s = Z.of_nat (q_refits s) /\
   (forall j, (j < q_refits s)%nat -> Gen_fq_within_tol rnd (ratio j) quantile tol = false) /\
   ((q_broke s = true /\ q_stalled s = false /\ Gen_fq_within_tol rnd (ratio (q_refits s)) quantile tol = true) \/
    (q_broke s = false /\ q_stalled s = true /\ Gen_fq_within_tol rnd (ratio (q_refits s)) quantile tol = false /\
       Gen_fq_stall (Gen_fq_new_expectile rnd (q_min s) (q_max s)) (q_min s) (q_max s) = true) \/
    (q_broke s = false /\ q_stalled s = false /\ q_refits s = Z.to_nat max_iter))).
Proof. exact bisect_rounded. Qed.
Print Assumptions C18_bisect_invariant_rounded.

(* the contract is satisfied by binary64 round-to-nearest-even as formalised by Flocq (FLT, precision 53, emin -1074) *)
Theorem C18_binary64_rounding_contract :
  (forall x y, x <= y -> rnd64 x <= rnd64 y) /\ (forall x, fmt64 x -> rnd64 x = x) /\ (forall x, fmt64 (rnd64 x)) /\
  (forall x, fmt64 x -> fmt64 (2 * x)) /\ fmt64 0 /\ fmt64 1.
Proof. exact b64_contract. Qed.
Print Assumptions C18_binary64_rounding_contract.

(* the argument checks reject exactly quantile outside (0,1), tol <= 0, max_iter <= 0 *)
Theorem C18_bisect_arguments : forall quantile tol max_iter,
  (Gen_fq_bad_quantile quantile = false <-> 0 < quantile < 1) /\ (Gen_fq_bad_tol tol = false <-> 0 < tol) /\
  (Gen_fq_bad_max_iter max_iter = false <-> (0 < max_iter)%Z).
Proof. exact fq_args. Qed.
Print Assumptions C18_bisect_arguments.

(* binary64 as the kernel computes it (PrimFloat, bit-exact with CPython; closed computations).  The former S11 witness -- quantile
   0.999, tol 1e-9, budget 100, start 0.5, ratio stuck at 0 -- now stops through the stall exit after 52 refits with expectile
   1 - 2^-53 strictly inside (0,1), no ValueError: the 53rd midpoint rounds to exactly 1.0 = max_ and is neither stored nor fitted.
   Downward (quantile 0.001, ratio stuck at 1, budget 2000): stall exit after 1073 refits at 2^-1074.  Without the stall test the
   upward chain stores exactly 1.0 (third part; that was S11).  These are closed computations (no FloatAxioms); the universally
   quantified statement about the PrimFloat machine is C18_bisect_invariant_binary64 below. *)
Theorem C18_bisect_float_saturation_stops :
  (let s := w_run (Z.to_nat w_max_iter) in
   f_stalled s = true /\ f_raised s = false /\ f_broke s = false /\ f_refits s = 52%nat /\ f_n s = 52%Z /\
   PrimFloat.eqb (f_e s) 0x1.fffffffffffffp-1%float = true /\ f_inside (f_e s) = true /\
   PrimFloat.eqb (Gen_fq_new_expectile_f (f_min s) (f_max s)) 1%float = true /\ PrimFloat.eqb (f_max s) 1%float = true /\
   forallb f_inside (f_trace s) = true /\ length (f_trace s) = 52%nat) /\
  (f_stalled d_run = true /\ f_raised d_run = false /\ f_refits d_run = 1073%nat /\
   PrimFloat.eqb (f_e d_run) 0x0.0000000000001p-1022%float = true /\ f_inside (f_e d_run) = true /\
   PrimFloat.eqb (Gen_fq_new_expectile_f (f_min d_run) (f_max d_run)) 0%float = true /\
   forallb f_inside (f_trace d_run) = true) /\
  (f_inside (up_chain 52 0.5%float) = true /\ PrimFloat.eqb (up_chain 53 0.5%float) 1%float = true /\
   Gen_expectile_out_of_range_f (up_chain 53 0.5%float) = true).
Proof. split; [exact float_upward_chain_stops|split; [exact float_downward_chain_stops|exact float_unguarded_midpoint_reaches_one]]. Qed.
Print Assumptions C18_bisect_float_saturation_stops.

(* ---- the PrimFloat machine refines the Flocq-rounded real machine (uses Coq.Floats.FloatAxioms through Flocq.IEEE754.PrimFloat) ----
   FR x = B2R (Prim2B x): the real value of a primitive float;  fin x: x is finite (not NaN, not an infinity).
   For ALL finite binary64 min_, max_ with 0 <= min_ <= max_ <= 1 the value `(max_ + min_) / 2.0` computed by the generated PrimFloat
   loop body is, as a real, rnd64 (rnd64 (max_ + min_) / 2) with rnd64 = Flocq's binary64 round-to-nearest-even; it is finite (no
   overflow is possible in [0,2]) and it is an end of the bracket or strictly inside it.  NaN / infinite inputs are excluded by the
   hypotheses (finiteness and the range).
   Print Assumptions lists, besides the real-number axioms, classic and functional extensionality that Flocq brings, the standard
   library's FloatAxioms: add_spec, div_spec, Prim2SF_valid, SF2Prim_Prim2SF, Prim2SF_SF2Prim (and the float / int63 primitives). *)
Theorem C18_primfloat_midpoint_refines : forall mn mx : PrimFloat.float,
  fin mn -> fin mx -> 0 <= FR mn -> FR mn <= FR mx -> FR mx <= 1 ->
  FR (Gen_fq_new_expectile_f mn mx) = rnd64 (rnd64 (FR mx + FR mn) / 2) /\ fin (Gen_fq_new_expectile_f mn mx) /\
  let e' := FR (Gen_fq_new_expectile_f mn mx) in (e' = FR mn \/ e' = FR mx) \/ (FR mn < e' < FR mx).
Proof. exact midpoint_refines_full. Qed.
Print Assumptions C18_primfloat_midpoint_refines.

(* Universally quantified binary64 statement about the PrimFloat machine (the one replayed bit for bit against the implementation):
   for EVERY oracle history of finite ratios in [0,1], every finite quantile in [0,1], every finite tol, every budget and every finite
   starting expectile strictly inside (0,1):
   (1) at every point of the run no ValueError has been raised, the expectile and every value ever handed to set_params are strictly
       inside (0,1) as binary64 comparisons, the expectile is strictly inside the bracket until the stall exit is taken, and the
       state is -- field by field, as reals -- the state of the rounded-real machine of C18_bisect_invariant_rounded (step-by-step
       refinement), so every statement proved there (direction of each step, shrinking bracket) transfers;
   (2) with fuel max_iter the loop has stopped after at most max_iter refits, counted by n_iter; no earlier ratio was within tol; it
       stopped because the ratio is within tol, or because the new midpoint equals an end of the bracket, or after exactly max_iter
       refits.
   Excluded by hypothesis: NaN / infinite quantile, tol, ratios or starting expectile (e.g. quantile = NaN passes fit_quantile's
   own argument check; that is C11's concern).  FloatAxioms listed by Print Assumptions: add_spec, sub_spec, div_spec, abs_spec,
   eqb_spec, ltb_spec, leb_spec, Prim2SF_valid, SF2Prim_Prim2SF, Prim2SF_SF2Prim.
   Still by correspondence only: that CPython evaluates the loop as this PrimFloat machine does (bit-exact trace replay), and what
   the refits do to the ratio (oracle). *)
Theorem C18_bisect_invariant_binary64 : forall (quantile tol : PrimFloat.float) (max_iter : Z) (ratio : nat -> PrimFloat.float),
  (forall k, fin (ratio k) /\ 0 <= FR (ratio k) <= 1) -> fin quantile -> 0 <= FR quantile <= 1 -> fin tol ->
  forall e0, fin e0 -> 0 < FR e0 < 1 ->
  (forall fuel, let s := fqf_loop fuel quantile tol max_iter ratio (fqf_init e0) in
     f_raised s = false /\ f_inside (f_e s) = true /\ forallb f_inside (f_trace s) = true /\
     (f_stalled s = false -> PrimFloat.ltb (f_min s) (f_e s) = true /\ PrimFloat.ltb (f_e s) (f_max s) = true) /\
     absS s = fq_loop rnd64 fuel (FR quantile) (FR tol) max_iter (fun k => FR (ratio k)) (fq_init (FR e0))) /\
  (let s := fqf_loop (Z.to_nat max_iter) quantile tol max_iter ratio (fqf_init e0) in
   fqf_running max_iter s = false /\ (f_refits s <= Z.to_nat max_iter)%nat /\ f_n s = Z.of_nat (f_refits s) /\
   (forall j, (j < f_refits s)%nat -> Gen_fq_within_tol_f (ratio j) quantile tol = false) /\
   ((f_broke s = true /\ f_stalled s = false /\ Gen_fq_within_tol_f (ratio (f_refits s)) quantile tol = true) \/
    (f_broke s = false /\ f_stalled s = true /\ Gen_fq_within_tol_f (ratio (f_refits s)) quantile tol = false /\
       Gen_fq_stall_f (Gen_fq_new_expectile_f (f_min s) (f_max s)) (f_min s) (f_max s) = true) \/
    (f_broke s = false /\ f_stalled s = false /\ f_refits s = Z.to_nat max_iter))).
Proof. exact primfloat_bisect. Qed.
Print Assumptions C18_bisect_invariant_binary64.
