(* Props/C17.v -- property theorems only.  About the definitions GENERATED from GAM.sample, _sample_coef,
   _bootstrap_samples_of_smoothing, _simulate_coef_from_bootstraps, utils.load_diagonal (coq/Gen/Sample.v) and the generated
   sampler arguments of the families (coq/Gen/Dists.v).  np.random.choice / np.random.multivariate_normal / the family
   primitives are not modelled as random objects: the theorems say WHICH arguments they receive and WHERE their outputs go
   (`choice`, `out` are universally quantified outputs).  That NumPy's generators realise the named distributions is trusted. *)
From Coq Require Import Reals Lra String ZArith Bool List.
From PG Require Import Base.Ops Model.Intervals Model.Sample Gen.Dists Gen.Sample Proofs.C06 Proofs.C17.
Import ListNotations.
Open Scope R_scope.

(* one bootstrap (the refit loop runs range(1 - 1) = 0 times): exactly ONE call multivariate_normal(mean, cov, size) with
   mean = the fitted coefficients, size = n_draws, cov = load_diagonal(C, load = sqrt(EPS) * scale) for C = the reported covariance and
   scale = distribution.scale, i.e. C + 2^-26 * scale on the diagonal; the returned draws are the rows of that call's output, in order. *)
Theorem C17_mvn_args : forall (scale : R) (coef : list R) (cov : list (list R)) (choice : list nat) (n_draws : nat),
  (1 <= n_draws)%nat -> length choice = n_draws -> Forall (fun b => (b < 1)%nat) choice ->
  Gen_bootstrap_iterations 1 = 0%nat /\
  Gen_simulate_calls (fst (Gen_bootstrap_lists scale coef cov [])) (snd (Gen_bootstrap_lists scale coef cov [])) choice
    = [mk_mvn_call coef (Gen_load_diagonal scale cov) n_draws (seq 0 n_draws)] /\
  (forall i j, (i < length cov)%nat -> (j < length cov)%nat ->
     entry (Gen_load_diagonal scale cov) i j = entry cov i j + (if Nat.eqb i j then / 67108864 * scale else 0)) /\
  (forall c out, mc_rows c = seq 0 n_draws -> length out = n_draws -> Gen_coef_draws [c] [out] n_draws = out).
Proof. intros scale coef cov choice n_draws Hn Hl Hc.
  exact (conj one_bootstrap_iterations (conj (mvn_args_one scale coef cov choice n_draws Hn Hl Hc)
        (conj (load_diagonal_entry scale cov) (fun c out => assemble_one c out n_draws)))). Qed.
Print Assumptions C17_mvn_args.

(* "covariance = the reported coefficient covariance", as far as it holds: the reported covariance is scale * G (G = B B', C08/C01);
   the matrix handed to the sampler is scale * (G + 2^-26 I): relative to the scale the perturbation is exactly 2^-26 on the diagonal
   and 0 off it, whatever the units of the response *)
Theorem C17_mvn_cov_is_scale_times_gram_plus_2p26 : forall (scale : R) (G : nat -> nat -> R) (cov : list (list R)) (i j : nat),
  (i < length cov)%nat -> (j < length cov)%nat -> entry cov i j = scale * G i j ->
  entry (Gen_load_diagonal scale cov) i j = scale * (G i j + (if Nat.eqb i j then / 67108864 else 0)).
Proof. exact load_diagonal_scaled. Qed.
Print Assumptions C17_mvn_cov_is_scale_times_gram_plus_2p26.

(* simulated means: entry (d, i) = inverse link of (row i of the model matrix at sample_at_X) . (draw d); sample_at_X defaults to X *)
Theorem C17_mu_pipeline : forall (mu : R -> R) (MM CD : list (list R)) (d i : nat),
  (d < length CD)%nat -> (i < length MM)%nat ->
  nth i (nth d (Gen_mu_draws mu MM CD) []) 0 = mu (dotl (nth i MM []) (nth d CD []))
  /\ (forall (A : Type) (X : A), Gen_sample_at None X = X /\ forall Z, Gen_sample_at (Some Z) X = Z)
  /\ Gen_sample_returns "coef" = RetCoef /\ Gen_sample_returns "mu" = RetMu /\ Gen_sample_returns "y" = RetY.
Proof. intros mu MM CD d i Hd Hi.
  exact (conj (mu_draws_entry mu MM CD d i Hd Hi) (conj (fun A X => sample_at_default X) (conj eq_refl (conj eq_refl eq_refl)))). Qed.
Print Assumptions C17_mu_pipeline.

(* simulated responses: the family's NumPy primitive receives, entry by entry, the generated argument expression at the simulated
   mean; by the documented moments of that primitive (C06) the response has mean m and variance scale * V(m) at m = simulated mean *)
Theorem C17_y_pipeline :
  (forall (A : Type) (f : R -> A) (M : list (list R)) (d i : nat) (dA : A), (d < length M)%nat -> (i < length (nth d M []))%nat ->
     nth i (nth d (Gen_y_args f M) []) dA = f (nth i (nth d M []) 0)) /\
  (forall sc m, 0 < sc -> Gen_NormalDist_sample_mean sc 1 m = m /\ Gen_NormalDist_sample_var sc 1 m = sc * Gen_NormalDist_V0 1 m) /\
  (forall L m, 0 < L -> Gen_BinomialDist_sample_mean 1 L m = m /\ Gen_BinomialDist_sample_var 1 L m = 1 * Gen_BinomialDist_V0 L m) /\
  (forall m, Gen_PoissonDist_sample_mean 1 1 m = m /\ Gen_PoissonDist_sample_var 1 1 m = 1 * Gen_PoissonDist_V0 1 m) /\
  (forall sc m, 0 < sc -> Gen_GammaDist_sample_mean sc 1 m = m /\ Gen_GammaDist_sample_var sc 1 m = sc * Gen_GammaDist_V0 1 m) /\
  (forall sc m, 0 < sc -> Gen_InvGaussDist_sample_mean sc 1 m = m /\ Gen_InvGaussDist_sample_var sc 1 m = sc * Gen_InvGaussDist_V0 1 m).
Proof. exact (conj (@y_args_entry) (conj normal_sample (conj binom_sample (conj pois_sample (conj gamma_sample ig_sample))))). Qed.
Print Assumptions C17_y_pipeline.

(* shapes: coef (n_draws rows; with one bootstrap they are the rows of the sampler's output); mu and y: n_draws x number of query rows *)
Theorem C17_shapes : forall (mu : R -> R) (MM CD : list (list R)),
  (forall calls outs n, length (Gen_coef_draws calls outs n) = n) /\
  length (Gen_mu_draws mu MM CD) = length CD /\
  (forall d, (d < length CD)%nat -> length (nth d (Gen_mu_draws mu MM CD) []) = length MM) /\
  (forall (A : Type) (f : R -> A) (M : list (list R)), length (Gen_y_args f M) = length M /\
     forall d, (d < length M)%nat -> length (nth d (Gen_y_args f M) []) = length (nth d M [])) /\
  (forall scale cov, length (Gen_load_diagonal scale cov) = length cov /\ forall i, (i < length cov)%nat -> length (nth i (Gen_load_diagonal scale cov) []) = length cov).
Proof. intros mu MM CD.
  exact (conj coef_draws_length (conj (proj1 (mu_draws_shape mu MM CD)) (conj (proj2 (mu_draws_shape mu MM CD))
        (conj (fun A f M => y_args_shape f M) load_diagonal_shape)))). Qed.
Print Assumptions C17_shapes.

(* argument checks in execution order: unknown quantity -> ValueError (even on an unfitted model); unfitted -> AttributeError;
   n_bootstraps < 1 or n_draws < 1 -> ValueError; then, iff the source contains the validation block (generated flag
   Gen_sample_validates_data), invalid y / X / weights (`valid = false`) -> ValueError; otherwise the simulation runs.
   Proved for either value of the generated flag. *)
Theorem C17_rejects : forall (q : string) (fitted valid : bool) (nd nb : Z),
  let ok := (q = "coef"%string \/ q = "mu"%string \/ q = "y"%string) in
  let bad_data := (Gen_sample_validates_data = true /\ valid = false) in
  (run_checks Gen_sample_checks q fitted valid nd nb = SValueError <-> (~ ok \/ (fitted = true /\ ((nb < 1)%Z \/ (nd < 1)%Z \/ bad_data)))) /\
  (run_checks Gen_sample_checks q fitted valid nd nb = SAttributeError <-> (ok /\ fitted = false)) /\
  (run_checks Gen_sample_checks q fitted valid nd nb = SRun <-> (ok /\ fitted = true /\ (1 <= nb)%Z /\ (1 <= nd)%Z /\ ~ bad_data)).
Proof. exact rejects_iff. Qed.
Print Assumptions C17_rejects.

Example C17_example_choice : Forall (fun b => (b < 1)%nat) [0; 0; 0]%nat /\ length [0; 0; 0]%nat = 3%nat /\ (1 <= 3)%nat.
Proof. exact example_choice. Qed.
