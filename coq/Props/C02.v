(* Props/C02.v -- property theorems only.  Each is closed by `exact <lemma>` and followed by Print Assumptions.
   Statements are about the real instance of coq/Model/Predict.v (on top of coq/Model/Columns.v, C16):
     lp ts beta row       = GAM._linear_predictor(X)[row]                 (None = the code raises)
     pdep ts beta i row   = GAM.partial_dependence(i, X)[row]             (the intercept term: its coefficient)
     default_grid / mesh_grid = GAM.generate_X_grid / _flatten_mesh
   and about the plumbing generated from the source on every run (coq/Gen/Predict.v, coq/Gen/Links.v).
   No theorem has a range hypothesis on the feature values: extrapolation is covered (C02_extrapolation of DESIGN 7).
   Examples (hypotheses satisfiable): Proofs/C02Examples.v, Proofs/C02Transfer.v.                               *)
From Coq Require Import List Reals ZArith QArith Qreals.
From PG Require Import Base.Ops Base.Vec Model.BSpline Model.Columns Model.Predict Proofs.VecR Proofs.C16 Proofs.C16Transfer
  Proofs.C02 Proofs.C02Grid Proofs.C02Gen Proofs.C02Transfer Proofs.C02Examples Gen.Predict Gen.Links.
Import ListNotations.
Open Scope R_scope.

(* the linear predictor of a row is the sum over the terms, in term order, of the term's partial effect
   (dot of the term's columns with the term's coefficient slice) -- for every term list, coefficient vector and row;
   it is undefined (the code raises) exactly when some term's columns are *)
Theorem C02_additive : forall (ts : list (cterm R)) (beta row : list R),
  lp Rfops ts beta row = option_map (vsum Rrops) (pdeps Rfops ts beta row).
Proof. exact (fun ts beta row => lp_additive ts row beta). Qed.
Print Assumptions C02_additive.
Theorem C02_additive_terms : forall (ts : list (cterm R)) beta row l, lp Rfops ts beta row = Some l ->
  exists ps, length ps = length ts /\ (forall i, (i < length ts)%nat -> pdep Rfops ts beta i row = Some (nth i ps 0)) /\
             l = vsum Rrops ps.
Proof. exact additive_terms. Qed.
Print Assumptions C02_additive_terms.
Theorem C02_raises_iff_a_term_raises : forall (ts : list (cterm R)) beta row,
  lp Rfops ts beta row = None <-> exists i, (i < length ts)%nat /\ pdep Rfops ts beta i row = None.
Proof. exact lp_raises_iff. Qed.
Print Assumptions C02_raises_iff_a_term_raises.
(* the intercept term's partial effect is the intercept coefficient; with fit_intercept=True (an Intercept appended to
   the user's terms) lp = sum of the user terms' partial effects + the last coefficient *)
Theorem C02_intercept_is_coefficient : forall (ts : list (cterm R)) beta i row, nth i ts CIntercept = CIntercept ->
  pdep Rfops ts beta i row = Some (nth (coef_start ts i) beta 0).
Proof. exact intercept_pdep. Qed.
Print Assumptions C02_intercept_is_coefficient.
Theorem C02_additive_fit_intercept : forall (ts : list (cterm R)) beta row,
  lp Rfops (ts ++ [CIntercept]) beta row =
  option_map (fun ps => vsum Rrops ps + nth (total_coefs ts) beta 0) (pdeps Rfops ts beta row).
Proof. exact additive_fit_intercept. Qed.
Print Assumptions C02_additive_fit_intercept.

(* predict_mu / predict / partial_dependence as extracted from the source (Gen/Predict.v), instantiated with the column
   model: the predicted mean is the inverse link applied to the linear predictor, row by row; partial_dependence(i, X)
   is the partial effect; for the links of the six model classes link(predict_mu) is the linear predictor *)
Theorem C02_mu_is_inverse_link : forall ts beta (g : R -> R) x, length beta = total_coefs ts ->
  Gen_predict_mu id_ (m_build ts) (m_idx ts) m_take m_dot id_ (m_link g) (Some beta) x
  = option_map (map g) (all_some (map (lp Rfops ts beta) x)) /\
  Gen_predict id_ (m_build ts) (m_idx ts) m_take m_dot id_ (m_link g) (Some beta) x
  = option_map (map g) (all_some (map (lp Rfops ts beta) x)).
Proof. exact (fun ts beta g x L => conj (predict_mu_is_inverse_link ts beta g x L) (predict_mu_is_inverse_link ts beta g x L)). Qed.
Print Assumptions C02_mu_is_inverse_link.
Theorem C02_partial_dependence_is_term_effect : forall ts beta i x, length beta = total_coefs ts -> (i < length ts)%nat ->
  Gen_partial_dependence id_ (m_build ts) (m_idx ts) m_take m_dot id_ (Some beta) i x = all_some (map (pdep Rfops ts beta i) x).
Proof. exact partial_dependence_is_pdep. Qed.
Print Assumptions C02_partial_dependence_is_term_effect.
Theorem C02_link_of_prediction_is_lp : forall ts beta x mus, length beta = total_coefs ts ->
  (model_predict_mu ts beta (Gen_IdentityLink_mu 1) x = Some mus ->
     Some (map (Gen_IdentityLink_link 1) mus) = all_some (map (lp Rfops ts beta) x)) /\
  (model_predict_mu ts beta (Gen_LogLink_mu 1) x = Some mus ->
     Some (map (Gen_LogLink_link 1) mus) = all_some (map (lp Rfops ts beta) x)) /\
  (forall L, 0 < L -> model_predict_mu ts beta (Gen_LogitLink_mu L) x = Some mus ->
     Some (map (Gen_LogitLink_link L) mus) = all_some (map (lp Rfops ts beta) x)).
Proof. exact link_of_predict_mu. Qed.
Print Assumptions C02_link_of_prediction_is_lp.

(* locality: rows that agree on the feature(s) and by-variable(s) a term reads have equal columns and equal partial
   effect -- every term kind, tensor terms of any arity included *)
Theorem C02_locality : forall (ts : list (cterm R)) beta i r1 r2,
  (forall f, In f (term_reads (nth i ts CIntercept)) -> nth f r1 0 = nth f r2 0) ->
  block Rfops (nth i ts CIntercept) r1 = block Rfops (nth i ts CIntercept) r2 /\
  pdep Rfops ts beta i r1 = pdep Rfops ts beta i r2.
Proof. exact (fun ts beta i r1 r2 H => conj (block_local _ r1 r2 H) (pdep_local ts beta i r1 r2 H)). Qed.
Print Assumptions C02_locality.

(* default grids.  linspace: n points, first = ek0, last = ek1 (n >= 2), equally spaced *)
Theorem C02_grid_linspace : forall a b n,
  length (linspace Rfops a b n) = n /\
  (forall i, (i < n)%nat -> nth i (linspace Rfops a b n) 0 = a + INR i * ((b - a) / (INR n - 1))) /\
  ((1 <= n)%nat -> nth 0 (linspace Rfops a b n) 0 = a) /\
  ((2 <= n)%nat -> nth (n - 1) (linspace Rfops a b n) 0 = b) /\
  (forall i, (S i < n)%nat -> nth (S i) (linspace Rfops a b n) 0 - nth i (linspace Rfops a b n) 0 = (b - a) / (INR n - 1)).
Proof. exact (fun a b n => conj (linspace_length a b n) (conj (linspace_nth a b n) (conj (linspace_first a b n) (conj (linspace_last a b n) (linspace_step a b n))))). Qed.
Print Assumptions C02_grid_linspace.
(* non-tensor term: n rows; the feature column is the linspace over the term's edge knots, the by-column is 1, every
   other column is 0 *)
Theorem C02_grid : forall lin m n s g, (simple_feature s < m)%nat ->
  (forall j, simple_by s = Some j -> (j < m)%nat /\ j <> simple_feature s) ->
  default_grid Rfops lin m n (CSimple s) = Some g ->
  length g = n /\
  forall i, (i < n)%nat -> let row := nth i g [] in
    length row = m /\
    nth (simple_feature s) row 0 = nth i (linspace Rfops (fst (simple_ek lin s)) (snd (simple_ek lin s)) n) 0 /\
    (forall j, simple_by s = Some j -> nth j row 0 = 1) /\
    (forall c, c <> simple_feature s -> simple_by s <> Some c -> nth c row 0 = 0).
Proof. exact grid_simple. Qed.
Print Assumptions C02_grid.
(* k-way tensor term: n^k rows; row j1*n^(k-1) + ... + jk ('ij' mesh, C order) has the feature of marginal i equal to
   point j_i of that marginal's linspace, the by-column 1, every other column 0 *)
Theorem C02_grid_tensor : forall lin m n ms by_ g, default_grid Rfops lin m n (CTensor ms by_) = Some g ->
  NoDup (map simple_feature ms) -> Forall (fun s => (simple_feature s < m)%nat) ms ->
  (forall j, by_ = Some j -> (j < m)%nat /\ ~ In j (map simple_feature ms)) ->
  length g = (n ^ length ms)%nat /\
  forall js, length js = length ms -> Forall (fun j => (j < n)%nat) js -> let row := nth (ravel n js) g [] in
    length row = m /\
    (forall i, (i < length ms)%nat ->
       nth (simple_feature (nth i ms (SLinear O))) row 0 = nth (nth i js O) (axis Rfops lin n (nth i ms (SLinear O))) 0) /\
    (forall j, by_ = Some j -> nth j row 0 = 1) /\
    (forall c, ~ In c (map simple_feature ms) -> by_ <> Some c -> nth c row 0 = 0).
Proof. exact grid_tensor. Qed.
Print Assumptions C02_grid_tensor.
(* the facts extracted from generate_X_grid / _flatten_mesh on this run are the ones the model implements *)
Theorem C02_grid_source_facts : Gen_grid_facts = model_grid_facts.
Proof. exact grid_facts_ok. Qed.
Print Assumptions C02_grid_source_facts.

(* "any by-variable set to one": every term kind with a by-variable, meshgrid off (generate_X_grid) or on (_flatten_mesh),
   every row of the grid (the former S7 / S7b defects, repaired in /repo) *)
Theorem C02_grid_by_is_one : forall lin m n (t : cterm R) j, term_by t = Some j -> (j < m)%nat ->
  (forall g, default_grid Rfops lin m n t = Some g -> Forall (fun row => nth j row 0 = 1) g) /\
  Forall (fun row => nth j row 0 = 1) (mesh_grid Rfops lin m n t).
Proof. exact (fun lin m n t j Hb Hj => conj (fun g => default_grid_by_one lin m n t j g Hb Hj) (mesh_grid_by_one lin m n t j Hb Hj)). Qed.
Print Assumptions C02_grid_by_is_one.
(* for a non-tensor term the flattened meshgrid=True grid is the meshgrid=False grid *)
Theorem C02_grid_meshgrid_agrees : forall lin m n (s : simple R),
  default_grid Rfops lin m n (CSimple s) = Some (mesh_grid Rfops lin m n (CSimple s)).
Proof. exact simple_meshgrid_is_default_grid. Qed.
Print Assumptions C02_grid_meshgrid_agrees.
(* consequently partial_dependence(i) without X -- meshgrid False or True -- is at every grid row the effect of the term
   with its by-variable removed, i.e. the term evaluated at by = 1: dot of the by-free columns with the term's
   coefficient slice *)
Theorem C02_default_pdep_is_effect_at_by_one : forall lin m n (ts : list (cterm R)) beta i,
  (forall j, term_by (nth i ts CIntercept) = Some j -> (j < m)%nat) ->
  pdep_default Rfops lin m n ts beta i =
    option_map (map (fun row => option_map (fun b => dot Rrops b (term_coefs ts beta i)) (block Rfops (drop_by (nth i ts CIntercept)) row)))
               (default_grid Rfops lin m n (nth i ts CIntercept)) /\
  pdep_meshgrid Rfops lin m n ts beta i =
    map (fun row => option_map (fun b => dot Rrops b (term_coefs ts beta i)) (block Rfops (drop_by (nth i ts CIntercept)) row))
        (mesh_grid Rfops lin m n (nth i ts CIntercept)).
Proof. exact default_pdep_is_effect_at_by_one. Qed.
Print Assumptions C02_default_pdep_is_effect_at_by_one.
(* at by = 1 a term's columns are those of the same term without its by-variable *)
Theorem C02_by_one_is_no_by : forall (t : cterm R) j row, term_by t = Some j -> nth j row 0 = 1 ->
  block Rfops t row = block Rfops (drop_by t) row.
Proof. exact block_at_by_one. Qed.
Print Assumptions C02_by_one_is_no_by.

(* user-supplied meshes: partial_dependence(term, X=<tuple of mesh arrays>, meshgrid=True) evaluates on _flatten_mesh(X): one
   row per mesh point (C order) holding the point's coordinates -- as real numbers, whatever the arrays' dtype -- in the
   marginals' feature columns, by-column 1, zeros elsewhere; the default mesh grid is the instance with the linspace axes *)
Theorem C02_user_mesh : forall m (t : cterm R) axes,
  length (user_mesh_grid Rfops m t axes) = length (mesh axes) /\
  (forall j, term_by t = Some j -> (j < m)%nat -> Forall (fun row => nth j row 0 = 1) (user_mesh_grid Rfops m t axes)) /\
  (forall c, ~ In c (map simple_feature (term_marginals t)) -> term_by t <> Some c ->
     Forall (fun row => nth c row 0 = 0) (user_mesh_grid Rfops m t axes)) /\
  (NoDup (map simple_feature (term_marginals t)) -> Forall (fun s => (simple_feature s < m)%nat) (term_marginals t) ->
   (forall j, term_by t = Some j -> ~ In j (map simple_feature (term_marginals t))) -> length axes = length (term_marginals t) ->
   forall r i, (r < length (mesh axes))%nat -> (i < length (term_marginals t))%nat ->
     nth (simple_feature (nth i (term_marginals t) (SLinear O))) (nth r (user_mesh_grid Rfops m t axes) []) 0 = nth i (nth r (mesh axes) []) 0).
Proof. exact user_mesh_rows. Qed.
Print Assumptions C02_user_mesh.
Theorem C02_default_mesh_is_user_mesh : forall lin m n (t : cterm R),
  mesh_grid Rfops lin m n t = user_mesh_grid Rfops m t (map (axis Rfops lin n) (term_marginals t)).
Proof. exact mesh_grid_is_user_mesh. Qed.
Print Assumptions C02_default_mesh_is_user_mesh.

(* the rational instance evaluated by the correspondence check denotes the real instance *)
Theorem C02_model_transfer : forall (ts : list (cterm Q)) (beta row : list Q) i lin m n,
  lp Rfops (map cterm_Q2R ts) (map Q2R beta) (map Q2R row) = option_map Q2R (lp Qfops ts beta row) /\
  pdep Rfops (map cterm_Q2R ts) (map Q2R beta) i (map Q2R row) = option_map Q2R (pdep Qfops ts beta i row) /\
  default_grid Rfops (lin_Q2R lin) m n (cterm_Q2R (nth i ts CIntercept)) =
    option_map (map (map Q2R)) (default_grid Qfops lin m n (nth i ts CIntercept)).
Proof. exact (fun ts beta row i lin m n => conj (lp_Q2R ts beta row) (conj (pdep_Q2R ts beta i row) (default_grid_Q2R lin m n _))). Qed.
Print Assumptions C02_model_transfer.
