(* Props/C13.v -- property theorems (list / real side) *)
From Coq Require Import List Reals Lra.
From PG Require Import Base.Ops Base.Vec Model.Pirls Proofs.VecR Proofs.C04 Proofs.C04b Proofs.C01 Proofs.C13.
Import ListNotations.
Open Scope R_scope.

(* As stated in the property -- "increasing ANY smoothing parameter never decreases the weighted residual sum of squares" --
   is mathematically FALSE as soon as another penalised term is present: exact rational witness on the step model.
   (Known finding S12: no code repair can remove it; what is true is C13_lam_tradeoff in Props/C13Alg.v.) *)
Theorem C13_rss_monotone_each_refuted :
  exists B w z P1 P2 l2 la lb ba bb,
    la < lb /\ 0 <= la /\ psd P1 2 /\ psd P2 2 /\
    is_step Rfops 2 B w (Ptot2 la l2 P1 P2) z ba /\
    is_step Rfops 2 B w (Ptot2 lb l2 P1 P2) z bb /\
    rss B w z bb < rss B w z ba.
Proof. exact rss_monotone_each_refuted. Qed.
Print Assumptions C13_rss_monotone_each_refuted.

(* at lam = 0 the penalty drops out of the normal equations: unpenalised weighted least squares on the basis (plus what
   else is in S: the sqrt(eps) ridge and the other terms' penalties) *)
Theorem C13_lam0 : forall m B W2 S P b, square S m -> square P m -> length b = m ->
  neq_lhs Rfops m B W2 (maddR S (mscaleR 0 P)) b = neq_lhs Rfops m B W2 S b.
Proof. exact lam0_step. Qed.
Print Assumptions C13_lam0.
