(* Props/C12.v -- property theorems only.  Each is closed by `exact <lemma>` and followed by Print Assumptions.
   Objects: Model/Pirls.v (the PIRLS step = penalised normal equations  B'(W2 o (B b)) + Ptot b = B'(W2 o z), real instance),
   Model/Invariance.v (a training set as ONE list of combined rows (B_i, W2_i, z_i): rB / rW / rZ are its three columns,
   rows_lhs / rows_rhs / rows_step the normal equations over it; edof_rows sol = sum_i W2_i * B_i . sol(B_i) = tr of the
   influence matrix when sol solves the normal-equation operator; weighted / replicated; compile_spline; map_cterm = change
   of units of one feature on compiled terms), Model/Columns.v (model-matrix rows), Gen/Dists.v + Gen/Stats.v (Gen_phi,
   Gen_pearson, Gen_GCV, Gen_NormalDist_*: GENERATED from the source on every run).
   Hypotheses are satisfiable: Proofs/C12Perm.v (ex_wellformed, ex_solves, ex_perm, ex_step: ridge penalty, explicit solver),
   Proofs/C12Lin.v (ridge_pdef: c I is positive definite for every size), Proofs/C12Affine.v (ex_affine_hyps, map_row_nth),
   Proofs/C12Stats.v (ex_wald). *)
From Coq Require Import List Reals Permutation.
From PG Require Import Base.Ops Base.Vec Model.BSpline Model.Columns Model.Pirls Model.Invariance Proofs.VecR Proofs.C04 Proofs.C01
  Proofs.C12Lin Proofs.C12Perm Proofs.C12Traj Proofs.C12Affine Proofs.C12Stats Proofs.C12Main Proofs.C16 Gen.Dists Gen.Stats.
Import ListNotations.
Open Scope R_scope.

(* Uniqueness (no hypothesis beyond what pyGAM's matrices satisfy): rows of B of width m, non-negative working weights and a
   positive definite total penalty (pyGAM adds S = sqrt(eps) I to every penalty; ridge_pdef) make the normal-equation operator
   injective, so "the same set of solutions" below means "the same fit". *)
Theorem C12_normal_equations_unique : forall m B W2 Ptot b1 b2,
  Forall (fun r => length r = m) B -> length W2 = length B -> length Ptot = m ->
  Forall (fun w => 0 <= w) W2 -> pdef Ptot m -> length b1 = m -> length b2 = m ->
  neq_lhs Rfops m B W2 Ptot b1 = neq_lhs Rfops m B W2 Ptot b2 -> b1 = b2.
Proof. exact neq_lhs_injective. Qed.
Print Assumptions C12_normal_equations_unique.

(* Row order.  For ANY permutation of the combined rows (every family, link, weight vector; all n, m): the Gram side
   B'(W2 o (B b)) and the right-hand side B'(W2 o z) are the same vectors, hence b solves the step of the permuted data iff it
   solves the original step; the linear predictor of the permuted data is the permuted linear predictor; the sum of leverages
   (edof) is the same. *)
Theorem C12_permutation : forall m (rows rows' : list (@trow R)) Ptot b, Permutation rows rows' ->
  Bt_mul Rfops m (rB rows) (vmul Rfops (rW rows) (matvecR (rB rows) b)) = Bt_mul Rfops m (rB rows') (vmul Rfops (rW rows') (matvecR (rB rows') b)) /\
  Bt_mul Rfops m (rB rows) (vmul Rfops (rW rows) (rZ rows)) = Bt_mul Rfops m (rB rows') (vmul Rfops (rW rows') (rZ rows')) /\
  (rows_step Rfops m rows Ptot b <-> rows_step Rfops m rows' Ptot b) /\
  Permutation (matvecR (rB rows) b) (matvecR (rB rows') b) /\
  (forall sol, edof_rows Rfops sol rows = edof_rows Rfops sol rows').
Proof. exact permutation_main. Qed.
Print Assumptions C12_permutation.
(* ... and with a positive definite operator the two fits (each with its own solution b, b' and its own factorisation
   sol, sol') have equal coefficients, fitted values equal up to the permutation, equal edof. *)
Theorem C12_permutation_same_fit : forall m (rows rows' : list (@trow R)) Ptot b b' sol sol', Permutation rows rows' -> wellformed m rows Ptot ->
  length b = m -> length b' = m -> rows_step Rfops m rows Ptot b -> rows_step Rfops m rows' Ptot b' ->
  solves m rows Ptot sol -> solves m rows' Ptot sol' ->
  b = b' /\ Permutation (matvecR (rB rows) b) (matvecR (rB rows') b') /\ edof_rows Rfops sol rows = edof_rows Rfops sol' rows'.
Proof. exact permutation_unique_fit. Qed.
Print Assumptions C12_permutation_same_fit.

(* Equivalent weight encodings.  A row of working weight k*w (k a natural number; for the normal/identity step the working
   weight IS the sample weight, C01_normal_identity_closed_form) contributes to both sides of the normal equations what k
   copies of weight w contribute: same equations, same solutions; its leverage is k times the leverage of one copy, so the edof
   is the same.  All n, m, all multiplicities including 0. *)
Theorem C12_weights_replication : forall m (rk : list (@trow R * nat)) Ptot b,
  Forall (fun p : @trow R * nat => length (fst (fst (fst p))) = m) rk ->
  rows_lhs Rfops m (weighted Rfops rk) Ptot b = rows_lhs Rfops m (replicated rk) Ptot b /\
  rows_rhs Rfops m (weighted Rfops rk) = rows_rhs Rfops m (replicated rk) /\
  (rows_step Rfops m (weighted Rfops rk) Ptot b <-> rows_step Rfops m (replicated rk) Ptot b) /\
  (forall sol, edof_rows Rfops sol (weighted Rfops rk) = edof_rows Rfops sol (replicated rk)) /\
  (forall sol t k, leverage Rfops sol (fst (fst t), rmul Rrops (ofnat Rfops k) (snd (fst t)), snd t) = INR k * leverage Rfops sol t).
Proof. exact replication_main. Qed.
Print Assumptions C12_weights_replication.
Theorem C12_weights_replication_same_fit : forall m (rk : list (@trow R * nat)) Ptot b b' sol sol',
  Forall (fun p : @trow R * nat => length (fst (fst (fst p))) = m) rk -> wellformed m (replicated rk) Ptot ->
  length b = m -> length b' = m -> rows_step Rfops m (weighted Rfops rk) Ptot b -> rows_step Rfops m (replicated rk) Ptot b' ->
  solves m (weighted Rfops rk) Ptot sol -> solves m (replicated rk) Ptot sol' ->
  b = b' /\ edof_rows Rfops sol (weighted Rfops rk) = edof_rows Rfops sol' (replicated rk).
Proof. exact replication_unique_fit. Qed.
Print Assumptions C12_weights_replication_same_fit.
(* From one step to whole PIRLS runs (every family / link / expectile: the rows (B_i, W2_i, z_i) are rebuilt from the entering
   coefficients by ANY row-wise rule mk; traj = list of iterates, each solving the step built from the previous one).
   Permuted data: the same iterates from the same start.  (pyGAM's start, _initial_estimate, is itself the solution of a
   row-sum normal equation, so C12_permutation_same_fit applies to it as well.) *)
Theorem C12_permutation_every_iterate : forall (D : Type) (mk : list R -> D -> @trow R) m Ptot data data' bs bs', Permutation data data' ->
  (forall b, length b = m -> wellformed m (map (mk b) data) Ptot) ->
  traj m Ptot (fun b => map (mk b) data) bs -> traj m Ptot (fun b => map (mk b) data') bs' ->
  length bs = length bs' -> hd [] bs = hd [] bs' -> bs = bs'.
Proof. exact @perm_trajectory. Qed.
Print Assumptions C12_permutation_every_iterate.
(* Replication with pyGAM's working rows (mkrow: W2 = asym w / (g'^2 V), z = lp + (y - mu) g', mu = ginv(B_i . b) for any inverse
   link ginv): a data row (B_i, k w_i, y_i) against k copies of (B_i, w_i, y_i): every step has the same solutions (hence the same
   fixed points = converged fits), and the runs coincide when started from the same coefficients.
   _partial: pyGAM's starting value (_initial_estimate) ignores the sample weights, so the weighted and the replicated run do
   NOT start from the same coefficients; only their fixed points coincide (first conjunct).  That PIRLS converges to the fixed
   point is not proved (DESIGN C01 Partial); the harness compares converged fits. *)
Theorem C12_weights_replication_every_iterate_partial : forall ginv l d tau L m Ptot (dk : list ((list R * R * R) * nat)),
  Forall (fun p : (list R * R * R) * nat => length (fst (fst (fst p))) = m) dk ->
  (forall b b1, rows_step Rfops m (map (mkrow ginv l d tau L b) (wdata dk)) Ptot b1 <-> rows_step Rfops m (map (mkrow ginv l d tau L b) (rdata dk)) Ptot b1) /\
  ((forall b, length b = m -> wellformed m (map (mkrow ginv l d tau L b) (wdata dk)) Ptot) ->
   forall bs bs', traj m Ptot (fun b => map (mkrow ginv l d tau L b) (wdata dk)) bs -> traj m Ptot (fun b => map (mkrow ginv l d tau L b) (rdata dk)) bs' ->
   length bs = length bs' -> hd [] bs = hd [] bs' -> bs = bs').
Proof. exact (fun ginv l d tau L m Ptot dk HF => conj (fun b b1 => repl_pirls_step ginv l d tau L m Ptot dk b b1 HF)
                                                     (fun WF bs bs' => repl_trajectory ginv l d tau L m Ptot dk bs bs' HF WF)). Qed.
Print Assumptions C12_weights_replication_every_iterate_partial.

(* Feature units.  Default edge knots are (min, max) of the training column, which move with the data under x -> a x + b,
   a > 0; so compiling a spline term on the mapped column gives the term with mapped knots; a non-constant column has
   distinct knots. *)
Theorem C12_edge_knots_equivariant : forall a b f n k p by_ col, 0 < a ->
  gen_edge_knots Rfops false (map (amap Rfops a b) col) =
    option_map (fun e => (amap Rfops a b (fst e), amap Rfops a b (snd e))) (gen_edge_knots Rfops false col) /\
  compile_spline Rfops f n k p by_ (map (amap Rfops a b) col) = option_map (map_simple Rfops f a b) (compile_spline Rfops f n k p by_ col) /\
  (forall lo hi x y, gen_edge_knots Rfops false col = Some (lo, hi) -> In x col -> In y col -> x <> y -> lo <> hi).
Proof. exact affine_compile. Qed.
Print Assumptions C12_edge_knots_equivariant.
(* The model-matrix row of every sample -- training row or query point, inside or outside the knot range, periodic or not --
   is unchanged when feature f of the sample and the edge knots of the spline terms / spline marginals of tensor terms on f are
   mapped by x -> a x + b, for term lists in which f is used by no linear term, factor term or by-variable (intercept, other
   features' terms of any kind, by-variables other than f, tensor terms with any number of marginals are all allowed).
   Equal rows for all samples mean equal normal equations, fits, predictions and edof.
   _partial: requires the two edge knots of the spline terms on f to be distinct (C03_affine_invariance_partial: for equal
   knots, i.e. a constant training column, the code replaces the scale 0 by 1 and the basis of a query point off that constant
   is NOT invariant under rescaling: C03_affine_invariance_equal_knots_refuted).  Terms with dtype='categorical' (knots widened
   by 1/2) and user-supplied edge_knots (not mapped by pyGAM, the user would have to map them) are outside the statement. *)
Theorem C12_affine_partial : forall f a b (ts : list (cterm R)) row row', 0 < a ->
  Forall (fun t => only_spline f t = true /\ knots_distinct f t) ts ->
  nth f row' 0 = a * nth f row 0 + b -> (forall j, j <> f -> nth j row' 0 = nth j row 0) ->
  row_blocks Rfops (map (map_cterm Rfops f a b) ts) row' = row_blocks Rfops ts row.
Proof. exact affine_main. Qed.
Print Assumptions C12_affine_partial.
(* end to end for one spline term: compile on the mapped column, evaluate on the mapped sample *)
Theorem C12_affine_spline_term_partial : forall a b f n k p by_ col s row row', 0 < a -> by_not f by_ = true ->
  compile_spline Rfops f n k p by_ col = Some s -> (exists x y, In x col /\ In y col /\ x <> y) ->
  nth f row' 0 = a * nth f row 0 + b -> (forall j, j <> f -> nth j row' 0 = nth j row 0) ->
  exists s', compile_spline Rfops f n k p by_ (map (amap Rfops a b) col) = Some s' /\ block_simple Rfops s' row' = block_simple Rfops s row.
Proof. exact affine_spline_term. Qed.
Print Assumptions C12_affine_spline_term_partial.

(* LinearGAM.  The normal/identity step has W2 = sample weights and z = y (generated link gradient / variance function) ... *)
Theorem C12_normal_identity_step : forall m B Ptot (ob : list (R * R * R)) b,
  is_step Rfops m B (obs_w2 LIdentity DNormal None 1 ob) Ptot (map (fun t => zpd Rfops LIdentity 1 (snd t) (snd (fst t)) (snd t)) ob) b
  <-> is_step Rfops m B (map (fun t => fst (fst t)) ob) Ptot (map (fun t => snd (fst t)) ob) b.
Proof. exact normal_identity_step. Qed.
Print Assumptions C12_normal_identity_step.
(* ... so solutions add and scale with the response, and so do the fitted values (identity link) *)
Theorem C12_linear_in_y : forall m B w Ptot y1 y2 b1 b2 c,
  Forall (fun r => length r = m) B -> length b1 = length b2 -> length y1 = length y2 ->
  is_step Rfops m B w Ptot y1 b1 -> is_step Rfops m B w Ptot y2 b2 ->
  is_step Rfops m B w Ptot (vaddR y1 y2) (vaddR b1 b2) /\ is_step Rfops m B w Ptot (vscaleR c y1) (vscaleR c b1) /\
  matvecR B (vaddR b1 b2) = vaddR (matvecR B b1) (matvecR B b2) /\ matvecR B (vscaleR c b1) = vscaleR c (matvecR B b1).
Proof. exact linear_in_y_main. Qed.
Print Assumptions C12_linear_in_y.
(* edof is determined by (B, w, Ptot): two training sets with the same model matrix and weights and ANY responses have the
   same edof, each computed with its own solver *)
Theorem C12_edof_response_free : forall m (rows rows' : list (@trow R)) Ptot sol sol', rB rows = rB rows' -> rW rows = rW rows' ->
  wellformed m rows' Ptot -> solves m rows Ptot sol -> solves m rows' Ptot sol' -> edof_rows Rfops sol rows = edof_rows Rfops sol' rows'.
Proof. exact edof_response_free. Qed.
Print Assumptions C12_edof_response_free.
(* y -> c y (so mu -> c mu by C12_linear_in_y, edof unchanged): the estimated scale (generated Gen_phi: Pearson / (n - edof)),
   the GCV score (generated Gen_GCV on the generated normal deviance) and the covariance scale * Binv Binv' are multiplied
   by c^2.  (A user-supplied scale is not rescaled: phi_known_scale_fixed; the c^2 law is about the estimated scale.) *)
Theorem C12_linear_in_y_statistics : forall L c s s' edof gamma n ws ys mus Binv,
  Gen_phi false s (Gen_NormalDist_V0 L) edof ws (vscaleR c ys) (vscaleR c mus) = c * c * Gen_phi false s (Gen_NormalDist_V0 L) edof ws ys mus /\
  Gen_GCV gamma n (normal_dev_sum s' L ws (vscaleR c ys) (vscaleR c mus)) edof = c * c * Gen_GCV gamma n (normal_dev_sum s L ws ys mus) edof /\
  mscaleR (c * c * s) (gramR Binv) = mscaleR (c * c) (mscaleR s (gramR Binv)).
Proof. exact linear_in_y_statistics. Qed.
Print Assumptions C12_linear_in_y_statistics.
(* Wald statistic of a term, coef' cov^-1 coef, with the inverse given through solutions: (c b)' (c^2 K)^-1 (c b) = b' K^-1 b for
   symmetric K, c <> 0; for singular K with b in its range the value does not depend on the solution chosen (= b' K^+ b).
   _partial: pyGAM uses scipy.linalg.pinv with a numerical rank; a coefficient block outside the range of its covariance block
   (projected by the pseudo-inverse) and the rank decision itself are not modelled; the p-value is a function of the score,
   the rank and n - edof, compared by the harness. *)
Theorem C12_wald_invariant_partial : forall n K b a a' c, bisym K n -> length a = n -> length a' = n -> c <> 0 ->
  matvecR K a = b -> matvecR (mscaleR (c * c) K) a' = vscaleR c b -> dotR (vscaleR c b) a' = dotR b a.
Proof. exact wald_invariant. Qed.
Print Assumptions C12_wald_invariant_partial.
Theorem C12_wald_solution_independent : forall n K b a1 a2, bisym K n -> length a1 = n -> length a2 = n ->
  matvecR K a1 = b -> matvecR K a2 = b -> dotR b a1 = dotR b a2.
Proof. exact wald_solution_independent. Qed.
Print Assumptions C12_wald_solution_independent.
