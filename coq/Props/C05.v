(* Props/C05.v -- property theorems only.  Each is closed by `exact <lemma>` and followed by Print Assumptions. *)
From Coq Require Import List Reals.
From PG Require Import Base.Ops Base.Vec Model.Constraints Proofs.VecR Proofs.C05.
Import ListNotations.
Open Scope R_scope.

(* quad (C(beta)) beta = sum over the violating positions of the squared first (monotone) / second (convex, concave)
   differences; `viols c beta` is the list of the negative (inc, convex) resp. positive (dec, concave) differences *)
Theorem C05_quadform : forall c n beta, length beta = n ->
  quadR (con_matrix Rrops n beta c) beta = sumsqR (viols c beta).
Proof. exact con_quadform. Qed.
Print Assumptions C05_quadform.

Theorem C05_psd : forall c n beta v, length beta = n -> length v = n -> 0 <= quadR (con_matrix Rrops n beta c) v.
Proof. exact con_psd. Qed.
Print Assumptions C05_psd.

Theorem C05_sym : forall c n beta i j,
  nth j (nth i (con_matrix Rrops n beta c) []) 0 = nth i (nth j (con_matrix Rrops n beta c) []) 0.
Proof. exact con_sym. Qed.
Print Assumptions C05_sym.

Theorem C05_zero_iff : forall c n beta, length beta = n ->
  (quadR (con_matrix Rrops n beta c) beta = 0 <-> satisfies c beta).
Proof. exact con_zero_iff. Qed.
Print Assumptions C05_zero_iff.
