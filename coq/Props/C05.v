(* Props/C05.v -- property theorems only.  Each is closed by `exact <lemma>` and followed by Print Assumptions.
   Notation (Proofs/C05.v): con_order c = 1 (monotone) / 2 (convex, concave); viols c beta = the list of the violating
   (negative for inc/convex, positive for dec/concave; STRICT, ties are not violations) con_order-th differences of beta;
   satisfies c beta = all those differences have the right sign (>= 0 resp. <= 0);
   con_form c beta v = sum over the positions violating IN beta of the squared differences OF v. *)
From Coq Require Import List Reals QArith Qreals.
From PG Require Import Base.Ops Base.Vec Model.BSpline Model.Constraints Proofs.VecR Proofs.C03Basis Proofs.C03Row Proofs.C05 Proofs.C05Bound Proofs.C05Fibres
  Proofs.C05ShapeDeriv Proofs.C05ShapeSum Proofs.C05ShapeModel Proofs.C05ShapeMono Proofs.C05ShapeConvex Proofs.C05ShapeFinal
  Proofs.C05TensorSum Proofs.C05TensorShape Proofs.C05TensorQuad Proofs.C05TensorFinal.
Import ListNotations.
Open Scope R_scope.

(* ---- one constraint matrix  penalties.monotonic_inc/dec, convex, concave, none ---- *)
Theorem C05_quadform : forall c n beta, length beta = n ->
  quadR (con_matrix Rrops n beta c) beta = sumsqR (viols c beta).
Proof. exact con_quadform. Qed.
Print Assumptions C05_quadform.

Theorem C05_quadform_any_vector : forall c n beta v, length beta = n -> length v = n ->
  quadR (con_matrix Rrops n beta c) v = con_form c beta v.
Proof. exact con_quadform_gen. Qed.
Print Assumptions C05_quadform_any_vector.

Theorem C05_psd : forall c n beta v, length beta = n -> length v = n -> 0 <= quadR (con_matrix Rrops n beta c) v.
Proof. exact con_psd. Qed.
Print Assumptions C05_psd.

Theorem C05_sym : forall c n beta i j,
  nth j (nth i (con_matrix Rrops n beta c) []) 0 = nth i (nth j (con_matrix Rrops n beta c) []) 0.
Proof. exact con_sym. Qed.
Print Assumptions C05_sym.

Theorem C05_zero_iff : forall c n beta, length beta = n ->
  (quadR (con_matrix Rrops n beta c) beta = 0 <-> satisfies c beta).
Proof. exact con_zero_iff. Qed.
Print Assumptions C05_zero_iff.

(* satisfies, in index form: all consecutive differences of l have property P *)
Theorem C05_satisfies_index_form : forall (P : R -> Prop) l,
  Forall P (diffR l) <-> (forall i, (S i < length l)%nat -> P (nth (S i) l 0 - nth i l 0)).
Proof. exact Forall_diff_iff. Qed.
Print Assumptions C05_satisfies_index_form.

(* a satisfied constraint (ties included) contributes the ZERO matrix *)
Theorem C05_satisfied_zero_matrix : forall c n beta, satisfies c beta -> allzero (con_matrix Rrops n beta c).
Proof. exact con_satisfied_zero. Qed.
Print Assumptions C05_satisfied_zero_matrix.

(* ---- Term.build_constraints: sum over the term's constraints, times constraint_lam, plus the constraint_l2 ridge iff non-zero ---- *)
Theorem C05_term_quadform : forall n beta cons clam cl2, length beta = n ->
  quadR (term_constraints Rrops n beta cons clam cl2) beta =
    clam * rsum (map (fun c => sumsqR (viols c beta)) cons)
    + (if any_nonzero Rrops (constraint_sum Rrops n beta cons clam) then cl2 * sumsqR beta else 0).
Proof. exact term_quadform. Qed.
Print Assumptions C05_term_quadform.

Theorem C05_term_psd : forall n beta cons clam cl2 v, length beta = n -> length v = n -> 0 <= clam -> 0 <= cl2 ->
  0 <= quadR (term_constraints Rrops n beta cons clam cl2) v.
Proof. exact term_psd. Qed.
Print Assumptions C05_term_psd.

Theorem C05_term_sym : forall n beta cons clam cl2 u v, length u = n -> length v = n ->
  dotR u (matvecR (term_constraints Rrops n beta cons clam cl2) v) = dotR v (matvecR (term_constraints Rrops n beta cons clam cl2) u).
Proof. exact term_bisym. Qed.
Print Assumptions C05_term_sym.

Theorem C05_term_zero_iff : forall n beta cons clam cl2, length beta = n -> 0 < clam -> 0 <= cl2 ->
  (quadR (term_constraints Rrops n beta cons clam cl2) beta = 0 <-> Forall (fun c => satisfies c beta) cons).
Proof. exact term_zero_iff. Qed.
Print Assumptions C05_term_zero_iff.

Theorem C05_term_satisfied_zero_matrix : forall n beta cons clam cl2, Forall (fun c => satisfies c beta) cons ->
  allzero (term_constraints Rrops n beta cons clam cl2).
Proof. exact term_satisfied_zero. Qed.
Print Assumptions C05_term_satisfied_zero_matrix.

(* ---- tensor terms: the slices enumerated by TensorTerm._iterate_marginal_coef_slices ---- *)
Theorem C05_tensor_fibres : forall dims i, (i < length dims)%nat ->
  (* they partition the coefficient block ... *)
  Permutation.Permutation (concat (fibres dims i)) (seq 0 (nprod dims)) /\
  (* ... and each is an axis-i line of the C-order coefficient tensor: a multi-index with the i-th component running *)
  (forall f, In f (fibres dims i) -> exists idx, length idx = length dims /\
       (forall k, (k < nth i dims O)%nat -> Forall2 (fun j d => (j < d)%nat) (set_nth idx i k) dims) /\
       f = map (fun k => ravel dims (set_nth idx i k)) (seq 0 (nth i dims O))).
Proof. exact fibres_spec. Qed.
Print Assumptions C05_tensor_fibres.

(* ---- the soft-constraint violation bound ----
   One PIRLS step solves (B^T W^2 B + SP + Cc) bn = B^T W^2 z  (B by rows, Bt m B u = B^T u, SP = S + P any matrix with
   bn' SP bn >= 0, Cc the constraint matrix built from the coefficients ENTERING the step).  fit_resid = <B bn, W^2 (z - B bn)>. *)
Theorem C05_step_identity : forall m B w2 z SP Cc bn,
  Forall (fun r => length r = m) B -> length w2 = length B -> length z = length B -> length bn = m ->
  square SP m -> square Cc m ->
  vaddR (vaddR (Bt m B (vmulR w2 (matvecR B bn))) (matvecR SP bn)) (matvecR Cc bn) = Bt m B (vmulR w2 z) ->
  quadR Cc bn = fit_resid B w2 z bn - quadR SP bn.
Proof. exact step_identity. Qed.
Print Assumptions C05_step_identity.

Theorem C05_step_bound : forall m B w2 z SP Cc bn,
  Forall (fun r => length r = m) B -> length w2 = length B -> length z = length B -> length bn = m ->
  square SP m -> square Cc m ->
  vaddR (vaddR (Bt m B (vmulR w2 (matvecR B bn))) (matvecR SP bn)) (matvecR Cc bn) = Bt m B (vmulR w2 z) ->
  forall V, 0 <= quadR SP bn -> V <= quadR Cc bn ->
  V <= fit_resid B w2 z bn - quadR SP bn /\ fit_resid B w2 z bn - quadR SP bn <= Rabs (fit_resid B w2 z bn).
Proof. exact step_bound. Qed.
Print Assumptions C05_step_bound.

(* the lower bound V to use: constraint_lam times the squared differences of v at the positions masked in beta *)
Theorem C05_term_quad_lower : forall n beta cons clam cl2 v, length beta = n -> length v = n -> 0 <= cl2 ->
  clam * rsum (map (fun c => con_form c beta v) cons) <= quadR (term_constraints Rrops n beta cons clam cl2) v.
Proof. exact term_quad_lower. Qed.
Print Assumptions C05_term_quad_lower.

(* fixed point, all coefficients in one constrained term:
   c * sum_{violating} (delta beta_j)^2 <= <B beta, W^2 (z - B beta)> - beta'(S+P)beta <= |<B beta, W^2 (z - B beta)>| *)
Theorem C05_violation_bound : forall m B w2 z SP cons clam cl2 beta,
  Forall (fun r => length r = m) B -> length w2 = length B -> length z = length B -> length beta = m ->
  square SP m -> 0 <= quadR SP beta -> 0 <= cl2 ->
  vaddR (vaddR (Bt m B (vmulR w2 (matvecR B beta))) (matvecR SP beta))
        (matvecR (term_constraints Rrops m beta cons clam cl2) beta) = Bt m B (vmulR w2 z) ->
  clam * rsum (map (fun c => sumsqR (viols c beta)) cons) <= fit_resid B w2 z beta - quadR SP beta
  /\ fit_resid B w2 z beta - quadR SP beta <= Rabs (fit_resid B w2 z beta).
Proof. exact violation_bound_term. Qed.
Print Assumptions C05_violation_bound.

(* ==================================================================================================================
   Function level.  Objects: the real instance of the C03 model coq/Model/BSpline.v (one row of pygam.utils.b_spline_basis):
     spline_at ek0 ek1 n k c x = c . bspline_row ek0 ek1 n k false x      (the fitted partial function of a spline term, 0 if n < k+1)
     sval n k c xs             = c . bspline_scaled n k false xs          (same, in the scaled coordinate xs = (x-min ek)/(max ek-min ek))
     crow n k j xs             = the Cox-de Boor polynomial piece j (valid on the knot interval [t_j, t_{j+1}]), t = knot Rfops n k
   has_shape cn f (Proofs/C05ShapeFinal.v): CMonoInc: x <= y -> f x <= f y;  CMonoDec: x <= y -> f y <= f x;
     CConvex: x <= y <= z -> (f y - f x)(z - y) <= (f z - f y)(y - x)  (secant slopes non-decreasing, cross-multiplied);  CConcave dually.
   All statements hold for EVERY real x: inside the knot range and on the code's linear continuation beyond it.
   ================================================================================================================== *)

(* 1. B-spline derivative formula for the Cox-de Boor recursion of the model, over ANY strictly increasing knots t, any
      order-0 row h0, any order k >= 1, every real x (derivable_pt_lim = the standard library's derivative relation) *)
Theorem C05_bspline_derivative_formula : forall t : nat -> R, (forall i, t i < t (S i)) -> forall (h0 : nat -> R) k i x, (1 <= k)%nat ->
  derivable_pt_lim (fun x => Bix Rfops t h0 x k i) x
    (INR k * (Bix Rfops t h0 x (pred k) i / (t (i + k)%nat - t i) - Bix Rfops t h0 x (pred k) (S i) / (t (i + S k)%nat - t (S i)))).
Proof. exact Bix_derivative. Qed.
Print Assumptions C05_bspline_derivative_formula.

(* ... for the model's (uniform, spacing h = stepR n k = 1/(n-k)) spline: d/dx sum_i c_i B_{i,k} = sum_i (c_i - c_{i-1})/h B_{i,k-1}
   for every polynomial piece j at every real x ... *)
Theorem C05_spline_piece_derivative : forall n k, (1 <= k < n)%nat -> forall c, length c = n -> forall j x, (k <= j < n)%nat ->
  derivable_pt_lim (fun x => sumf (fun i => nth i c 0 * Bix Rfops (knot Rfops n k) (ind j) x k i) 0 n) x
    (sumf (fun i => (nth i c 0 - nth (pred i) c 0) / stepR n k * Bix Rfops (knot Rfops n k) (ind j) x (pred k) i) 1 (n - 1)).
Proof. exact piece_derivative_formula. Qed.
Print Assumptions C05_spline_piece_derivative.
(* ... hence for the spline FUNCTION at every x strictly between two knots (all orders k >= 1).
   _partial: two-sided differentiability AT the knots for k >= 2 is not stated (the shape theorems below do not need it: the
   pieces are glued by continuity of the function and, for k >= 2, of the derivative pieces). *)
Theorem C05_spline_derivative_between_knots_partial : forall n k c j x, (1 <= k < n)%nat -> length c = n -> (k <= j < n)%nat ->
  knot Rfops n k j < x < knot Rfops n k (S j) ->
  derivable_pt_lim (sval n k c) x
    (sumf (fun i => (nth i c 0 - nth (pred i) c 0) / stepR n k * Bix Rfops (knot Rfops n k) (ind j) x (pred k) i) 1 (n - 1)).
Proof. exact sval_derivative_between_knots. Qed.
Print Assumptions C05_spline_derivative_between_knots_partial.

(* 2. coefficients in the zero set of a constraint => the fitted FUNCTION has the promised shape at all real x, for every
      spline order k >= 1, every size n > k, any edge knots (replaces the former C05_coef_to_function_partial) *)
Theorem C05_coef_to_function : forall cn ek0 ek1 n k c, (1 <= k < n)%nat -> length c = n -> satisfies cn c ->
  has_shape cn (spline_at ek0 ek1 n k c).
Proof. exact coef_to_function. Qed.
Print Assumptions C05_coef_to_function.

(* the combination with the matrix-level theorems: quadratic form of the constraint matrix = 0 => shape of the function *)
Theorem C05_constraint_zero_implies_function_shape : forall cn ek0 ek1 n k c, (1 <= k < n)%nat -> length c = n ->
  quadR (con_matrix Rrops n c cn) c = 0 -> has_shape cn (spline_at ek0 ek1 n k c).
Proof. exact constraint_zero_to_function. Qed.
Print Assumptions C05_constraint_zero_implies_function_shape.
Theorem C05_term_constraint_zero_implies_function_shape : forall cons clam cl2 ek0 ek1 n k c,
  (1 <= k < n)%nat -> length c = n -> 0 < clam -> 0 <= cl2 ->
  quadR (term_constraints Rrops n c cons clam cl2) c = 0 -> Forall (fun cn => has_shape cn (spline_at ek0 ek1 n k c)) cons.
Proof. exact term_constraint_zero_to_function. Qed.
Print Assumptions C05_term_constraint_zero_implies_function_shape.

(* the four shapes spelled out in the scaled coordinate, and the midpoint forms *)
Theorem C05_monotone_inc_function : forall n k c, (1 <= k < n)%nat -> length c = n -> Forall (fun d => 0 <= d) (diffR c) ->
  forall x y, x <= y -> sval n k c x <= sval n k c y.
Proof. exact spline_nondecreasing. Qed.
Print Assumptions C05_monotone_inc_function.
Theorem C05_monotone_dec_function : forall n k c, (1 <= k < n)%nat -> length c = n -> Forall (fun d => d <= 0) (diffR c) ->
  forall x y, x <= y -> sval n k c y <= sval n k c x.
Proof. exact spline_nonincreasing. Qed.
Print Assumptions C05_monotone_dec_function.
Theorem C05_convex_function : forall n k c, (1 <= k < n)%nat -> length c = n -> Forall (fun d => 0 <= d) (diffnR 2 c) ->
  forall x y z, x <= y -> y <= z -> (sval n k c y - sval n k c x) * (z - y) <= (sval n k c z - sval n k c y) * (y - x).
Proof. exact spline_convex. Qed.
Print Assumptions C05_convex_function.
Theorem C05_concave_function : forall n k c, (1 <= k < n)%nat -> length c = n -> Forall (fun d => d <= 0) (diffnR 2 c) ->
  forall x y z, x <= y -> y <= z -> (sval n k c z - sval n k c y) * (y - x) <= (sval n k c y - sval n k c x) * (z - y).
Proof. exact spline_concave. Qed.
Print Assumptions C05_concave_function.
Theorem C05_convex_midpoint : forall n k c, (1 <= k < n)%nat -> length c = n -> satisfies CConvex c ->
  forall x z, sval n k c ((x + z) / 2) <= (sval n k c x + sval n k c z) / 2.
Proof. exact spline_convex_midpoint. Qed.
Print Assumptions C05_convex_midpoint.
Theorem C05_concave_midpoint : forall n k c, (1 <= k < n)%nat -> length c = n -> satisfies CConcave c ->
  forall x z, (sval n k c x + sval n k c z) / 2 <= sval n k c ((x + z) / 2).
Proof. exact spline_concave_midpoint. Qed.
Print Assumptions C05_concave_midpoint.

(* order 0 (step functions; outside the property's quantifier "orders 1..4"): monotone coefficients give a monotone step
   function INSIDE the knot range (beyond it the order-0 basis row is identically zero; convexity is meaningless for steps) *)
Theorem C05_order0_monotone_inside : forall ek0 ek1 n c, (0 < n)%nat -> length c = n -> ek0 <> ek1 ->
  (satisfies CMonoInc c -> forall x y, Rmin ek0 ek1 <= x -> x <= y -> y <= Rmax ek0 ek1 -> spline_at ek0 ek1 n 0 c x <= spline_at ek0 ek1 n 0 c y) /\
  (satisfies CMonoDec c -> forall x y, Rmin ek0 ek1 <= x -> x <= y -> y <= Rmax ek0 ek1 -> spline_at ek0 ek1 n 0 c y <= spline_at ek0 ek1 n 0 c x).
Proof. exact (fun ek0 ek1 n c Hn Hc Hne => conj (coef_to_function_order0 ek0 ek1 n c Hn Hc Hne) (coef_to_function_order0_dec ek0 ek1 n c Hn Hc Hne)). Qed.
Print Assumptions C05_order0_monotone_inside.

(* 3. (closes the _partial note of Props/C03.v after C03_extrap_linear_continuous) the slopes g0, g1 of the code's linear
      continuation are, column by column, the derivatives at the boundary of the interior polynomial pieces adjacent to it *)
Theorem C05_continuation_slope_is_boundary_derivative : forall n k, (1 <= k < n)%nat ->
  let t := knot Rfops n k in
  exists g0 g1 : list R,
    (forall xs, xs < 0 -> bspline_scaled Rfops n k false xs = Some (vaddR (vscaleR xs g0) (crow n k k 0))) /\
    (forall xs, 1 < xs -> bspline_scaled Rfops n k false xs = Some (vaddR (vscaleR (xs - 1) g1) (crow n k (n - 1) 1))) /\
    (forall xs, 0 <= xs < t (S k) -> bspline_scaled Rfops n k false xs = Some (crow n k k xs)) /\
    (forall xs, t (n - 1)%nat <= xs <= 1 -> bspline_scaled Rfops n k false xs = Some (crow n k (n - 1) xs)) /\
    (forall i, (i < n)%nat ->
       derivable_pt_lim (fun x => nth i (crow n k k x) 0) 0 (nth i g0 0) /\
       derivable_pt_lim (fun x => nth i (crow n k (n - 1) x) 0) 1 (nth i g1 0)).
Proof. exact continuation_slope. Qed.
Print Assumptions C05_continuation_slope_is_boundary_derivative.

(* ==================================================================================================================
   Tensor terms (function level).  TensorTerm.build_columns on one data row is tensor_row rows = the iterated C-order
   tensor_product (kron_row) of the marginal basis rows; the term's value is coef . tensor_row rows.
     tensor_fun pre post ek0 ek1 n k coef x  = coef . tensor_row (pre ++ row_i(x) :: post)     (marginal i a spline (ek0,ek1,n,k);
                                               pre/post = the basis rows of the marginals before/after i at FIXED other variables)
     tensor2_fun ... coef x0 x1             = coef . (rowA(x0) (x) rowB(x1))                    (two spline marginals)
   fibres dims i (Model/Constraints.v) are the index lists of TensorTerm._iterate_marginal_coef_slices (C05_tensor_fibres).
   ================================================================================================================== *)

(* contraction: for ANY coefficient tensor and ANY rows, the term value is the univariate spline of marginal i with the coefficient
   vector contract coef P Q n (c'_k = sum_{a,q} P_a Q_q coef[a n B + k B + q]), P / Q = products of the rows before / after *)
Theorem C05_tensor_contraction : forall coef P Q r, dotR coef (kron_row Rrops P (kron_row Rrops r Q)) = dotR (contract coef P Q (length r)) r.
Proof. exact dot_contract. Qed.
Print Assumptions C05_tensor_contraction.

(* general number of marginals: every axis-i fibre of the coefficient tensor satisfies the constraint and the other marginals' basis
   values are non-negative (true inside their knot ranges: C03_inside_nonneg_sum_support) => the function of x_i has the shape at
   ALL real x_i, inside the range of marginal i and on its linear continuation *)
Theorem C05_tensor_marginal_function_shape : forall cn pre post ek0 ek1 n k coef, (1 <= k < n)%nat ->
  Forall (Forall (fun v => 0 <= v)) pre -> Forall (Forall (fun v => 0 <= v)) post ->
  Forall (fun f => satisfies cn (gather Rrops coef f)) (fibres (map (@length R) pre ++ n :: map (@length R) post) (length pre)) ->
  has_shape cn (tensor_fun pre post ek0 ek1 n k coef).
Proof. exact tensor_marginal_shape. Qed.
Print Assumptions C05_tensor_marginal_function_shape.

(* two spline marginals, either axis, the other variable anywhere inside its knot range (both ends included) *)
Theorem C05_tensor2_axis0_function_shape : forall cn eA0 eA1 nA kA eB0 eB1 nB kB coef x1,
  (1 <= kA < nA)%nat -> (kB < nB)%nat -> eB0 <> eB1 -> Rmin eB0 eB1 <= x1 <= Rmax eB0 eB1 ->
  Forall (fun f => satisfies cn (gather Rrops coef f)) (fibres [nA; nB] 0) ->
  has_shape cn (fun x0 => tensor2_fun eA0 eA1 nA kA eB0 eB1 nB kB coef x0 x1).
Proof. exact tensor2_axis0_shape. Qed.
Print Assumptions C05_tensor2_axis0_function_shape.
Theorem C05_tensor2_axis1_function_shape : forall cn eA0 eA1 nA kA eB0 eB1 nB kB coef x0,
  (kA < nA)%nat -> (1 <= kB < nB)%nat -> eA0 <> eA1 -> Rmin eA0 eA1 <= x0 <= Rmax eA0 eA1 ->
  Forall (fun f => satisfies cn (gather Rrops coef f)) (fibres [nA; nB] 1) ->
  has_shape cn (fun x1 => tensor2_fun eA0 eA1 nA kA eB0 eB1 nB kB coef x0 x1).
Proof. exact tensor2_axis1_shape. Qed.
Print Assumptions C05_tensor2_axis1_function_shape.

(* the model's TensorTerm._build_marginal_constraints (scatter of each slice's matrix through np.meshgrid, which transposes the
   block) has the quadratic form  sum over the slices f of quad (C_f) (v restricted to f)  [rsumL = sum over a list] ... *)
Theorem C05_tensor_marginal_constraint_quadform : forall ms i coef clam cl2 v, (i < length ms)%nat ->
  length coef = nprod (map cm_n ms) -> length v = length coef ->
  quadR (marginal_constraints Rrops ms i coef clam cl2) v =
  rsumL (fun f => quadR (term_constraints Rrops (cm_n (nth i ms dcm)) (gather Rrops coef f) (cm_cons (nth i ms dcm)) clam cl2) (gather Rrops v f))
        (fibres (map cm_n ms) i).
Proof. exact marginal_constraints_quadform. Qed.
Print Assumptions C05_tensor_marginal_constraint_quadform.
(* ... TensorTerm.build_constraints is the sum over the marginals ... *)
Theorem C05_tensor_constraints_quadform : forall ms coef clam cl2 v, length coef = nprod (map cm_n ms) ->
  quadR (tensor_constraints Rrops ms coef clam cl2) v =
  rsumL (fun i => quadR (marginal_constraints Rrops ms i coef clam cl2) v) (seq 0 (length ms)).
Proof. exact tensor_constraints_quadform. Qed.
Print Assumptions C05_tensor_constraints_quadform.
(* ... and vanishes at the coefficients iff every slice along every axis satisfies every constraint of that axis' marginal *)
Theorem C05_tensor_constraints_zero_iff : forall ms coef clam cl2, length coef = nprod (map cm_n ms) -> 0 < clam -> 0 <= cl2 ->
  (quadR (tensor_constraints Rrops ms coef clam cl2) coef = 0 <->
   forall i, (i < length ms)%nat ->
     Forall (fun f => Forall (fun cn => satisfies cn (gather Rrops coef f)) (cm_cons (nth i ms dcm))) (fibres (map cm_n ms) i)).
Proof. exact tensor_constraints_zero_iff. Qed.
Print Assumptions C05_tensor_constraints_zero_iff.

(* the combination: zero constraint form of the tensor term => every constrained marginal's function has its shape, the other
   variables fixed anywhere inside their knot ranges (pre/post = their non-negative basis rows) *)
Theorem C05_tensor_constraint_zero_implies_function_shape : forall ms pre post ek0 ek1 n k coef clam cl2,
  (1 <= k < n)%nat -> map cm_n ms = map (@length R) pre ++ n :: map (@length R) post ->
  Forall (Forall (fun v => 0 <= v)) pre -> Forall (Forall (fun v => 0 <= v)) post ->
  length coef = nprod (map cm_n ms) -> 0 < clam -> 0 <= cl2 ->
  quadR (tensor_constraints Rrops ms coef clam cl2) coef = 0 ->
  Forall (fun cn => has_shape cn (tensor_fun pre post ek0 ek1 n k coef)) (cm_cons (nth (length pre) ms dcm)).
Proof. exact tensor_constraint_zero_to_function. Qed.
Print Assumptions C05_tensor_constraint_zero_implies_function_shape.

(* the negative side = the mechanism of finding S16: a linearly continued basis row has a negative entry ... *)
Theorem C05_continuation_row_has_negative_entry :
  exists row, bspline_row Rfops 0 1 4 1 false (Q2R (-1 # 2)) = Some row /\ nth 1 row 0 < 0.
Proof. exact continuation_row_has_negative_entry. Qed.
Print Assumptions C05_continuation_row_has_negative_entry.
(* ... so beyond the OTHER marginal's range the statement is false: all axis-0 fibres of s16_coef are non-decreasing, yet the
   function of x0 at x1 = -1/2 (outside [0,1]) is not non-decreasing *)
Theorem C05_tensor_shape_beyond_other_range_refuted :
  Forall (fun f => satisfies CMonoInc (gather Rrops s16_coef f)) (fibres [4; 4]%nat 0) /\
  ~ has_shape CMonoInc (fun x0 => tensor2_fun 0 1 4 1 0 1 4 1 s16_coef x0 (Q2R (-1 # 2))).
Proof. exact tensor_shape_fails_beyond_other_range. Qed.
Print Assumptions C05_tensor_shape_beyond_other_range_refuted.

(* Concrete instances of the hypotheses and conclusions: Proofs/C05ShapeFinal.v shape_hypotheses_example, shape_values_example.
   Instances of the tensor hypotheses: Proofs/C05TensorShape.v tensor_hypotheses_example, Proofs/C05TensorFinal.v tensor_zero_example; the refutation above is itself a computed instance.
   STILL _partial: periodic ('cp') bases; tensor marginals with a `by` variable (a negative by-value flips the shape). *)
