(* Props/C05.v -- property theorems only.  Each is closed by `exact <lemma>` and followed by Print Assumptions.
   Notation (Proofs/C05.v): con_order c = 1 (monotone) / 2 (convex, concave); viols c beta = the list of the violating
   (negative for inc/convex, positive for dec/concave; STRICT, ties are not violations) con_order-th differences of beta;
   satisfies c beta = all those differences have the right sign (>= 0 resp. <= 0);
   con_form c beta v = sum over the positions violating IN beta of the squared differences OF v. *)
From Coq Require Import List Reals.
From PG Require Import Base.Ops Base.Vec Model.Constraints Proofs.VecR Proofs.C05 Proofs.C05Bound Proofs.C05Fibres.
Import ListNotations.
Open Scope R_scope.

(* ---- one constraint matrix  penalties.monotonic_inc/dec, convex, concave, none ---- *)
Theorem C05_quadform : forall c n beta, length beta = n ->
  quadR (con_matrix Rrops n beta c) beta = sumsqR (viols c beta).
Proof. exact con_quadform. Qed.
Print Assumptions C05_quadform.

Theorem C05_quadform_any_vector : forall c n beta v, length beta = n -> length v = n ->
  quadR (con_matrix Rrops n beta c) v = con_form c beta v.
Proof. exact con_quadform_gen. Qed.
Print Assumptions C05_quadform_any_vector.

Theorem C05_psd : forall c n beta v, length beta = n -> length v = n -> 0 <= quadR (con_matrix Rrops n beta c) v.
Proof. exact con_psd. Qed.
Print Assumptions C05_psd.

Theorem C05_sym : forall c n beta i j,
  nth j (nth i (con_matrix Rrops n beta c) []) 0 = nth i (nth j (con_matrix Rrops n beta c) []) 0.
Proof. exact con_sym. Qed.
Print Assumptions C05_sym.

Theorem C05_zero_iff : forall c n beta, length beta = n ->
  (quadR (con_matrix Rrops n beta c) beta = 0 <-> satisfies c beta).
Proof. exact con_zero_iff. Qed.
Print Assumptions C05_zero_iff.

(* satisfies, in index form: all consecutive differences of l have property P *)
Theorem C05_satisfies_index_form : forall (P : R -> Prop) l,
  Forall P (diffR l) <-> (forall i, (S i < length l)%nat -> P (nth (S i) l 0 - nth i l 0)).
Proof. exact Forall_diff_iff. Qed.
Print Assumptions C05_satisfies_index_form.

(* a satisfied constraint (ties included) contributes the ZERO matrix *)
Theorem C05_satisfied_zero_matrix : forall c n beta, satisfies c beta -> allzero (con_matrix Rrops n beta c).
Proof. exact con_satisfied_zero. Qed.
Print Assumptions C05_satisfied_zero_matrix.

(* ---- Term.build_constraints: sum over the term's constraints, times constraint_lam, plus the constraint_l2 ridge iff non-zero ---- *)
Theorem C05_term_quadform : forall n beta cons clam cl2, length beta = n ->
  quadR (term_constraints Rrops n beta cons clam cl2) beta =
    clam * rsum (map (fun c => sumsqR (viols c beta)) cons)
    + (if any_nonzero Rrops (constraint_sum Rrops n beta cons clam) then cl2 * sumsqR beta else 0).
Proof. exact term_quadform. Qed.
Print Assumptions C05_term_quadform.

Theorem C05_term_psd : forall n beta cons clam cl2 v, length beta = n -> length v = n -> 0 <= clam -> 0 <= cl2 ->
  0 <= quadR (term_constraints Rrops n beta cons clam cl2) v.
Proof. exact term_psd. Qed.
Print Assumptions C05_term_psd.

Theorem C05_term_sym : forall n beta cons clam cl2 u v, length u = n -> length v = n ->
  dotR u (matvecR (term_constraints Rrops n beta cons clam cl2) v) = dotR v (matvecR (term_constraints Rrops n beta cons clam cl2) u).
Proof. exact term_bisym. Qed.
Print Assumptions C05_term_sym.

Theorem C05_term_zero_iff : forall n beta cons clam cl2, length beta = n -> 0 < clam -> 0 <= cl2 ->
  (quadR (term_constraints Rrops n beta cons clam cl2) beta = 0 <-> Forall (fun c => satisfies c beta) cons).
Proof. exact term_zero_iff. Qed.
Print Assumptions C05_term_zero_iff.

Theorem C05_term_satisfied_zero_matrix : forall n beta cons clam cl2, Forall (fun c => satisfies c beta) cons ->
  allzero (term_constraints Rrops n beta cons clam cl2).
Proof. exact term_satisfied_zero. Qed.
Print Assumptions C05_term_satisfied_zero_matrix.

(* ---- tensor terms: the slices enumerated by TensorTerm._iterate_marginal_coef_slices ---- *)
Theorem C05_tensor_fibres : forall dims i, (i < length dims)%nat ->
  (* they partition the coefficient block ... *)
  Permutation.Permutation (concat (fibres dims i)) (seq 0 (nprod dims)) /\
  (* ... and each is an axis-i line of the C-order coefficient tensor: a multi-index with the i-th component running *)
  (forall f, In f (fibres dims i) -> exists idx, length idx = length dims /\
       (forall k, (k < nth i dims O)%nat -> Forall2 (fun j d => (j < d)%nat) (set_nth idx i k) dims) /\
       f = map (fun k => ravel dims (set_nth idx i k)) (seq 0 (nth i dims O))).
Proof. exact fibres_spec. Qed.
Print Assumptions C05_tensor_fibres.

(* ---- the soft-constraint violation bound ----
   One PIRLS step solves (B^T W^2 B + SP + Cc) bn = B^T W^2 z  (B by rows, Bt m B u = B^T u, SP = S + P any matrix with
   bn' SP bn >= 0, Cc the constraint matrix built from the coefficients ENTERING the step).  fit_resid = <B bn, W^2 (z - B bn)>. *)
Theorem C05_step_identity : forall m B w2 z SP Cc bn,
  Forall (fun r => length r = m) B -> length w2 = length B -> length z = length B -> length bn = m ->
  square SP m -> square Cc m ->
  vaddR (vaddR (Bt m B (vmulR w2 (matvecR B bn))) (matvecR SP bn)) (matvecR Cc bn) = Bt m B (vmulR w2 z) ->
  quadR Cc bn = fit_resid B w2 z bn - quadR SP bn.
Proof. exact step_identity. Qed.
Print Assumptions C05_step_identity.

Theorem C05_step_bound : forall m B w2 z SP Cc bn,
  Forall (fun r => length r = m) B -> length w2 = length B -> length z = length B -> length bn = m ->
  square SP m -> square Cc m ->
  vaddR (vaddR (Bt m B (vmulR w2 (matvecR B bn))) (matvecR SP bn)) (matvecR Cc bn) = Bt m B (vmulR w2 z) ->
  forall V, 0 <= quadR SP bn -> V <= quadR Cc bn ->
  V <= fit_resid B w2 z bn - quadR SP bn /\ fit_resid B w2 z bn - quadR SP bn <= Rabs (fit_resid B w2 z bn).
Proof. exact step_bound. Qed.
Print Assumptions C05_step_bound.

(* the lower bound V to use: constraint_lam times the squared differences of v at the positions masked in beta *)
Theorem C05_term_quad_lower : forall n beta cons clam cl2 v, length beta = n -> length v = n -> 0 <= cl2 ->
  clam * rsum (map (fun c => con_form c beta v) cons) <= quadR (term_constraints Rrops n beta cons clam cl2) v.
Proof. exact term_quad_lower. Qed.
Print Assumptions C05_term_quad_lower.

(* fixed point, all coefficients in one constrained term:
   c * sum_{violating} (delta beta_j)^2 <= <B beta, W^2 (z - B beta)> - beta'(S+P)beta <= |<B beta, W^2 (z - B beta)>| *)
Theorem C05_violation_bound : forall m B w2 z SP cons clam cl2 beta,
  Forall (fun r => length r = m) B -> length w2 = length B -> length z = length B -> length beta = m ->
  square SP m -> 0 <= quadR SP beta -> 0 <= cl2 ->
  vaddR (vaddR (Bt m B (vmulR w2 (matvecR B beta))) (matvecR SP beta))
        (matvecR (term_constraints Rrops m beta cons clam cl2) beta) = Bt m B (vmulR w2 z) ->
  clam * rsum (map (fun c => sumsqR (viols c beta)) cons) <= fit_resid B w2 z beta - quadR SP beta
  /\ fit_resid B w2 z beta - quadR SP beta <= Rabs (fit_resid B w2 z beta).
Proof. exact violation_bound_term. Qed.
Print Assumptions C05_violation_bound.

(* C05_coef_to_function_partial (NOT PROVED HERE): "coefficients satisfying the constraint (up to v) give a spline function with
   the requested shape (up to d*v*max(1,delta/h)^d on a grid of spacing delta), inside the knot range and, for spline order >= 1,
   on the linear continuation beyond it".  It needs the B-spline derivative formula (C03_slope_is_derivative, owned by the C03
   model).  Until then the function-level shape is checked by correspondence on every converged fit (harness/props/c05.py,
   check_function_shape), and it is REFUTED by a concrete fit for tensor marginals when the OTHER variable is extrapolated
   (candidate finding S16, harness/props/c05.py s16_witness). *)
