(* Props/C13Alg.v -- property theorems (MathComp side, any realFieldType, all dimensions) *)
From mathcomp Require Import all_ssreflect all_algebra.
From PG Require Import Alg.Order Alg.Lam Alg.LamRate.
Set Implicit Arguments. Unset Strict Implicit. Unset Printing Implicit Defensive.
Import GRing.Theory Num.Theory.
Local Open Scope ring_scope.

(* adding a PSD matrix (raising any lam_i: P = delta * P_i) never increases a leverage x' M^-1 x ... *)
Theorem C13_leverage_monotone : forall (F : realFieldType) m (M P : 'M[F]_m) (x a b : 'cV[F]_m),
  M^T = M -> psd M -> psd P -> M *m a = x -> (M + P) *m b = x -> ip x b <= ip x a.
Proof. exact: leverage_monotone. Qed.
Print Assumptions C13_leverage_monotone.
(* ... hence never increases the effective degrees of freedom tr(WB (M)^-1 WB') *)
Theorem C13_edof_monotone : forall (F : realFieldType) n m (WB : 'M[F]_(n,m)) (M P : 'M[F]_m) (X Y : 'M[F]_(m,n)),
  M^T = M -> psd M -> psd P -> M *m X = WB^T -> (M + P) *m Y = WB^T -> \tr (WB *m Y) <= \tr (WB *m X).
Proof. exact: edof_monotone. Qed.
Print Assumptions C13_edof_monotone.

(* what IS monotone in one lam_i: with H = weighted RSS + all the OTHER penalties (incl. the ridge) and g_i = b' P_i b,
   raising lam_i never increases g_i and never decreases H.  For a single penalty (or all lam scaled jointly, P = sum_j lam_j P_j)
   H is the weighted RSS plus the sqrt(eps) ridge only. *)
Theorem C13_lam_tradeoff : forall (F : realFieldType) n m (A : 'M[F]_(n,m)) (z : 'cV[F]_n) (S0 P : 'M[F]_m),
  S0^T = S0 -> P^T = P -> psd S0 -> psd P ->
  forall (l1 l2 : F) (b1 b2 : 'cV[F]_m), 0 <= l1 -> l1 < l2 ->
  (A^T *m A + (S0 + l1 *: P)) *m b1 = A^T *m z ->
  (A^T *m A + (S0 + l2 *: P)) *m b2 = A^T *m z ->
  gval P b2 <= gval P b1 /\ Hval A z S0 b1 <= Hval A z S0 b2.
Proof. move=> F n m A z S0 P HS0 HP pS0 pP l1 l2 b1 b2. exact: lam_tradeoff. Qed.
Print Assumptions C13_lam_tradeoff.

(* limit lam -> infinity: against ANY b0 that the penalty does not see (g(b0) = 0: a straight line for the default
   second-difference penalty, zero for a ridge penalty) the fit has H(b_lam) <= H(b0) and roughness g(b_lam) <= H(b0)/lam -> 0 *)
Theorem C13_limit : forall (F : realFieldType) n m (A : 'M[F]_(n,m)) (z : 'cV[F]_n) (S0 P : 'M[F]_m),
  S0^T = S0 -> P^T = P -> psd S0 -> psd P ->
  forall (l : F) (bl b0 : 'cV[F]_m), 0 < l -> (A^T *m A + (S0 + l *: P)) *m bl = A^T *m z -> gval P b0 = 0 ->
  Hval A z S0 bl <= Hval A z S0 b0 /\ gval P bl <= Hval A z S0 b0 / l.
Proof. move=> F n m A z S0 P HS0 HP pS0 pP l bl b0. exact: lam_limit. Qed.
Print Assumptions C13_limit.

(* "As lam grows without bound the fit tends to the weighted least-squares fit within the penalty's unpenalised space": with an explicit
   rate.  b0 lies in the null space of P and is the least-squares fit within it, written in the finite-dimensional form
   A'z - (A'A + S0) b0 = P u  (the unrestricted residual gradient at b0 is orthogonal to ker P, i.e. lies in range P for symmetric P;
   harness/props/c13.py computes such a u for every fitted scenario and evaluates the bound on the implementation).  Then the distance
   in the data + ridge norm, hence the distance of the fitted values, decays like 1 / lam and the roughness like 1 / lam^2. *)
Theorem C13_limit_rate : forall (F : realFieldType) n m (A : 'M[F]_(n,m)) (z : 'cV[F]_n) (S0 P : 'M[F]_m),
  P^T = P -> psd S0 -> psd P ->
  forall (l : F) (bl b0 u : 'cV[F]_m), 0 < l ->
  (A^T *m A + (S0 + l *: P)) *m bl = A^T *m z -> P *m b0 = 0 -> A^T *m z - (A^T *m A + S0) *m b0 = P *m u ->
  qf (A^T *m A + S0) (bl - b0) <= qf P u / (2 * l) /\ qf P bl <= qf P u / (l * l).
Proof. move=> F n m A z S0 P HP pS0 pP l bl b0 u. exact: lam_rate. Qed.
Print Assumptions C13_limit_rate.
Theorem C13_limit_rate_fitted : forall (F : realFieldType) n m (A : 'M[F]_(n,m)) (z : 'cV[F]_n) (S0 P : 'M[F]_m),
  P^T = P -> psd S0 -> psd P ->
  forall (l : F) (bl b0 u : 'cV[F]_m), 0 < l ->
  (A^T *m A + (S0 + l *: P)) *m bl = A^T *m z -> P *m b0 = 0 -> A^T *m z - (A^T *m A + S0) *m b0 = P *m u ->
  ip (A *m (bl - b0)) (A *m (bl - b0)) <= qf P u / (2 * l).
Proof. move=> F n m A z S0 P HP pS0 pP l bl b0 u. exact: lam_rate_fitted. Qed.
Print Assumptions C13_limit_rate_fitted.
