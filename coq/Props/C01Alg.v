(* Props/C01Alg.v -- property theorems (MathComp side): the solver expression GENERATED from GAM._pirls
   (coq/Gen/Solver.v) under the LAPACK contracts (section hypotheses of Alg/Solve.v), for all dimensions n k m. *)
From mathcomp Require Import all_ssreflect all_algebra.
From PG Require Import Alg.Solve Alg.Order Gen.Solver Proofs.C01Alg.
Set Implicit Arguments. Unset Strict Implicit. Unset Printing Implicit Defensive.
Import GRing.Theory Num.Theory.
Local Open Scope ring_scope.

(* coef_new = B (W z) solves the penalised normal equations (WB'WB + E'E) beta = WB'(W z): n < m, n = m and n > m alike.
   This statement type-checks only when the code keeps all m singular directions (Gen_c k m = m). *)
Theorem C01_update_solves_normal_equations : forall (F : fieldType) (n k m : nat)
  (WB : 'M[F]_(n,m)) (Q : 'M[F]_(n,k)) (R : 'M[F]_(k,m)) (E : 'M[F]_(m,m))
  (U1 : 'M[F]_(k, Gen_c k m)) (U2 : 'M[F]_(m, Gen_c k m)) (D V : 'M[F]_m) (Dinv : 'M[F]_(m, Gen_c k m)),
  WB = Q *m R -> Q^T *m Q = 1%:M -> R = U1 *m D *m V^T -> E = U2 *m D *m V^T ->
  U1^T *m U1 + U2^T *m U2 = 1%:M -> V^T *m V = 1%:M -> D *m Dinv = 1%:M -> D^T = D ->
  forall z : 'cV[F]_n, (WB^T *m WB + E^T *m E) *m Gen_coef_new V Dinv U1 Q z = WB^T *m z.
Proof. exact: update_solves_normal_equations. Qed.
Print Assumptions C01_update_solves_normal_equations.

(* a solution of the (symmetric, PSD-penalised) normal equations minimises the working penalised least squares *)
Theorem C01_minimiser : forall (F : realFieldType) n m (A : 'M[F]_(n,m)) (S : 'M[F]_m) (z : 'cV[F]_n) (bhat b : 'cV[F]_m),
  S^T = S -> psd S -> (A^T *m A + S) *m bhat = A^T *m z -> crit A S z bhat <= crit A S z b.
Proof. exact: normal_eq_minimises. Qed.
Print Assumptions C01_minimiser.
