(* Props/C09.v -- property theorems only.  About the definitions GENERATED from GAM._get_quantiles, confidence_intervals,
   LinearGAM.prediction_intervals, partial_dependence and _linear_predictor (coq/Gen/Intervals.v) and the generated inverse
   links (coq/Gen/Links.v).  scipy.stats.norm.ppf (ppf_norm) and scipy.stats.t.ppf (ppf_t df) are universally quantified
   functions; the only facts used about them appear as hypotheses of each theorem: strictly increasing in the level on
   (0,1) (t: for df > 0) and zero at 1/2.  Gen_entry fl ... row w qs is the public method with flags fl on ONE query row
   (`row` = that row of the full model matrix, `tidx` = coefficient indices of the requested term); None = ValueError.
   rowquad r M = sum_j (sum_i r_i M_ij) r_j, block idxs M = M[idxs][:, idxs], select idxs v = v[idxs]  (Model/Intervals.v). *)
From Coq Require Import Reals Lra List Bool.
From PG Require Import Base.Ops Model.Intervals Gen.Links Gen.Intervals Proofs.C09Sum Proofs.C09.
Import ListNotations.
Open Scope R_scope.

(* bound = inverse link of (linear predictor + z_q * sqrt(variance)); variance = quadratic form of the covariance block
   (all coefficients for confidence / prediction intervals), + scale for prediction intervals; z_q normal iff the scale is
   known, else Student t with n_samples - edof degrees of freedom; partial dependence: link scale, the term's block *)
Theorem C09_formula : forall (ppf_norm : R -> R) (ppf_t : R -> R -> R) (mu : R -> R) (known : bool) (scale n edof : R)
    (coef : list R) (cov : list (list R)) (tidx : list nat) (row : list R) (w : R) (qs : list R),
  (forall q, In q qs -> 0 < q < 1) ->
  let z q := if known then ppf_norm q else ppf_t (n - edof) q in
  let all := seq 0 (length coef) in
  Gen_entry Gen_flags_confidence_intervals ppf_norm ppf_t mu known scale n edof coef cov tidx row w (Some qs)
    = Some (map (fun q => mu (dotl (select all row) coef + z q * sqrt (rowquad (select all row) (block all cov)))) qs) /\
  Gen_entry Gen_flags_prediction_intervals ppf_norm ppf_t mu known scale n edof coef cov tidx row w (Some qs)
    = Some (map (fun q => mu (dotl (select all row) coef + z q * sqrt (rowquad (select all row) (block all cov) + scale))) qs) /\
  Gen_entry Gen_flags_partial_dependence ppf_norm ppf_t mu known scale n edof coef cov tidx row w (Some qs)
    = Some (map (fun q => dotl (select tidx row) (select tidx coef) + z q * sqrt (rowquad (select tidx row) (block tidx cov))) qs) /\
  select all coef = coef.
Proof. intros ppf_norm ppf_t mu known scale n edof coef cov tidx row w qs Hq z all.
  exact (conj (formula_confidence ppf_norm ppf_t mu known scale n edof coef cov tidx row w qs Hq)
        (conj (formula_prediction ppf_norm ppf_t mu known scale n edof coef cov tidx row w qs Hq)
        (conj (formula_pdep ppf_norm ppf_t mu known scale n edof coef cov tidx row w qs Hq)
        (select_all coef)))). Qed.
Print Assumptions C09_formula.

(* selecting all positions of a row / coefficient vector of the right length is the identity *)
Theorem C09_select_all : forall v, select (seq 0 (length v)) v = v.
Proof. exact select_all. Qed.
Print Assumptions C09_select_all.

(* every public method returns, per accepted level, the generated bound function of its own columns, coefficients and flags
   (so the order theorems below, stated for Gen_bound with arbitrary arguments, apply to all three methods) *)
Theorem C09_methods_are_bounds : forall (ppf_norm : R -> R) (ppf_t : R -> R -> R) fl mu known scale n edof coef cov tidx row w qs,
  (forall q, In q qs -> 0 < q < 1) ->
  Gen_entry fl ppf_norm ppf_t mu known scale n edof coef cov tidx row w (Some qs)
  = let idxs := match qf_term fl with AllTerms => seq 0 (length coef) | TheTerm => tidx end in
    Some (map (Gen_bound ppf_norm ppf_t mu known scale n edof cov idxs (select idxs row) (Gen_lp (select idxs row) coef idxs)
                         (qf_prediction fl) (qf_xform fl)) qs).
Proof. exact entry_bounds. Qed.
Print Assumptions C09_methods_are_bounds.

(* width w == quantiles [(1-w)/2, (1+w)/2], every method, every w (the width argument is ignored when quantiles are given) *)
Theorem C09_width_quantiles : forall (ppf_norm : R -> R) (ppf_t : R -> R -> R) fl mu known scale n edof coef cov tidx row w w',
  Gen_entry fl ppf_norm ppf_t mu known scale n edof coef cov tidx row w None
  = Gen_entry fl ppf_norm ppf_t mu known scale n edof coef cov tidx row w' (Some [(1 - w) / 2; (1 + w) / 2]).
Proof. exact width_is_quantiles. Qed.
Print Assumptions C09_width_quantiles.

(* the variance is non-negative: cov = scale * B B^T (entrywise; B by rows with p columns), scale >= 0; any block, any row *)
Theorem C09_var_nonneg : forall (s : R) (B : list (list R)) (p : nat) (cov : list (list R)) (idxs : list nat) (r : list R),
  0 <= s -> length r = length idxs ->
  (forall i j, entry cov i j = s * lsum (fun k => entry B i k * entry B j k) (seq 0 p)) ->
  0 <= rowquad r (block idxs cov).
Proof. exact rowquad_gram_nonneg. Qed.
Print Assumptions C09_var_nonneg.

(* the inverse links of the named model classes (identity: Linear/Expectile, log: Poisson/Gamma/InvGauss, logit: Logistic) increase *)
Theorem C09_links_increasing :
  (forall L, increasing (Gen_IdentityLink_mu L)) /\ (forall L, increasing (Gen_LogLink_mu L)) /\ (forall L, 0 < L -> increasing (Gen_LogitLink_mu L)).
Proof. exact (conj identity_mu_increasing (conj log_mu_increasing logit_mu_increasing)). Qed.
Print Assumptions C09_links_increasing.

Theorem C09_ordered_in_q : forall (ppf_norm : R -> R) (ppf_t : R -> R -> R),
  (forall p q, 0 < p -> p < q -> q < 1 -> ppf_norm p < ppf_norm q) ->
  (forall df p q, 0 < df -> 0 < p -> p < q -> q < 1 -> ppf_t df p < ppf_t df q) ->
  forall mu known scale n edof cov idxs row lp pred xf p q,
  increasing mu -> (known = true \/ 0 < n - edof) -> 0 < p -> p <= q -> q < 1 ->
  Gen_bound ppf_norm ppf_t mu known scale n edof cov idxs row lp pred xf p
  <= Gen_bound ppf_norm ppf_t mu known scale n edof cov idxs row lp pred xf q.
Proof. exact bound_ordered. Qed.
Print Assumptions C09_ordered_in_q.

(* Gen_xform xf mu lp is the prediction (mu(lp)) for xform = True and the partial dependence value (lp) for xform = False *)
Theorem C09_brackets_prediction : forall (ppf_norm : R -> R) (ppf_t : R -> R -> R),
  (forall p q, 0 < p -> p < q -> q < 1 -> ppf_norm p < ppf_norm q) -> ppf_norm (1 / 2) = 0 ->
  (forall df p q, 0 < df -> 0 < p -> p < q -> q < 1 -> ppf_t df p < ppf_t df q) -> (forall df, 0 < df -> ppf_t df (1 / 2) = 0) ->
  forall mu known scale n edof cov idxs row lp pred xf p q,
  increasing mu -> (known = true \/ 0 < n - edof) -> 0 < p -> p < 1 / 2 -> 1 / 2 < q -> q < 1 ->
  Gen_bound ppf_norm ppf_t mu known scale n edof cov idxs row lp pred xf p <= Gen_xform xf mu lp
  /\ Gen_xform xf mu lp <= Gen_bound ppf_norm ppf_t mu known scale n edof cov idxs row lp pred xf q.
Proof. exact bound_brackets. Qed.
Print Assumptions C09_brackets_prediction.

Theorem C09_nested_in_width : forall (ppf_norm : R -> R) (ppf_t : R -> R -> R),
  (forall p q, 0 < p -> p < q -> q < 1 -> ppf_norm p < ppf_norm q) ->
  (forall df p q, 0 < df -> 0 < p -> p < q -> q < 1 -> ppf_t df p < ppf_t df q) ->
  forall mu known scale n edof cov idxs row lp pred xf w w',
  increasing mu -> (known = true \/ 0 < n - edof) -> 0 < w -> w <= w' -> w' < 1 ->
  let lo x := Gen_bound ppf_norm ppf_t mu known scale n edof cov idxs row lp pred xf ((1 - x) / 2) in
  let hi x := Gen_bound ppf_norm ppf_t mu known scale n edof cov idxs row lp pred xf ((1 + x) / 2) in
  lo w' <= lo w /\ lo w <= hi w /\ hi w <= hi w'.
Proof. exact bound_nested. Qed.
Print Assumptions C09_nested_in_width.

(* prediction = true adds scale >= 0 to a variance >= 0: the prediction interval contains the confidence interval *)
Theorem C09_pred_contains_conf : forall (ppf_norm : R -> R) (ppf_t : R -> R -> R),
  (forall p q, 0 < p -> p < q -> q < 1 -> ppf_norm p < ppf_norm q) -> ppf_norm (1 / 2) = 0 ->
  (forall df p q, 0 < df -> 0 < p -> p < q -> q < 1 -> ppf_t df p < ppf_t df q) -> (forall df, 0 < df -> ppf_t df (1 / 2) = 0) ->
  forall mu known scale n edof cov idxs row lp xf p q,
  increasing mu -> (known = true \/ 0 < n - edof) -> 0 <= scale -> 0 <= rowquad row (block idxs cov) ->
  0 < p -> p <= 1 / 2 -> 1 / 2 <= q -> q < 1 ->
  Gen_bound ppf_norm ppf_t mu known scale n edof cov idxs row lp true xf p <= Gen_bound ppf_norm ppf_t mu known scale n edof cov idxs row lp false xf p
  /\ Gen_bound ppf_norm ppf_t mu known scale n edof cov idxs row lp false xf q <= Gen_bound ppf_norm ppf_t mu known scale n edof cov idxs row lp true xf q.
Proof. exact pred_contains_conf. Qed.
Print Assumptions C09_pred_contains_conf.

(* partial dependence: xform = False, prediction = False, the term's indices; the result does not depend on the link, the
   scale, or any covariance entry / coefficient / model-matrix column outside the term's block *)
Theorem C09_pdep_link_scale :
  Gen_flags_partial_dependence = mk_qflags false false TheTerm /\
  Gen_flags_confidence_intervals = mk_qflags false true AllTerms /\
  Gen_flags_prediction_intervals = mk_qflags true true AllTerms /\
  forall (ppf_norm : R -> R) (ppf_t : R -> R -> R) mu mu' known scale scale' n edof coef coef' cov cov' tidx row row' w qs,
  (forall i j, In i tidx -> In j tidx -> entry cov i j = entry cov' i j) ->
  (forall i, In i tidx -> nth i coef 0 = nth i coef' 0) ->
  (forall i, In i tidx -> nth i row 0 = nth i row' 0) ->
  Gen_entry Gen_flags_partial_dependence ppf_norm ppf_t mu known scale n edof coef cov tidx row w qs
  = Gen_entry Gen_flags_partial_dependence ppf_norm ppf_t mu' known scale' n edof coef' cov' tidx row' w qs.
Proof. exact (conj eq_refl (conj eq_refl (conj eq_refl pdep_block_only))). Qed.
Print Assumptions C09_pdep_link_scale.

(* a call is rejected (ValueError) exactly when some level is <= 0 or >= 1; with a width: exactly when w <= -1 or w >= 1 *)
Theorem C09_reject_outside_01 : forall (ppf_norm : R -> R) (ppf_t : R -> R -> R) fl mu known scale n edof coef cov tidx row w,
  (forall qs, Gen_entry fl ppf_norm ppf_t mu known scale n edof coef cov tidx row w (Some qs) = None
              <-> exists q, In q qs /\ (q <= 0 \/ 1 <= q)) /\
  (Gen_entry fl ppf_norm ppf_t mu known scale n edof coef cov tidx row w None = None <-> (w <= -1 \/ 1 <= w)).
Proof. intros. exact (conj (rejects ppf_norm ppf_t fl mu known scale n edof coef cov tidx row w)
                            (rejects_width ppf_norm ppf_t fl mu known scale n edof coef cov tidx row w)). Qed.
Print Assumptions C09_reject_outside_01.

(* non-vacuity: a function that is increasing on (0,1) and vanishes at 1/2; a covariance of the form scale * B B^T *)
Example C09_example_ppf : (forall p q : R, 0 < p -> p < q -> q < 1 -> p - 1 / 2 < q - 1 / 2) /\ (1 / 2 - 1 / 2 = 0).
Proof. exact example_ppf. Qed.
Example C09_example_gram : forall i j, entry [[10; 22]; [22; 50]] i j
   = 2 * lsum (fun k => entry [[1; 2]; [3; 4]] i k * entry [[1; 2]; [3; 4]] j k) (seq 0 2).
Proof. exact example_gram. Qed.
