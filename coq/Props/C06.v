(* Props/C06.v -- property theorems only, about the definitions GENERATED from pygam/distributions.py and utils.ylogydu
   (coq/Gen/Dists.v).  Spec_* are the specification functions of the SciPy / NumPy primitives (trusted base). *)
From Coq Require Import Reals Lra List.
From Coquelicot Require Import Coquelicot.
From PG Require Import Base.Ops Gen.Dists Proofs.C06 Proofs.C06Score.
Open Scope R_scope.

(* unit deviance is non-negative and zero exactly at y = mu (unscaled; the scaled one divides by scale > 0) *)
Theorem C06_dev_nonneg :
  (forall sc y mu, 0 < sc -> 0 <= Gen_NormalDist_deviance0 false sc 1 y mu /\ 0 <= Gen_NormalDist_deviance0 true sc 1 y mu) /\
  (forall L y mu, 0 <= y <= L -> 0 < mu < L -> 0 <= Gen_BinomialDist_deviance0 false 1 L y mu) /\
  (forall y mu, 0 <= y -> 0 < mu -> 0 <= Gen_PoissonDist_deviance0 false 1 1 y mu) /\
  (forall sc y mu, 0 < y -> 0 < mu -> 0 <= Gen_GammaDist_deviance0 false sc 1 y mu) /\
  (forall sc y mu, 0 < y -> 0 < mu -> 0 <= Gen_InvGaussDist_deviance0 false sc 1 y mu).
Proof. exact (conj normal_dev_nonneg (conj binom_dev_nonneg (conj pois_dev_nonneg (conj gamma_dev_nonneg ig_dev_nonneg)))). Qed.
Print Assumptions C06_dev_nonneg.

Theorem C06_dev_zero_iff :
  (forall sc y mu, 0 < sc -> (Gen_NormalDist_deviance0 false sc 1 y mu = 0 <-> y = mu)) /\
  (forall L y mu, 0 <= y <= L -> 0 < mu < L -> (Gen_BinomialDist_deviance0 false 1 L y mu = 0 <-> y = mu)) /\
  (forall y mu, 0 <= y -> 0 < mu -> (Gen_PoissonDist_deviance0 false 1 1 y mu = 0 <-> y = mu)) /\
  (forall sc y mu, 0 < y -> 0 < mu -> (Gen_GammaDist_deviance0 false sc 1 y mu = 0 <-> y = mu)) /\
  (forall sc y mu, 0 < y -> 0 < mu -> (Gen_InvGaussDist_deviance0 false sc 1 y mu = 0 <-> y = mu)).
Proof. exact (conj normal_dev_zero_iff (conj binom_dev_zero_iff (conj pois_dev_zero_iff (conj gamma_dev_zero_iff ig_dev_zero_iff)))). Qed.
Print Assumptions C06_dev_zero_iff.

(* d/dmu deviance = -2 (y - mu) / V(mu), including the boundary responses y = 0 and y = levels *)
Theorem C06_dev_derivative :
  (forall sc y mu, is_derive (fun m => Gen_NormalDist_deviance0 false sc 1 y m) mu (-2 * (y - mu) / Gen_NormalDist_V0 1 mu)) /\
  (forall L y mu, 0 <= y <= L -> 0 < mu < L -> is_derive (fun m => Gen_BinomialDist_deviance0 false 1 L y m) mu (-2 * (y - mu) / Gen_BinomialDist_V0 L mu)) /\
  (forall y mu, 0 <= y -> 0 < mu -> is_derive (fun m => Gen_PoissonDist_deviance0 false 1 1 y m) mu (-2 * (y - mu) / Gen_PoissonDist_V0 1 mu)) /\
  (forall sc y mu, 0 < y -> 0 < mu -> is_derive (fun m => Gen_GammaDist_deviance0 false sc 1 y m) mu (-2 * (y - mu) / Gen_GammaDist_V0 1 mu)) /\
  (forall sc y mu, 0 < y -> 0 < mu -> is_derive (fun m => Gen_InvGaussDist_deviance0 false sc 1 y m) mu (-2 * (y - mu) / Gen_InvGaussDist_V0 1 mu)).
Proof. exact (conj normal_dev_derive (conj binom_dev_derive (conj pois_dev_derive (conj gamma_dev_derive ig_dev_derive)))). Qed.
Print Assumptions C06_dev_derivative.

(* deviance = 2 * scale * [log-density at the saturated mean - log-density at mu], every scale > 0 *)
Theorem C06_dev_is_loglik_gap :
  (forall sc y mu, 0 < sc -> Gen_NormalDist_deviance0 false sc 1 y mu = 2 * sc * (Gen_NormalDist_log_pdf sc 1 1 y y - Gen_NormalDist_log_pdf sc 1 1 y mu)) /\
  (forall L y mu, 0 <= y <= L -> 0 < mu < L -> Gen_BinomialDist_deviance0 false 1 L y mu = 2 * 1 * (Gen_BinomialDist_log_pdf 1 L 1 y y - Gen_BinomialDist_log_pdf 1 L 1 y mu)) /\
  (forall y mu, 0 <= y -> 0 < mu -> Gen_PoissonDist_deviance0 false 1 1 y mu = 2 * 1 * (Gen_PoissonDist_log_pdf 1 1 1 y y - Gen_PoissonDist_log_pdf 1 1 1 y mu)) /\
  (forall sc y mu, 0 < sc -> 0 < y -> 0 < mu -> Gen_GammaDist_deviance0 false sc 1 y mu = 2 * sc * (Gen_GammaDist_log_pdf sc 1 1 y y - Gen_GammaDist_log_pdf sc 1 1 y mu)) /\
  (forall sc y mu, 0 < sc -> 0 < y -> 0 < mu -> Gen_InvGaussDist_deviance0 false sc 1 y mu = 2 * sc * (Gen_InvGaussDist_log_pdf sc 1 1 y y - Gen_InvGaussDist_log_pdf sc 1 1 y mu)).
Proof. exact (conj normal_loglik_gap (conj binom_loglik_gap (conj pois_loglik_gap (conj gamma_loglik_gap ig_loglik_gap)))). Qed.
Print Assumptions C06_dev_is_loglik_gap.

(* score identity: d log-density / d mu = (y - mu) / (scale * V(mu)) -- variance function, deviance and log-density describe
   one exponential-dispersion family, and a zero of the PIRLS score equations is a stationary point of the reported likelihood *)
Theorem C06_score_identity :
  (forall sc y mu, 0 < sc -> is_derive (fun m => Gen_NormalDist_log_pdf sc 1 1 y m) mu ((y - mu) / (sc * Gen_NormalDist_V0 1 mu))) /\
  (forall L y mu, 0 <= y <= L -> 0 < mu < L -> is_derive (fun m => Gen_BinomialDist_log_pdf 1 L 1 y m) mu ((y - mu) / (1 * Gen_BinomialDist_V0 L mu))) /\
  (forall y mu, 0 <= y -> 0 < mu -> is_derive (fun m => Gen_PoissonDist_log_pdf 1 1 1 y m) mu ((y - mu) / (1 * Gen_PoissonDist_V0 1 mu))) /\
  (forall sc y mu, 0 < sc -> 0 < y -> 0 < mu -> is_derive (fun m => Gen_GammaDist_log_pdf sc 1 1 y m) mu ((y - mu) / (sc * Gen_GammaDist_V0 1 mu))) /\
  (forall sc y mu, 0 < sc -> 0 < y -> 0 < mu -> is_derive (fun m => Gen_InvGaussDist_log_pdf sc 1 1 y m) mu ((y - mu) / (sc * Gen_InvGaussDist_V0 1 mu))).
Proof. exact (conj normal_score (conj binom_score (conj pois_score (conj gamma_score ig_score)))). Qed.
Print Assumptions C06_score_identity.

(* observation weights multiply the deviance and divide the variance function (the generated decorator wrappers) *)
Theorem C06_weights : forall b sc L w y mu,
  Gen_NormalDist_deviance b sc L w y mu = Gen_NormalDist_deviance0 b sc L y mu * w /\ Gen_NormalDist_V L w mu = Gen_NormalDist_V0 L mu / w /\
  Gen_BinomialDist_deviance b sc L w y mu = Gen_BinomialDist_deviance0 b sc L y mu * w /\ Gen_BinomialDist_V L w mu = Gen_BinomialDist_V0 L mu / w /\
  Gen_PoissonDist_deviance b sc L w y mu = Gen_PoissonDist_deviance0 b sc L y mu * w /\ Gen_PoissonDist_V L w mu = Gen_PoissonDist_V0 L mu / w /\
  Gen_GammaDist_deviance b sc L w y mu = Gen_GammaDist_deviance0 b sc L y mu * w /\ Gen_GammaDist_V L w mu = Gen_GammaDist_V0 L mu / w /\
  Gen_InvGaussDist_deviance b sc L w y mu = Gen_InvGaussDist_deviance0 b sc L y mu * w /\ Gen_InvGaussDist_V L w mu = Gen_InvGaussDist_V0 L mu / w.
Proof. intros. repeat split; reflexivity. Qed.
Print Assumptions C06_weights.

(* random draws: from the documented moments of the NumPy primitive and the generated argument expressions,
   mean = mu and variance = scale * V(mu) *)
Theorem C06_sample_moments :
  (forall sc mu, 0 < sc -> Gen_NormalDist_sample_mean sc 1 mu = mu /\ Gen_NormalDist_sample_var sc 1 mu = sc * Gen_NormalDist_V0 1 mu) /\
  (forall L mu, 0 < L -> Gen_BinomialDist_sample_mean 1 L mu = mu /\ Gen_BinomialDist_sample_var 1 L mu = 1 * Gen_BinomialDist_V0 L mu) /\
  (forall mu, Gen_PoissonDist_sample_mean 1 1 mu = mu /\ Gen_PoissonDist_sample_var 1 1 mu = 1 * Gen_PoissonDist_V0 1 mu) /\
  (forall sc mu, 0 < sc -> Gen_GammaDist_sample_mean sc 1 mu = mu /\ Gen_GammaDist_sample_var sc 1 mu = sc * Gen_GammaDist_V0 1 mu) /\
  (forall sc mu, 0 < sc -> Gen_InvGaussDist_sample_mean sc 1 mu = mu /\ Gen_InvGaussDist_sample_var sc 1 mu = sc * Gen_InvGaussDist_V0 1 mu).
Proof. exact (conj normal_sample (conj binom_sample (conj pois_sample (conj gamma_sample ig_sample)))). Qed.
Print Assumptions C06_sample_moments.

(* scale estimate: the user's scale when given, else weighted Pearson statistic / (n - edof) *)
Theorem C06_phi : forall sc V0 edof ws ys mus,
  Gen_phi true sc V0 edof ws ys mus = sc /\
  Gen_phi false sc V0 edof ws ys mus = Gen_pearson V0 ws ys mus / (INR (length mus) - edof) /\
  (forall w y mu, Gen_pearson V0 (w :: ws) (y :: ys) (mu :: mus) = w * ((y - mu) * (y - mu)) / V0 mu + Gen_pearson V0 ws ys mus).
Proof. intros. split; [apply phi_known|split; [apply phi_unknown|intros; apply pearson_cons]]. Qed.
Print Assumptions C06_phi.

Example C06_example_binomial_boundary : (0 <= 0 <= 5) /\ (0 < 1.5 < 5) /\ (0 <= 5 <= 5).
Proof. lra. Qed.
