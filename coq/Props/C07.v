(* Props/C07.v -- property theorems only, about the definitions GENERATED from pygam/links.py (coq/Gen/Links.v),
   the NaN-aware translation of each link and the generated statement order of GAM.fit (coq/Gen/FitPrefix.v). *)
From Coq Require Import Reals Lra List Bool.
From Coquelicot Require Import Coquelicot.
From PG Require Import Base.Ops Base.ExtReal Gen.Links Gen.FitPrefix Proofs.C07 Proofs.C07Bij.
Open Scope R_scope.

(* inverse link after link returns the mean, on the open mean domain of each link *)
Theorem C07_inv_left :
  (forall L m, Gen_IdentityLink_mu L (Gen_IdentityLink_link L m) = m) /\
  (forall L m, 0 < m -> Gen_LogLink_mu L (Gen_LogLink_link L m) = m) /\
  (forall L m, 0 < m < L -> Gen_LogitLink_mu L (Gen_LogitLink_link L m) = m) /\
  (forall L m, m <> 0 -> Gen_InverseLink_mu L (Gen_InverseLink_link L m) = m) /\
  (forall L m, 0 < m -> Gen_InvSquaredLink_mu L (Gen_InvSquaredLink_link L m) = m).
Proof. exact (conj identity_inv_left (conj log_inv_left (conj logit_inv_left (conj inverse_inv_left invsq_inv_left)))). Qed.
Print Assumptions C07_inv_left.

(* link after inverse link returns the linear predictor, for every value in the link's range; the mean lands in the domain *)
Theorem C07_inv_right :
  (forall L e, Gen_IdentityLink_link L (Gen_IdentityLink_mu L e) = e) /\
  (forall L e, Gen_LogLink_link L (Gen_LogLink_mu L e) = e /\ 0 < Gen_LogLink_mu L e) /\
  (forall L e, 0 < L -> Gen_LogitLink_link L (Gen_LogitLink_mu L e) = e /\ 0 < Gen_LogitLink_mu L e < L) /\
  (forall L e, e <> 0 -> Gen_InverseLink_link L (Gen_InverseLink_mu L e) = e) /\
  (forall L e, 0 < e -> Gen_InvSquaredLink_link L (Gen_InvSquaredLink_mu L e) = e /\ 0 < Gen_InvSquaredLink_mu L e).
Proof.
  refine (conj identity_inv_right (conj _ (conj _ (conj inverse_inv_right _)))).
  - intros; split; [apply log_inv_right|apply log_range].
  - intros; split; [apply logit_inv_right; assumption|apply logit_mu_range; assumption].
  - intros; split; [apply invsq_inv_right; assumption|apply invsq_mu_range; assumption].
Qed.
Print Assumptions C07_inv_right.

(* the reported gradient is the derivative of the link with respect to the mean *)
Theorem C07_gradient :
  (forall L m, is_derive (Gen_IdentityLink_link L) m (Gen_IdentityLink_gradient L m)) /\
  (forall L m, 0 < m -> is_derive (Gen_LogLink_link L) m (Gen_LogLink_gradient L m)) /\
  (forall L m, 0 < m < L -> is_derive (Gen_LogitLink_link L) m (Gen_LogitLink_gradient L m)) /\
  (forall L m, m <> 0 -> is_derive (Gen_InverseLink_link L) m (Gen_InverseLink_gradient L m)) /\
  (forall L m, m <> 0 -> is_derive (Gen_InvSquaredLink_link L) m (Gen_InvSquaredLink_gradient L m)).
Proof. exact (conj identity_gradient (conj log_gradient (conj logit_gradient (conj inverse_gradient invsq_gradient)))). Qed.
Print Assumptions C07_gradient.

(* strict monotonicity on the mean domain (increasing: identity, log, logit; decreasing: inverse, inverse squared) *)
Theorem C07_strict_mono :
  (forall L a b, a < b -> Gen_IdentityLink_link L a < Gen_IdentityLink_link L b) /\
  (forall L a b, 0 < a -> a < b -> Gen_LogLink_link L a < Gen_LogLink_link L b) /\
  (forall L a b, 0 < a -> a < b -> b < L -> Gen_LogitLink_link L a < Gen_LogitLink_link L b) /\
  (forall L a b, 0 < a -> a < b -> Gen_InverseLink_link L b < Gen_InverseLink_link L a) /\
  (forall L a b, a < b -> b < 0 -> Gen_InverseLink_link L b < Gen_InverseLink_link L a) /\
  (forall L a b, 0 < a -> a < b -> Gen_InvSquaredLink_link L b < Gen_InvSquaredLink_link L a).
Proof. exact (conj identity_mono (conj log_mono (conj logit_mono (conj inverse_mono_pos (conj inverse_mono_neg invsq_mono))))). Qed.
Print Assumptions C07_strict_mono.

(* each link is injective on its mean domain: together with C07_inv_left / C07_inv_right, a bijection domain <-> range *)
Theorem C07_injective :
  (forall L a b, Gen_IdentityLink_link L a = Gen_IdentityLink_link L b -> a = b) /\
  (forall L a b, 0 < a -> 0 < b -> Gen_LogLink_link L a = Gen_LogLink_link L b -> a = b) /\
  (forall L a b, 0 < a < L -> 0 < b < L -> Gen_LogitLink_link L a = Gen_LogitLink_link L b -> a = b) /\
  (forall L a b, a <> 0 -> b <> 0 -> Gen_InverseLink_link L a = Gen_InverseLink_link L b -> a = b) /\
  (forall L a b, 0 < a -> 0 < b -> Gen_InvSquaredLink_link L a = Gen_InvSquaredLink_link L b -> a = b).
Proof. exact (conj identity_inj (conj log_inj (conj logit_inj (conj inverse_inj invsq_inj)))). Qed.
Print Assumptions C07_injective.

(* the reported gradient never vanishes on the mean domain and its sign is the direction of C07_strict_mono *)
Theorem C07_gradient_sign :
  (forall L m, 0 < Gen_IdentityLink_gradient L m) /\
  (forall L m, 0 < m -> 0 < Gen_LogLink_gradient L m) /\
  (forall L m, 0 < m < L -> 0 < Gen_LogitLink_gradient L m) /\
  (forall L m, m <> 0 -> Gen_InverseLink_gradient L m < 0) /\
  (forall L m, 0 < m -> Gen_InvSquaredLink_gradient L m < 0).
Proof. exact (conj identity_grad_pos (conj log_grad_pos (conj logit_grad_pos (conj inverse_grad_neg invsq_grad_neg)))). Qed.
Print Assumptions C07_gradient_sign.

(* inverse function rule: the derivative of the inverse link is the reciprocal of the reported gradient at the mean *)
Theorem C07_inverse_link_derivative :
  (forall L e, is_derive (Gen_IdentityLink_mu L) e (/ Gen_IdentityLink_gradient L (Gen_IdentityLink_mu L e))) /\
  (forall L e, is_derive (Gen_LogLink_mu L) e (/ Gen_LogLink_gradient L (Gen_LogLink_mu L e))) /\
  (forall L e, 0 < L -> is_derive (Gen_LogitLink_mu L) e (/ Gen_LogitLink_gradient L (Gen_LogitLink_mu L e))) /\
  (forall L e, e <> 0 -> is_derive (Gen_InverseLink_mu L) e (/ Gen_InverseLink_gradient L (Gen_InverseLink_mu L e))).
Proof. exact (conj identity_mu_derive (conj log_mu_derive (conj logit_mu_derive inverse_mu_derive))). Qed.
Print Assumptions C07_inverse_link_derivative.

(* the domain restriction of C07_injective is needed: 1/mu^2 identifies mu and -mu *)
Theorem C07_invsq_signed_not_injective : forall L, Gen_InvSquaredLink_link L 2 = Gen_InvSquaredLink_link L (-2) /\ 2 <> -2.
Proof. exact invsq_not_inj_signed. Qed.
Print Assumptions C07_invsq_signed_not_injective.

(* check_y raises iff np.isnan(link(y)) for some target: for finite targets that is exactly "outside the closed domain" *)
Theorem C07_domain_nan :
  (forall L y, Eisnan (GenE_IdentityLink_link L (Fin y)) = false) /\
  (forall L y, Eisnan (GenE_LogLink_link L (Fin y)) = true <-> y < 0) /\
  (forall L y, 0 < L -> (Eisnan (GenE_LogitLink_link L (Fin y)) = true <-> (y < 0 \/ L < y))) /\
  (forall L y, Eisnan (GenE_InverseLink_link L (Fin y)) = false) /\
  (forall L y, Eisnan (GenE_InvSquaredLink_link L (Fin y)) = false).
Proof. exact (conj nan_identity (conj nan_log (conj nan_logit (conj nan_inverse nan_invsq)))). Qed.
Print Assumptions C07_domain_nan.

(* in GAM.fit the targets are validated before any statement that mentions y and before any state change or fitting *)
Theorem C07_domain_reject_before_fit : fit_prefix_ok Gen_fit_events = true.
Proof. exact fit_prefix_checked. Qed.
Print Assumptions C07_domain_reject_before_fit.

(* non-vacuity *)
Example C07_example_logit : 0 < 3 /\ (0 < 1.25 < 3).
Proof. split; [|split]; apply Rlt_gt; try (apply Rlt_0_1 || idtac); lra. Qed.
