(* Props/C04.v -- property theorems only.  Each is closed by `exact <lemma>` and followed by Print Assumptions.
   Objects: coq/Model/Penalties.v (executable model of pygam/penalties.py and *.build_penalties), real instance. *)
From Coq Require Import List Reals.
From PG Require Import Base.Ops Base.Vec Model.Penalties Proofs.VecR Proofs.C04 Proofs.C04b Proofs.C04Transfer.
Import ListNotations.
Open Scope R_scope.

(* derivative penalty: beta' P beta = sum of squared d-th differences, all n, d >= 1, beta *)
Theorem C04_derivative_quadform : forall n d bs, (1 <= d)%nat -> length bs = n ->
  quadR (pen_derivative Rrops n d) bs = sumsqR (diffnR d bs).
Proof. exact derivative_quadform. Qed.
Print Assumptions C04_derivative_quadform.

(* ridge and null penalties *)
Theorem C04_l2_quadform : forall n bs, length bs = n -> quadR (pen_l2 Rrops n) bs = sumsqR bs.
Proof. exact l2_quadform. Qed.
Print Assumptions C04_l2_quadform.
Theorem C04_none_zero : forall n bs, quadR (pen_none Rrops n) bs = 0.
Proof. exact none_quadform. Qed.
Print Assumptions C04_none_zero.

(* what the property promises for the cyclic penalty holds of the SPECIFICATION matrix (Gram of cyclic differences) ... *)
Theorem C04_cyclic_spec_quadform : forall n d bs, (1 <= d)%nat -> length bs = n ->
  quadR (pen_cyclic_spec Rrops n d) bs = sumsqR (cdiffnR d bs).
Proof. exact periodic_quadform. Qed.
Print Assumptions C04_cyclic_spec_quadform.
(* ... but is FALSE of the matrix the code builds (faithful model pen_periodic): known finding S5 *)
Theorem C04_cyclic_quadform_refuted :
  exists n d bs M, (1 <= d)%nat /\ length bs = n /\ pen_periodic Rrops n d = Some M /\
                   quadR M bs <> sumsqR (cdiffnR d bs).
Proof. exact periodic_code_refuted. Qed.
Print Assumptions C04_cyclic_quadform_refuted.
(* what remains true of the code's cyclic penalty: symmetric positive semi-definite (it is a Gram matrix) *)
Theorem C04_cyclic_sym_psd_partial : forall n d M, pen_periodic Rrops n d = Some M -> bisym M n /\ psd M n.
Proof. exact periodic_code_sym_psd. Qed.
Print Assumptions C04_cyclic_sym_psd_partial.

(* symmetry and positive semi-definiteness of the derivative penalty follow from the quadratic form / Gram structure *)
Theorem C04_derivative_psd : forall n d bs, (1 <= d)%nat -> length bs = n -> 0 <= quadR (pen_derivative Rrops n d) bs.
Proof. intros n d bs Hd H. rewrite (derivative_quadform n d bs Hd H). apply sumsq_nonneg. Qed.
Print Assumptions C04_derivative_psd.

(* null spaces: constants (d >= 1) and straight lines (d >= 2) are unpenalised; cyclic differences kill constants *)
Theorem C04_null_constants : forall d c n, (1 <= d)%nat -> diffnR d (repeat c n) = zerosR (n - d).
Proof. exact derivative_null_constants. Qed.
Print Assumptions C04_null_constants.
Theorem C04_null_lines : forall d a b n, (2 <= d)%nat -> diffnR d (arith a b n) = zerosR (n - d).
Proof. exact derivative_null_lines. Qed.
Print Assumptions C04_null_lines.
Theorem C04_cyclic_null_constants : forall d c n, (1 <= d)%nat -> cdiffnR d (repeat c n) = zerosR n.
Proof. exact periodic_null_constants. Qed.
Print Assumptions C04_cyclic_null_constants.

(* a term's penalty is sum_j lam_j P_j (quadratic forms add) and is n x n *)
Theorem C04_term_sum : forall m v, margin_ok m ->
  quadR (margin_penalty Rrops m) v = sum_lam_quad (m_kind m) (m_n m) (m_pens m) v.
Proof. exact margin_penalty_sum. Qed.
Print Assumptions C04_term_sum.

(* Kronecker lift I_p (x) B acts on the p consecutive length-q chunks of the coefficient vector (C order, last axis).
   PARTIAL: the general k-way statement (lift of marginal i = sum over all axis-i fibres) is proved only for this
   last-axis lift; the other axes and the left-to-right fold of scipy.sparse.kron are covered by correspondence. *)
Theorem C04_tensor_kron_last_axis_partial : forall B q p v, square B q -> length v = (p * q)%nat ->
  quadR (kron Rrops (identR p) B) v = quad_chunks B q p v.
Proof. exact kron_ident_l_quad. Qed.
Print Assumptions C04_tensor_kron_last_axis_partial.

(* the model penalty is block diagonal in term order: its quadratic form is the sum of the blocks' forms on the
   corresponding coefficient slices (the intercept block is [[0]]) *)
Theorem C04_block_diag : forall Ps v, Forall (fun P => square P (length P)) Ps -> length v = total Ps ->
  quadR (block_diag Rrops Ps) v = quad_blocks Ps v.
Proof. exact block_diag_quad. Qed.
Print Assumptions C04_block_diag.

(* what the integer instance computes (used by the correspondence check) is what the real instance denotes *)
Theorem C04_transfer_derivative : forall n d, pen_derivative Rrops n d = map (map IZR) (pen_derivative Zrops n d).
Proof. exact pen_derivative_Z2R. Qed.
Print Assumptions C04_transfer_derivative.
Theorem C04_transfer_periodic : forall n d, pen_periodic Rrops n d = option_map (map (map IZR)) (pen_periodic Zrops n d).
Proof. exact pen_periodic_Z2R. Qed.
Print Assumptions C04_transfer_periodic.

(* non-vacuity: the hypotheses are met by concrete non-trivial values *)
Example C04_example_margin_ok : margin_ok (mk_margin (KSpline true false) 5 [(PAuto, 3); (PDeriv 2, 1/2)]).
Proof. repeat constructor; cbn; auto with arith. Qed.
