(* Props/C04.v -- property theorems only.  Each is closed by `exact <lemma>` and followed by Print Assumptions.
   Objects: coq/Model/Penalties.v (executable model of pygam/penalties.py and *.build_penalties), real instance. *)
From Coq Require Import List Reals.
From PG Require Import Base.Ops Base.Vec Model.Penalties Proofs.VecR Proofs.C04 Proofs.C04b Proofs.C04Transfer.
From PG Require Import Proofs.C04Kron Proofs.C04Kron2 Proofs.C04Kron3 Proofs.C04Poly.
Import ListNotations.
Open Scope R_scope.

(* derivative penalty: beta' P beta = sum of squared d-th differences, all n, d >= 1, beta *)
Theorem C04_derivative_quadform : forall n d bs, (1 <= d)%nat -> length bs = n ->
  quadR (pen_derivative Rrops n d) bs = sumsqR (diffnR d bs).
Proof. exact derivative_quadform. Qed.
Print Assumptions C04_derivative_quadform.

(* ridge and null penalties *)
Theorem C04_l2_quadform : forall n bs, length bs = n -> quadR (pen_l2 Rrops n) bs = sumsqR bs.
Proof. exact l2_quadform. Qed.
Print Assumptions C04_l2_quadform.
Theorem C04_none_zero : forall n bs, quadR (pen_none Rrops n) bs = 0.
Proof. exact none_quadform. Qed.
Print Assumptions C04_none_zero.

(* what the property promises for the cyclic penalty holds of the SPECIFICATION matrix (Gram of cyclic differences) ... *)
Theorem C04_cyclic_spec_quadform : forall n d bs, (1 <= d)%nat -> length bs = n ->
  quadR (pen_cyclic_spec Rrops n d) bs = sumsqR (cdiffnR d bs).
Proof. exact periodic_quadform. Qed.
Print Assumptions C04_cyclic_spec_quadform.
(* ... but is FALSE of the matrix the code builds (faithful model pen_periodic): known finding S5 *)
Theorem C04_cyclic_quadform_refuted :
  exists n d bs M, (1 <= d)%nat /\ length bs = n /\ pen_periodic Rrops n d = Some M /\
                   quadR M bs <> sumsqR (cdiffnR d bs).
Proof. exact periodic_code_refuted. Qed.
Print Assumptions C04_cyclic_quadform_refuted.
(* what remains true of the code's cyclic penalty: symmetric positive semi-definite (it is a Gram matrix) *)
Theorem C04_cyclic_sym_psd_partial : forall n d M, pen_periodic Rrops n d = Some M -> bisym M n /\ psd M n.
Proof. exact periodic_code_sym_psd. Qed.
Print Assumptions C04_cyclic_sym_psd_partial.

(* symmetry and positive semi-definiteness of the derivative penalty follow from the quadratic form / Gram structure *)
Theorem C04_derivative_psd : forall n d bs, (1 <= d)%nat -> length bs = n -> 0 <= quadR (pen_derivative Rrops n d) bs.
Proof. intros n d bs Hd H. rewrite (derivative_quadform n d bs Hd H). apply sumsq_nonneg. Qed.
Print Assumptions C04_derivative_psd.

(* null spaces: constants (d >= 1) and straight lines (d >= 2) are unpenalised; cyclic differences kill constants *)
Theorem C04_null_constants : forall d c n, (1 <= d)%nat -> diffnR d (repeat c n) = zerosR (n - d).
Proof. exact derivative_null_constants. Qed.
Print Assumptions C04_null_constants.
Theorem C04_null_lines : forall d a b n, (2 <= d)%nat -> diffnR d (arith a b n) = zerosR (n - d).
Proof. exact derivative_null_lines. Qed.
Print Assumptions C04_null_lines.
(* the general statement of the property: every polynomial sequence of degree below d (at most d coefficients; sampled at a, a+1, ...:
   the B-spline coefficients of a polynomial on uniform knots form such a sequence) has vanishing d-th difference, hence zero
   quadratic form under the order-d derivative penalty.  C04_null_constants / C04_null_lines are the cases d >= 1, 2. *)
Theorem C04_null_polynomials : forall d cs a n, (length cs <= d)%nat ->
  diffnR d (sample (fun i => polyval cs (INR i)) a n) = zerosR (n - d).
Proof. exact derivative_null_polynomials. Qed.
Print Assumptions C04_null_polynomials.
Theorem C04_penalty_null_polynomials : forall d cs n, (1 <= d)%nat -> (length cs <= d)%nat ->
  quadR (pen_derivative Rrops n d) (sample (fun i => polyval cs (INR i)) 0 n) = 0.
Proof. exact derivative_penalty_null_polynomials. Qed.
Print Assumptions C04_penalty_null_polynomials.

Theorem C04_cyclic_null_constants : forall d c n, (1 <= d)%nat -> cdiffnR d (repeat c n) = zerosR n.
Proof. exact periodic_null_constants. Qed.
Print Assumptions C04_cyclic_null_constants.

(* a term's penalty is sum_j lam_j P_j (quadratic forms add) and is n x n *)
Theorem C04_term_sum : forall m v, margin_ok m ->
  quadR (margin_penalty Rrops m) v = sum_lam_quad (m_kind m) (m_n m) (m_pens m) v.
Proof. exact margin_penalty_sum. Qed.
Print Assumptions C04_term_sum.

(* Kronecker lift I_p (x) B acts on the p consecutive length-q chunks of the coefficient vector (C order, last axis).
   NOW SUBSUMED by the general k-way theorems C04_tensor_kron_lift / C04_tensor_penalty_quadform below (every axis,
   any number of marginals, the left-to-right fold of scipy.sparse.kron included); kept, under its old name, only as
   the last-axis special case -- nothing is missing any more. *)
Theorem C04_tensor_kron_last_axis_partial : forall B q p v, square B q -> length v = (p * q)%nat ->
  quadR (kron Rrops (identR p) B) v = quad_chunks B q p v.
Proof. exact kron_ident_l_quad. Qed.
Print Assumptions C04_tensor_kron_last_axis_partial.

(* GENERAL k-way tensor penalty (TensorTerm.build_penalties / _build_marginal_penalties), any list of marginals ms.
   Coefficients are in C order (last marginal fastest).  `fibres 0 dims i v` (Proofs/C04Kron2.v, executable) lists the
   axis-i fibres of v: with p = prod_{j<i} n_j, n = n_i, q = prod_{j>i} n_j, the sub-vectors
   v[a n q + c], v[a n q + c + q], ... (n entries, stride q) for a < p, c < q.
   (a) the lift of marginal i -- kron, left to right, of (P_i at position i, identities elsewhere) -- has as quadratic
       form the sum over all axis-i fibres of the marginal penalty's quadratic form *)
Theorem C04_tensor_kron_lift : forall (ms : list (@margin R)) i m v,
  nth_error ms i = Some m -> margin_ok m -> length v = tensor_n ms ->
  quadR (marginal_lift Rrops ms i) v
  = vsumR (map (quadR (margin_penalty Rrops m)) (fibres 0 (map (@m_n R) ms) i v)).
Proof. exact tensor_kron_lift_nth. Qed.
Print Assumptions C04_tensor_kron_lift.
(* sanity of the fibre decomposition (any element type): count, lengths, and the fibres together rearrange v *)
Theorem C04_fibres_count : forall (A : Type) (d : A) dims i v, (i < length dims)%nat -> nth i dims O <> O ->
  length (fibres d dims i v) = (prod_dims dims / nth i dims O)%nat.
Proof. exact @fibres_count_div. Qed.
Print Assumptions C04_fibres_count.
Theorem C04_fibres_lengths : forall (A : Type) (d : A) dims i v,
  Forall (fun f => length f = nth i dims O) (fibres d dims i v).
Proof. exact @fibres_lengths. Qed.
Print Assumptions C04_fibres_lengths.
Theorem C04_fibres_permutation : forall (A : Type) (d : A) dims i v, (i < length dims)%nat -> length v = prod_dims dims ->
  Permutation.Permutation (concat (fibres d dims i v)) v.
Proof. exact @fibres_perm. Qed.
Print Assumptions C04_fibres_permutation.
(* (b) the tensor penalty (the model's fold of madd over the axes) has as quadratic form the sum over the axes of
       the fibre sums (fibre_sum ms i v is the right-hand side of (a) with m = the i-th marginal) *)
Theorem C04_tensor_penalty_quadform : forall (ms : list (@margin R)) v, Forall margin_ok ms -> length v = tensor_n ms ->
  quadR (tensor_penalty Rrops ms) v = vsumR (map (fun i => fibre_sum ms i v) (seq 0 (length ms))).
Proof. exact tensor_penalty_quadform. Qed.
Print Assumptions C04_tensor_penalty_quadform.
(* hence: the tensor penalty is symmetric PSD when every marginal penalty is ... *)
Theorem C04_tensor_penalty_sym_psd : forall (ms : list (@margin R)), Forall margin_ok ms ->
  Forall (fun m => bisym (margin_penalty Rrops m) (m_n m) /\ psd (margin_penalty Rrops m) (m_n m)) ms ->
  bisym (tensor_penalty Rrops ms) (tensor_n ms) /\ psd (tensor_penalty Rrops ms) (tensor_n ms).
Proof. exact tensor_penalty_sym_psd. Qed.
Print Assumptions C04_tensor_penalty_sym_psd.
(* ... which is the case whenever all lam are non-negative (every penalty matrix of the model, the code's cyclic one
   included, is symmetric PSD); the tensor penalty is also tensor_n x tensor_n *)
Theorem C04_tensor_penalty_sym_psd_lam : forall (ms : list (@margin R)), Forall margin_ok ms -> Forall lam_nonneg ms ->
  square (tensor_penalty Rrops ms) (tensor_n ms) /\
  bisym (tensor_penalty Rrops ms) (tensor_n ms) /\ psd (tensor_penalty Rrops ms) (tensor_n ms).
Proof. exact tensor_penalty_sym_psd_lam. Qed.
Print Assumptions C04_tensor_penalty_sym_psd_lam.

(* the model penalty is block diagonal in term order: its quadratic form is the sum of the blocks' forms on the
   corresponding coefficient slices (the intercept block is [[0]]) *)
Theorem C04_block_diag : forall Ps v, Forall (fun P => square P (length P)) Ps -> length v = total Ps ->
  quadR (block_diag Rrops Ps) v = quad_blocks Ps v.
Proof. exact block_diag_quad. Qed.
Print Assumptions C04_block_diag.

(* what the integer instance computes (used by the correspondence check) is what the real instance denotes *)
Theorem C04_transfer_derivative : forall n d, pen_derivative Rrops n d = map (map IZR) (pen_derivative Zrops n d).
Proof. exact pen_derivative_Z2R. Qed.
Print Assumptions C04_transfer_derivative.
Theorem C04_transfer_periodic : forall n d, pen_periodic Rrops n d = option_map (map (map IZR)) (pen_periodic Zrops n d).
Proof. exact pen_periodic_Z2R. Qed.
Print Assumptions C04_transfer_periodic.

(* non-vacuity: the hypotheses are met by concrete non-trivial values *)
Example C04_example_margin_ok : margin_ok (mk_margin (KSpline true false) 5 [(PAuto, 3); (PDeriv 2, 1/2)]).
Proof. repeat constructor; cbn; auto with arith. Qed.
