(* Props/C04.v -- property theorems only.  Each is closed by `exact <lemma>` and followed by Print Assumptions. *)
From Coq Require Import List Reals.
From PG Require Import Base.Ops Base.Vec Model.Penalties Proofs.VecR Proofs.C04.
Import ListNotations.
Open Scope R_scope.

Theorem C04_derivative_quadform : forall n d bs, (1 <= d)%nat -> length bs = n ->
  quadR (pen_derivative Rrops n d) bs = sumsqR (diffnR d bs).
Proof. exact derivative_quadform. Qed.
Print Assumptions C04_derivative_quadform.

Theorem C04_cyclic_quadform : forall n d bs, (1 <= d)%nat -> length bs = n ->
  quadR (pen_periodic Rrops n d) bs = sumsqR (cdiffnR d bs).
Proof. exact periodic_quadform. Qed.
Print Assumptions C04_cyclic_quadform.

Theorem C04_l2_quadform : forall n bs, length bs = n -> quadR (pen_l2 Rrops n) bs = sumsqR bs.
Proof. exact l2_quadform. Qed.
Print Assumptions C04_l2_quadform.

Theorem C04_none_zero : forall n bs, quadR (pen_none Rrops n) bs = 0.
Proof. exact none_quadform. Qed.
Print Assumptions C04_none_zero.
