(* Props/C20.v -- property theorems only.  Each is closed by `exact <lemma>` and followed by Print Assumptions.
   All theorems are about the interpreter of Model/Loop.v run on Gen_pirls / Gen_builtins / Gen_ctors, which are
   regenerated from pygam/pygam.py and pygam/callbacks.py by translator/skel_c20.py on every check.
   ok_cfg c := 1 <= max_iter c /\ (the QR-NaN guard never fires) /\ (no on_loop_start asks for coef_new/diff). *)
From Coq Require Import List String Arith.
From PG Require Import Model.Loop Gen.C20Skeleton Proofs.C20.
Import ListNotations.
Open Scope string_scope.
Open Scope list_scope.

(* at least one, at most max_iter iterations; exactly min(max_iter, first k with diff_k < tol); never OutOfFuel *)
Theorem C20_iterations : forall c fuel, ok_cfg c -> max_iter c + 1 <= fuel ->
  exists st, run Gen_pirls c fuel = Ok Returned st /\ it st = stop_index c /\ 1 <= it st <= max_iter c.
Proof. exact iterations. Qed.
Print Assumptions C20_iterations.

(* no earlier iteration had diff < tol; stopping early means diff < tol (strictly; = tol and NaN do not stop) *)
Theorem C20_stop_rule : forall c fuel, ok_cfg c -> max_iter c + 1 <= fuel ->
  exists st, run Gen_pirls c fuel = Ok Returned st /\
  (forall j, 1 <= j < it st -> oracle c j <> DLt) /\
  (it st < max_iter c -> oracle c (it st) = DLt) /\
  (forall j, 1 <= j <= max_iter c -> oracle c j = DLt -> it st <= j).
Proof. exact stop_rule. Qed.
Print Assumptions C20_stop_rule.

Theorem C20_nonconvergence_reported : forall c fuel, ok_cfg c -> max_iter c + 1 <= fuel ->
  exists st, run Gen_pirls c fuel = Ok Returned st /\
  (oracle c (it st) = DLt -> printed st = []) /\
  (oracle c (it st) <> DLt -> printed st = ["did not converge"]).
Proof. exact nonconvergence_reported. Qed.
Print Assumptions C20_nonconvergence_reported.

Theorem C20_statistics_always : forall c fuel, ok_cfg c -> max_iter c + 1 <= fuel ->
  exists st, run Gen_pirls c fuel = Ok Returned st /\ stats st = 1.
Proof. exact statistics_always. Qed.
Print Assumptions C20_statistics_always.

(* every callback (built-in or user) gets, per method it has, exactly one entry per iteration, in order *)
Theorem C20_one_log_per_hook_per_iter : forall c fuel, ok_cfg c -> max_iter c + 1 <= fuel ->
  forall cb, names_unique (cbs c) -> In cb (cbs c) -> forall h,
  exists st, run Gen_pirls c fuel = Ok Returned st /\
  map s_it (filter (fun e => hook_eqb (s_hook e) h) (log_of (cb_name cb) st)) =
  if is_some (cb_method cb h) then seq 1 (it st) else [].
Proof. exact log_per_hook. Qed.
Print Assumptions C20_one_log_per_hook_per_iter.

Theorem C20_log_length : forall c fuel, ok_cfg c -> max_iter c + 1 <= fuel ->
  forall cb, names_unique (cbs c) -> In cb (cbs c) ->
  exists st, run Gen_pirls c fuel = Ok Returned st /\
  List.length (log_of (cb_name cb) st) = it st * hooks_of cb.
Proof. exact log_length. Qed.
Print Assumptions C20_log_length.

(* PARTIAL: "exactly one entry per iteration" holds for callbacks with exactly one of on_loop_start/on_loop_end
   (all four built-ins, see C20_builtins_single_hook); missing: callbacks defining both methods, which get two
   entries per iteration in the same list (C20_one_log_per_iter_refuted), and callbacks sharing a name. *)
Theorem C20_one_log_per_iter_partial : forall c fuel, ok_cfg c -> max_iter c + 1 <= fuel ->
  forall cb, names_unique (cbs c) -> In cb (cbs c) -> hooks_of cb = 1 ->
  exists st, run Gen_pirls c fuel = Ok Returned st /\ map s_it (log_of (cb_name cb) st) = seq 1 (it st).
Proof. exact one_log_per_iter_single. Qed.
Print Assumptions C20_one_log_per_iter_partial.

Theorem C20_one_log_per_iter_refuted : exists c cb st, ok_cfg c /\ names_unique (cbs c) /\ In cb (cbs c) /\
  run Gen_pirls c (max_iter c + 1) = Ok Returned st /\ List.length (log_of (cb_name cb) st) <> it st.
Proof. exact one_log_per_iter_refuted. Qed.
Print Assumptions C20_one_log_per_iter_refuted.

Theorem C20_builtins_single_hook : forall b, In b Gen_builtins ->
  hooks_of (b_cb b) = 1 /\ cb_ok (b_cb b) /\ cb_name (b_cb b) = b_key b.
Proof. exact builtins_single_hook. Qed.
Print Assumptions C20_builtins_single_hook.

(* the 'deviance' built-in is an on_loop_start callback returning deviance(y, mu) ... *)
Theorem C20_deviance_builtin : exists b, find_builtin "deviance" = Some b /\ cb_name (b_cb b) = "deviance" /\
  cb_start (b_cb b) = Some [VGam; VY; VMu] /\ cb_end (b_cb b) = None /\ b_ret b = RDeviance [VY; VMu].
Proof. exact deviance_builtin. Qed.
Print Assumptions C20_deviance_builtin.

(* ... and the j-th entry (0-based) of any on_loop_start-only callback is taken in iteration j+1 while the model
   still holds the vector it entered the iteration with (id j: initial for j = 0, produced by iteration j
   otherwise), with lp and mu computed from that vector *)
Theorem C20_deviance_is_of_entering_coef : forall c fuel, ok_cfg c -> max_iter c + 1 <= fuel ->
  forall cb, names_unique (cbs c) -> In cb (cbs c) -> is_some (cb_start cb) = true -> cb_end cb = None ->
  exists st, run Gen_pirls c fuel = Ok Returned st /\
  List.length (log_of (cb_name cb) st) = it st /\
  forall j, j < it st -> exists e, nth_error (log_of (cb_name cb) st) j = Some e /\
     s_hook e = HStart /\ s_it e = S j /\ s_enter e = j /\ s_coef e = j /\ s_lp e = Some j /\ s_mu e = Some j.
Proof. exact start_log_contents. Qed.
Print Assumptions C20_deviance_is_of_entering_coef.

(* on_loop_end-only callbacks ('diffs'): entry j is taken after iteration j+1 assigned its coef_new (id j+1) to the
   model; diff compares the entering vector j with coef_new j+1 *)
Theorem C20_end_log_contents : forall c fuel, ok_cfg c -> max_iter c + 1 <= fuel ->
  forall cb, names_unique (cbs c) -> In cb (cbs c) -> cb_start cb = None -> is_some (cb_end cb) = true ->
  exists st, run Gen_pirls c fuel = Ok Returned st /\
  List.length (log_of (cb_name cb) st) = it st /\
  forall j, j < it st -> exists e, nth_error (log_of (cb_name cb) st) j = Some e /\
     s_hook e = HEnd /\ s_it e = S j /\ s_enter e = j /\ s_coef e = S j /\ s_cnew e = Some (S j) /\ s_diff e = Some (j, S j).
Proof. exact end_log_contents. Qed.
Print Assumptions C20_end_log_contents.

Theorem C20_final_coef_is_last : forall c fuel, ok_cfg c -> max_iter c + 1 <= fuel ->
  exists st, run Gen_pirls c fuel = Ok Returned st /\ coef st = it st /\ cnew st = Some (it st).
Proof. exact final_coef_is_last. Qed.
Print Assumptions C20_final_coef_is_last.

(* constructor forwarding: every model class accepts `callbacks` and hands it to the base constructor
   (finding S13, LinearGAM dropping it, was repaired in /repo; the statement is now unguarded) *)
Theorem C20_callbacks_forwarded : forall k, In k Gen_ctors ->
  smem "callbacks" (c_params k) = true /\ ctor_reaches "callbacks" k = true.
Proof. exact callbacks_forwarded. Qed.
Print Assumptions C20_callbacks_forwarded.

Theorem C20_loop_params_forwarded : forall k, In k Gen_ctors ->
  ctor_reaches "max_iter" k = true /\ ctor_reaches "tol" k = true.
Proof. exact loop_params_forwarded. Qed.
Print Assumptions C20_loop_params_forwarded.

Theorem C20_model_classes : map c_class Gen_ctors =
  ["GAM"; "LinearGAM"; "LogisticGAM"; "PoissonGAM"; "GammaGAM"; "InvGaussGAM"; "ExpectileGAM"].
Proof. exact model_classes. Qed.
Print Assumptions C20_model_classes.

Theorem C20_max_iter_validated : Gen_max_iter_constraint = ">=1" /\ Gen_max_iter_dtype = "int".
Proof. exact max_iter_validated. Qed.
Print Assumptions C20_max_iter_validated.
