(* Props/C10.v -- property theorems only.  Each is closed by `exact <lemma>` and followed by Print Assumptions.
   Gen_gridsearch / Gen_poisson_forwards / Gen_combine_matches_model are regenerated from pygam/pygam.py and
   pygam/utils.py by translator/skel_c10.py on every check.
   NOT PROVED (checked on every run by independent fits, tolerance tied to tol): "each candidate's score equals the
   objective of an independently fitted model" -- it depends on PIRLS converging to the same optimum from a warm
   start, which is C01's subject. NaN scores are outside the model. *)
From Coq Require Import List String Bool Arith QArith.
From PG Require Import Model.Grid Gen.C10Skeleton Proofs.C10Combine Proofs.C10.
Import ListNotations.
Open Scope nat_scope.
Open Scope list_scope.

(* utils.combine = the lexicographic Cartesian product: same list, length = product of the lengths, membership *)
Theorem C10_combine_is_product : forall (A : Type) (gs : list (list A)), gs <> [] ->
  combine gs = product gs /\
  List.length (combine gs) = prod_len gs /\
  (forall c, In c (combine gs) <-> Forall2 (fun x g => In x g) c gs).
Proof. exact @combine_product_spec. Qed.
Print Assumptions C10_combine_is_product.

(* order: candidate (i, rest) sits at mixed-radix index i * |product r| + j -- the last grid varies fastest *)
Theorem C10_combine_lexicographic : forall (A : Type) (g : list A) (r : list (list A)) i j (d : A),
  i < List.length g -> j < List.length (product r) ->
  nth_error (product (g :: r)) (i * List.length (product r) + j) = option_map (cons (nth i g d)) (nth_error (product r) j).
Proof. exact @product_index. Qed.
Print Assumptions C10_combine_lexicographic.

(* the candidates are exactly the product over the parameters of the per-parameter candidate values ... *)
Theorem C10_candidates_exact : forall (A : Type) (ps : list (string * nat * grid A)) cs, ps <> [] -> candidates ps = Some cs ->
  exists vs, prepare_all ps = Some vs /\
    cs = map (fun c => List.combine (map (fun p => fst (fst p)) ps) c) (product vs) /\
    List.length cs = prod_len vs.
Proof. exact @candidates_spec. Qed.
Print Assumptions C10_candidates_exact.

(* ... where a 1-D grid gives one scalar per element (broadcast to all terms by the plural setter) ... *)
Theorem C10_grid_1d : forall (A : Type) tl (xs : list A) v, prepare tl (G1d xs) = Some v ->
  v = map Scalar xs /\ 1 < List.length xs.
Proof. exact @prepare_1d. Qed.
Print Assumptions C10_grid_1d.

(* ... a 2-D array gives its rows as they are (each of the required width) ... *)
Theorem C10_grid_2d : forall (A : Type) tl (rows : list (list A)) v, prepare tl (G2d rows) = Some v ->
  v = map Vector rows /\ 1 < List.length rows /\ forall r, In r rows -> List.length r = tl.
Proof. exact @prepare_2d. Qed.
Print Assumptions C10_grid_2d.

(* ... and a list of lists gives the Cartesian product of the sub-grids, provided there is one sub-grid per value
   (at least two: a one-term model cannot be searched with a list of lists -- `len(grid) > 1` is required) *)
Theorem C10_grid_lists : forall (A : Type) tl (gs : list (list A)),
  prepare tl (GLists gs) =
  if Nat.ltb 1 (List.length gs) && Nat.eqb (List.length gs) tl then Some (map Vector (product gs)) else None.
Proof. exact @prepare_lists. Qed.
Print Assumptions C10_grid_lists.

Theorem C10_objective_table :
  resolve_objective Gen_gridsearch false "auto" = Some "GCV"%string /\
  resolve_objective Gen_gridsearch true "auto" = Some "UBRE"%string /\
  resolve_objective Gen_gridsearch true "GCV" = None /\
  resolve_objective Gen_gridsearch false "UBRE" = None /\
  resolve_objective Gen_gridsearch false "GCV" = Some "GCV"%string /\
  resolve_objective Gen_gridsearch true "UBRE" = Some "UBRE"%string /\
  (forall ks, resolve_objective Gen_gridsearch ks "AIC" = Some "AIC"%string /\
              resolve_objective Gen_gridsearch ks "AICc" = Some "AICc"%string) /\
  (forall ks o, ~ In o ["auto"; "GCV"; "UBRE"; "AIC"; "AICc"]%string -> resolve_objective Gen_gridsearch ks o = None) /\
  k_default_param Gen_gridsearch = "lam"%string.
Proof. exact objective_table. Qed.
Print Assumptions C10_objective_table.

(* for every history of candidate outcomes (score, or None = ValueError, skipped) and fitted / unfitted start:
   the models recorded are self (if fitted) followed by the non-skipped candidates in order, and the tracked best is
   the FIRST model attaining the minimum score (everything before it strictly worse, everything after not better) *)
Theorem C10_best_is_argmin : forall self_score outs,
  let st := g_run Gen_gridsearch self_score outs in
  models st = (match self_score with Some s => [(MSelf, s)] | None => [] end) ++ cand_entries 0 outs /\
  match best_model st with
  | Some m => argmin_first (models st) m (best_score st)
  | None => best_score st = Inf /\ forall p, In p (models st) -> snd p = Inf
  end.
Proof. exact best_is_argmin. Qed.
Print Assumptions C10_best_is_argmin.

(* keep_best=False: nothing is copied into self; keep_best=True: self receives the attributes of the tracked best;
   the return value is the dict of all recorded models or self *)
Theorem C10_keep_best_semantics : forall self_score outs rs,
  let st := g_run Gen_gridsearch self_score outs in
  fst (g_finish Gen_gridsearch false rs st) = None /\
  (forall m, best_model st = Some m -> fst (g_finish Gen_gridsearch true rs st) = Some m /\
             snd (g_finish Gen_gridsearch true rs st) = if rs then RetScores (models st) else RetSelf) /\
  (models st <> [] -> snd (g_finish Gen_gridsearch false rs st) = if rs then RetScores (models st) else RetSelf).
Proof. exact keep_best_semantics. Qed.
Print Assumptions C10_keep_best_semantics.

(* the winner's attributes are handed to self as a deep copy: whatever the history, self shares no object with a
   model of the returned dict afterwards (mutating a returned candidate cannot change self) *)
Theorem C10_keep_best_copy_independent : forall self_score outs keep,
  g_aliases Gen_gridsearch keep (g_run Gen_gridsearch self_score outs) = false.
Proof. exact keep_best_copy_independent. Qed.
Print Assumptions C10_keep_best_copy_independent.

(* every call / store in gridsearch whose receiver is `self` is either a read or sits under `if not self._is_fitted`
   / `if keep_best`: for a fitted model and keep_best=False nothing writes to self ... *)
Theorem C10_keep_best_false_pure : forall e, In e (k_effects Gen_gridsearch) -> e_recv e = RSelf ->
  pure_on_self (e_what e) = true \/ exists g, In g (e_guards e) /\ guard_excluded g = true.
Proof. exact keep_best_false_pure. Qed.
Print Assumptions C10_keep_best_false_pure.

(* ... and every mutation inside the candidate loop targets the deep copy *)
Theorem C10_loop_mutates_only_the_copy : forall e, In e (k_effects Gen_gridsearch) -> In GInLoop (e_guards e) ->
  e_recv e = RCopy \/ pure_on_self (e_what e) = true.
Proof. exact loop_effects_on_copy. Qed.
Print Assumptions C10_loop_mutates_only_the_copy.

Theorem C10_poisson_frontend_forwards : forall a,
  In a ["weights"; "return_scores"; "keep_best"; "objective"; "**param_grids"]%string -> In a Gen_poisson_forwards.
Proof. exact poisson_forwards. Qed.
Print Assumptions C10_poisson_frontend_forwards.

Theorem C10_skeleton_flags : Gen_combine_matches_model = true /\ k_grid_product Gen_gridsearch = true /\
  k_cartesian_lists Gen_gridsearch = true /\ k_skip_valueerror Gen_gridsearch = true /\ k_init_inf Gen_gridsearch = true /\
  k_return_scores_zip Gen_gridsearch = true /\ k_keep_copies_best Gen_gridsearch = true /\
  k_keep_deepcopies Gen_gridsearch = true.
Proof. exact skeleton_flags. Qed.
Print Assumptions C10_skeleton_flags.
