(* Alg/Solve.v -- the factorisation-based PIRLS update, abstractly (MathComp matrices over any field).
   LAPACK's routines are section variables with their contracts as hypotheses (never axioms):
     WB = Q R, Q^T Q = 1            (numpy.linalg.qr, reduced)
     [R; E] = [U1; U2] D V^T        (numpy.linalg.svd; U1 = the rows of U that face R, all m singular directions)
     U1^T U1 + U2^T U2 = 1, V orthogonal, D invertible diagonal (E is a Cholesky factor of a PD matrix)      *)
From mathcomp Require Import all_ssreflect all_algebra.
Set Implicit Arguments. Unset Strict Implicit. Unset Printing Implicit Defensive.
Import GRing.Theory.
Local Open Scope ring_scope.

Section Solve.
Variable F : fieldType.
Variables (n k m : nat).
Variables (WB : 'M[F]_(n,m)) (Q : 'M[F]_(n,k)) (R : 'M[F]_(k,m)) (E : 'M[F]_(m,m)).
Variables (U1 : 'M[F]_(k,m)) (U2 : 'M[F]_(m,m)) (D Dinv V : 'M[F]_(m,m)).
Hypothesis HQR : WB = Q *m R.
Hypothesis HQ : Q^T *m Q = 1%:M.
Hypothesis HR : R = U1 *m D *m V^T.
Hypothesis HE : E = U2 *m D *m V^T.
Hypothesis HU : U1^T *m U1 + U2^T *m U2 = 1%:M.
Hypothesis HV : V^T *m V = 1%:M.
Hypothesis HVV : V *m V^T = 1%:M.
Hypothesis HD : D *m Dinv = 1%:M.
Hypothesis HDs : D^T = D.
Hypothesis HDis : Dinv^T = Dinv.

(* the matrix the code calls B:  Vt.T.dot(Dinv).dot(U1.T).dot(Q.T) *)
Definition Bmat : 'M[F]_(m,n) := V *m Dinv *m U1^T *m Q^T.
Definition Mmat : 'M[F]_(m,m) := WB^T *m WB + E^T *m E.

Lemma gram : Mmat = V *m D *m D *m V^T.
Proof.
rewrite /Mmat.
have -> : WB^T *m WB = R^T *m R.
  by rewrite HQR trmx_mul -mulmxA (mulmxA Q^T Q R) HQ mul1mx.
rewrite HR HE !trmx_mul !trmxK HDs.
have -> : V *m (D *m U1^T) *m (U1 *m D *m V^T) = V *m D *m (U1^T *m U1) *m D *m V^T by rewrite !mulmxA.
have -> : V *m (D *m U2^T) *m (U2 *m D *m V^T) = V *m D *m (U2^T *m U2) *m D *m V^T by rewrite !mulmxA.
by rewrite -!mulmxDl -mulmxDr HU mulmx1.
Qed.

(* M B = WB^T : B is the solution operator of the penalised normal equations *)
Theorem normal_eq_mx : Mmat *m Bmat = WB^T.
Proof.
rewrite gram /Bmat !mulmxA.
have -> : V *m D *m D *m V^T *m V = V *m D *m D by rewrite -(mulmxA _ V^T V) HV mulmx1.
have -> : V *m D *m D *m Dinv = V *m D by rewrite -(mulmxA _ D Dinv) HD mulmx1.
by rewrite HQR HR !trmx_mul !trmxK HDs !mulmxA.
Qed.
Theorem normal_eq (z : 'cV[F]_n) : Mmat *m (Bmat *m z) = WB^T *m z.
Proof. by rewrite mulmxA normal_eq_mx. Qed.

Lemma Mmat_sym : Mmat^T = Mmat.
Proof. by rewrite /Mmat linearD /= !trmx_mul !trmxK. Qed.

(* edof: the code reports ||U1||_F^2 = tr(U1 U1^T); it is the trace of the influence matrix WB M^-1 WB^T = WB B *)
Theorem edof_trace : \tr (WB *m Bmat) = \tr (U1 *m U1^T).
Proof.
rewrite /Bmat HQR HR !mulmxA.
have -> : Q *m U1 *m D *m V^T *m V = Q *m U1 *m D by rewrite -(mulmxA _ V^T V) HV mulmx1.
have -> : Q *m U1 *m D *m Dinv = Q *m U1 by rewrite -(mulmxA _ D Dinv) HD mulmx1.
by rewrite mxtrace_mulC !mulmxA HQ mul1mx.
Qed.

(* covariance: the code reports scale * B B^T; it is the sandwich M^-1 (WB^T WB) M^-1, stated without inverses *)
Theorem cov_sandwich : Mmat *m (Bmat *m Bmat^T) *m Mmat = WB^T *m WB.
Proof.
rewrite mulmxA normal_eq_mx -mulmxA.
have -> : Bmat^T *m Mmat = (Mmat *m Bmat)^T by rewrite (trmx_mul Mmat Bmat) Mmat_sym.
by rewrite normal_eq_mx trmxK.
Qed.
End Solve.
