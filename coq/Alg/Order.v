(* Alg/Order.v -- order-theoretic facts behind C01 (minimiser), C08 (edof bounds), C13 (monotonicity in lam).
   MathComp matrices over any realFieldType; "solutions" are given by their defining equations, so no inverse is needed. *)
From mathcomp Require Import all_ssreflect all_algebra.
From mathcomp.algebra_tactics Require Import ring.
Set Implicit Arguments. Unset Strict Implicit. Unset Printing Implicit Defensive.
Import GRing.Theory Num.Theory.
Local Open Scope ring_scope.

Section Order.
Variable F : realFieldType.

Lemma trmx11 (A : 'M[F]_1) : A^T = A.
Proof. by apply/matrixP => i j; rewrite mxE !ord1. Qed.

Definition qf m (M : 'M[F]_m) (x : 'cV[F]_m) : F := (x^T *m M *m x) 0 0.
Definition psd m (M : 'M[F]_m) : Prop := forall x, 0 <= qf M x.
Definition ip m (x y : 'cV[F]_m) : F := (x^T *m y) 0 0.

Lemma ipC m (x y : 'cV[F]_m) : ip x y = ip y x.
Proof. by rewrite /ip -[x^T *m y]trmx11 trmx_mul trmxK. Qed.
Lemma qf_ip m (M : 'M[F]_m) x : qf M x = ip x (M *m x).
Proof. by rewrite /qf /ip mulmxA. Qed.
Lemma ip_sym_mx m (M : 'M[F]_m) (x y : 'cV[F]_m) : M^T = M -> ip x (M *m y) = ip (M *m x) y.
Proof. by move=> HM; rewrite /ip trmx_mul HM mulmxA. Qed.
Lemma ipDl m (x y z : 'cV[F]_m) : ip (x + y) z = ip x z + ip y z.
Proof. by rewrite /ip linearD /= mulmxDl mxE. Qed.
Lemma ipDr m (x y z : 'cV[F]_m) : ip x (y + z) = ip x y + ip x z.
Proof. by rewrite /ip mulmxDr mxE. Qed.
Lemma ipNl m (x y : 'cV[F]_m) : ip (- x) y = - ip x y.
Proof. by rewrite /ip linearN /= mulNmx mxE. Qed.
Lemma ipNr m (x y : 'cV[F]_m) : ip x (- y) = - ip x y.
Proof. by rewrite /ip mulmxN mxE. Qed.
Lemma ip_ge0 m (x : 'cV[F]_m) : 0 <= ip x x.
Proof.
rewrite /ip mxE; apply: sumr_ge0 => i _; rewrite !mxE; exact: sqr_ge0.
Qed.

Lemma ipBl m (x y z : 'cV[F]_m) : ip (x - y) z = ip x z - ip y z.
Proof. by rewrite ipDl ipNl. Qed.
Lemma ipBr m (x y z : 'cV[F]_m) : ip x (y - z) = ip x y - ip x z.
Proof. by rewrite ipDr ipNr. Qed.

(* leverage never increases when a PSD matrix is added:  M a = x, (M+P) b = x  ==>  x.b <= x.a *)
Theorem leverage_monotone m (M P : 'M[F]_m) (x a b : 'cV[F]_m) :
  M^T = M -> psd M -> psd P -> M *m a = x -> (M + P) *m b = x -> ip x b <= ip x a.
Proof.
move=> HM HpM HpP Ha Hb.
have Pb : P *m b = x - M *m b by rewrite -Hb mulmxDl addrC addKr.
have Mab : M *m (a - b) = P *m b by rewrite mulmxBr Ha Pb.
have Hq := HpM (a - b); rewrite qf_ip Mab ipBl in Hq.
have HP := HpP b; rewrite qf_ip in HP.
have E : ip a (P *m b) = ip x a - ip x b.
  by rewrite Pb ipBr (ipC a x) (ip_sym_mx _ _ HM) Ha.
rewrite E in Hq.
rewrite -subr_ge0.
have -> : ip x a - ip x b = (ip x a - ip x b - ip b (P *m b)) + ip b (P *m b) by rewrite subrK.
exact: addr_ge0.
Qed.

Lemma col_mulmx m n p (A : 'M[F]_(m,n)) (B : 'M[F]_(n,p)) i : col i (A *m B) = A *m col i B.
Proof. by apply/matrixP => j k; rewrite !mxE; apply: eq_bigr => l _; rewrite !mxE. Qed.

(* consequently the trace of the influence matrix (edof) never increases: columnwise leverages *)
Theorem edof_monotone n m (WB : 'M[F]_(n,m)) (M P : 'M[F]_m) (X Y : 'M[F]_(m,n)) :
  M^T = M -> psd M -> psd P -> M *m X = WB^T -> (M + P) *m Y = WB^T -> \tr (WB *m Y) <= \tr (WB *m X).
Proof.
move=> HM HpM HpP HX HY.
rewrite /mxtrace; apply: ler_sum => i _.
have Hx : M *m col i X = col i WB^T by rewrite -col_mulmx HX.
have Hy : (M + P) *m col i Y = col i WB^T by rewrite -col_mulmx HY.
have H := leverage_monotone HM HpM HpP Hx Hy.
have Ei Z : (WB *m Z) i i = ip (col i WB^T) (col i Z).
  by rewrite /ip !mxE; apply: eq_bigr => j _; rewrite !mxE.
by rewrite !Ei.
Qed.

(* completing the square: a solution of the (symmetric PSD) normal equations minimises the penalised least squares
   criterion  F(beta) = |z - A beta|^2 + beta' S beta,   M = A'A + S,  M bhat = A' z *)
Definition crit n m (A : 'M[F]_(n,m)) (S : 'M[F]_m) (z : 'cV[F]_n) (b : 'cV[F]_m) : F :=
  ip (z - A *m b) (z - A *m b) + qf S b.
Lemma normal_eq_minimises_d n m (A : 'M[F]_(n,m)) (S : 'M[F]_m) (z : 'cV[F]_n) (bhat d : 'cV[F]_m) :
  S^T = S -> (A^T *m A + S) *m bhat = A^T *m z ->
  crit A S z (bhat + d) = crit A S z bhat + (ip (A *m d) (A *m d) + qf S d).
Proof.
move=> HS Hn.
have HSb : S *m bhat = A^T *m z - A^T *m A *m bhat by rewrite -Hn mulmxDl addrC addKr.
have C1 : ip (z - A *m bhat) (A *m d) = ip (S *m bhat) d.
  rewrite HSb /ip.
  have -> : (A^T *m z - A^T *m A *m bhat) = A^T *m (z - A *m bhat) by rewrite mulmxBr mulmxA.
  by rewrite trmx_mul trmxK mulmxA.
rewrite /crit !qf_ip !mulmxDr.
have -> : z - (A *m bhat + A *m d) = (z - A *m bhat) - A *m d by rewrite opprD addrA.
rewrite !ipBl !ipBr !ipDl !ipDr.
have C2 : ip (A *m d) z - ip (A *m d) (A *m bhat) = ip (S *m bhat) d by rewrite -ipBr ipC C1.
have C3 : ip d (S *m bhat) = ip (S *m bhat) d by rewrite ipC.
have C4 : ip bhat (S *m d) = ip (S *m bhat) d by rewrite (ip_sym_mx _ _ HS).
rewrite ipBl in C1. rewrite C3 C4.
move: C1 C2; set t := ip (S *m bhat) d.
set p1 := ip z z. set p2 := ip z (A *m bhat). set p3 := ip z (A *m d).
set p4 := ip (A *m bhat) z. set p5 := ip (A *m bhat) (A *m bhat). set p6 := ip (A *m bhat) (A *m d).
set p7 := ip (A *m d) z. set p8 := ip (A *m d) (A *m bhat). set p9 := ip (A *m d) (A *m d).
move=> C1 C2.
have -> : p3 = t + p6 by rewrite -C1 subrK.
have -> : p7 = t + p8 by rewrite -C2 subrK.
by ring.
Qed.
Theorem normal_eq_minimises n m (A : 'M[F]_(n,m)) (S : 'M[F]_m) (z : 'cV[F]_n) (bhat b : 'cV[F]_m) :
  S^T = S -> psd S -> (A^T *m A + S) *m bhat = A^T *m z -> crit A S z bhat <= crit A S z b.
Proof.
move=> HS HpS Hn.
have -> : b = bhat + (b - bhat) by rewrite addrC subrK.
rewrite (normal_eq_minimises_d _ HS Hn) ler_addl.
by apply: addr_ge0; [exact: ip_ge0 | exact: HpS].
Qed.
End Order.
