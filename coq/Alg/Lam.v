(* Alg/Lam.v -- how the minimiser of  H(b) + lam * g(b)  moves with lam  (C13).
   H = weighted residual sum of squares plus every *other* penalty (and the fixed ridge), g = b' P b >= 0 the penalty whose
   lam is varied.  MathComp, any realFieldType; minimisers are characterised by their normal equations (Alg/Order.v). *)
From mathcomp Require Import all_ssreflect all_algebra.
From mathcomp.algebra_tactics Require Import ring.
From PG Require Import Alg.Order.
Set Implicit Arguments. Unset Strict Implicit. Unset Printing Implicit Defensive.
Import Order.Theory GRing.Theory Num.Theory.
Local Open Scope ring_scope.

Section Lam.
Variable F : realFieldType.

(* the exchange argument on four numbers *)
Lemma exchange_g (H1 H2 g1 g2 l1 l2 : F) :
  l1 < l2 -> H1 + l1 * g1 <= H2 + l1 * g2 -> H2 + l2 * g2 <= H1 + l2 * g1 -> g2 <= g1.
Proof.
move=> Hl A B.
have S : (l2 - l1) * (g2 - g1) <= 0.
  have := ler_add A B.
  rewrite -subr_ge0 => S0.
  rewrite -oppr_ge0.
  apply: le_trans S0 _.
  by rewrite le_eqVlt; apply/orP; left; apply/eqP; ring.
rewrite -subr_le0.
have Hp : 0 < l2 - l1 by rewrite subr_gt0.
by rewrite -(pmulr_rle0 _ Hp).
Qed.
Lemma exchange_H (H1 H2 g1 g2 l1 l2 : F) :
  0 <= l1 -> l1 < l2 -> H1 + l1 * g1 <= H2 + l1 * g2 -> H2 + l2 * g2 <= H1 + l2 * g1 -> H1 <= H2.
Proof.
move=> H0 Hl A B.
have G := exchange_g Hl A B.
have : l1 * g2 <= l1 * g1 by apply: ler_wpmul2l.
move=> G1.
have : H1 + l1 * g1 <= H2 + l1 * g1 by apply: le_trans A _; rewrite ler_add2l.
by rewrite ler_add2r.
Qed.

Variables (n m : nat).
Variables (A : 'M[F]_(n,m)) (z : 'cV[F]_n) (S0 P : 'M[F]_m).
Hypothesis HS0 : S0^T = S0. Hypothesis HP : P^T = P.
Hypothesis pS0 : psd S0. Hypothesis pP : psd P.

Definition Hval (b : 'cV[F]_m) : F := ip (z - A *m b) (z - A *m b) + qf S0 b.   (* RSS + the other penalties *)
Definition gval (b : 'cV[F]_m) : F := qf P b.

Lemma qfD (S1 S2 : 'M[F]_m) b : qf (S1 + S2) b = qf S1 b + qf S2 b.
Proof. by rewrite /qf mulmxDr mulmxDl mxE. Qed.
Lemma qfZ (c : F) (S1 : 'M[F]_m) b : qf (c *: S1) b = c * qf S1 b.
Proof. by rewrite /qf -scalemxAr -scalemxAl mxE. Qed.
Lemma crit_split l b : crit A (S0 + l *: P) z b = Hval b + l * gval b.
Proof. by rewrite /crit /Hval /gval qfD qfZ addrA. Qed.
Lemma psd_comb l : 0 <= l -> psd (S0 + l *: P).
Proof. move=> Hl x; rewrite qfD qfZ; apply: addr_ge0; [exact: pS0 | by apply: mulr_ge0 => //; exact: pP]. Qed.
Lemma sym_comb l : (S0 + l *: P)^T = S0 + l *: P.
Proof. by rewrite linearD /= linearZ /= HS0 HP. Qed.

(* b1, b2: the penalised least-squares solutions at lam = l1 < l2 *)
Theorem lam_tradeoff (l1 l2 : F) (b1 b2 : 'cV[F]_m) :
  0 <= l1 -> l1 < l2 ->
  (A^T *m A + (S0 + l1 *: P)) *m b1 = A^T *m z ->
  (A^T *m A + (S0 + l2 *: P)) *m b2 = A^T *m z ->
  gval b2 <= gval b1 /\ Hval b1 <= Hval b2.
Proof.
move=> H0 Hl N1 N2.
have H2 : 0 <= l2 by apply: le_trans H0 (ltW Hl).
have M1 := @normal_eq_minimises F n m A (S0 + l1 *: P) z b1 b2 (sym_comb l1) (psd_comb H0) N1.
have M2 := @normal_eq_minimises F n m A (S0 + l2 *: P) z b2 b1 (sym_comb l2) (psd_comb H2) N2.
rewrite !crit_split in M1 M2.
by split; [exact: (exchange_g Hl M1 M2) | exact: (exchange_H H0 Hl M1 M2)].
Qed.

(* limit: against any b0 in the null space of the penalty, g(b_lam) <= H(b0) / lam and H(b_lam) <= H(b0) *)
Theorem lam_limit (l : F) (bl b0 : 'cV[F]_m) :
  0 < l -> (A^T *m A + (S0 + l *: P)) *m bl = A^T *m z -> gval b0 = 0 ->
  Hval bl <= Hval b0 /\ gval bl <= Hval b0 / l.
Proof.
move=> Hl N G0.
have M := @normal_eq_minimises F n m A (S0 + l *: P) z bl b0 (sym_comb l) (psd_comb (ltW Hl)) N.
rewrite !crit_split G0 mulr0 addr0 in M.
have Gp : 0 <= gval bl by exact: pP.
have Hp : 0 <= Hval bl by rewrite /Hval; apply: addr_ge0; [exact: ip_ge0 | exact: pS0].
split.
- by apply: le_trans M; rewrite ler_addl; apply: mulr_ge0 => //; exact: ltW.
- rewrite ler_pdivl_mulr // mulrC.
  by apply: le_trans M; rewrite ler_addr.
Qed.
End Lam.
