(* Alg/LamRate.v -- C13: the fit tends to the least-squares fit within the penalty's null space as lam grows, with an explicit rate.
   M = A'A + S0 (data + ridge / other penalties), P the varied penalty (symmetric PSD), b_l the solution at lam = l.
   b0 is the null-space fit: P b0 = 0 and its unrestricted residual gradient A'z - M b0 is orthogonal to ker P, given here in the
   explicit finite-dimensional form  A'z - M b0 = P u  (range P = (ker P)^perp for symmetric P).  Then
        (b_l - b0)' M (b_l - b0)  <=  u'Pu / (2 l),      b_l' P b_l  <=  u'Pu / l^2,
   in particular |A (b_l - b0)|^2 <= u'Pu / (2 l): the fitted values converge at rate 1/l.  No inverse, no spectral theorem. *)
From mathcomp Require Import all_ssreflect all_algebra.
From mathcomp.algebra_tactics Require Import ring.
From PG Require Import Alg.Order.
Set Implicit Arguments. Unset Strict Implicit. Unset Printing Implicit Defensive.
Import Order.Theory GRing.Theory Num.Theory.
Local Open Scope ring_scope.

Section Rate.
Variable F : realFieldType.
Variables (n m : nat).
Variables (A : 'M[F]_(n,m)) (z : 'cV[F]_n) (S0 P : 'M[F]_m).
Hypothesis HS0 : S0^T = S0. Hypothesis HP : P^T = P.
Hypothesis pS0 : psd S0. Hypothesis pP : psd P.

Let M : 'M[F]_m := A^T *m A + S0.

Lemma ipZl (c : F) (x y : 'cV[F]_m) : ip (c *: x) y = c * ip x y.
Proof. by rewrite /ip linearZ /= -scalemxAl mxE. Qed.
Lemma ipZr (c : F) (x y : 'cV[F]_m) : ip x (c *: y) = c * ip x y.
Proof. by rewrite /ip -scalemxAr mxE. Qed.

(* weighted Young inequality for the PSD form P:  x'Py <= (t/2) x'Px + (1/(2t)) y'Py  for t > 0, from (t x - y)'P(t x - y) >= 0 *)
Lemma young_psd (t : F) (x y : 'cV[F]_m) : 0 < t ->
  ip x (P *m y) <= t / 2 * qf P x + (2 * t)^-1 * qf P y.
Proof.
move=> Ht.
have H := pP (t *: x - y).
rewrite qf_ip mulmxBr -scalemxAr ipBl !ipBr !ipZl !ipZr -!qf_ip in H.
have Exy : ip y (P *m x) = ip x (P *m y) by rewrite (ip_sym_mx _ _ HP) ipC.
rewrite Exy in H.
set a := qf P x in H *. set c := qf P y in H *. set b := ip x (P *m y) in H *.
have H2 : 2 * t * b <= t * t * a + c.
  rewrite -subr_ge0. have -> : t * t * a + c - 2 * t * b = t * (t * a) - t * b - (t * b - c) by ring. exact: H.
have Ht2 : 0 < 2 * t by rewrite mulr_gt0 // ltr0n.
rewrite -(ler_pmul2l Ht2).
have -> : 2 * t * (t / 2 * a + (2 * t)^-1 * c) = t * t * a + c.
  have U : t != 0 by apply: lt0r_neq0. have U2 : (2 : F) != 0 by rewrite pnatr_eq0.
  by field.
exact: H2.
Qed.

Lemma qfM_split (x : 'cV[F]_m) : qf M x = ip (A *m x) (A *m x) + qf S0 x.
Proof. by rewrite /M /qf mulmxDr mulmxDl mxE /ip trmx_mul !mulmxA. Qed.

Theorem lam_rate (l : F) (bl b0 u : 'cV[F]_m) :
  0 < l ->
  (A^T *m A + (S0 + l *: P)) *m bl = A^T *m z ->        (* the fit at lam = l *)
  P *m b0 = 0 ->                                          (* b0 in the unpenalised space *)
  A^T *m z - M *m b0 = P *m u ->                          (* b0 is the least-squares fit within it *)
  qf M (bl - b0) <= qf P u / (2 * l) /\ qf P bl <= qf P u / (l * l).
Proof.
move=> Hl N K0 G.
set r := bl - b0.
have Pr : P *m r = P *m bl by rewrite /r mulmxBr K0 subr0.
(* energy identity: r'Mr + l r'Pr = r'(A'z - M b0) = r'Pu *)
have E : qf M r + l * qf P r = ip r (P *m u).
  rewrite -G !qf_ip Pr.
  have MB : M *m bl = A^T *m z - l *: (P *m bl).
    by rewrite -N /M !mulmxDl -scalemxAl addrA addrK.
  have -> : M *m r = A^T *m z - l *: (P *m bl) - M *m b0 by rewrite /r mulmxBr MB.
  by rewrite !ipBr ipZr; ring.
have Y := young_psd r u Hl.
rewrite -E in Y.
have a0 : 0 <= qf M r by rewrite qfM_split; apply: addr_ge0; [exact: ip_ge0 | exact: pS0].
have b0' : 0 <= qf P r by exact: pP.
set a := qf M r in Y a0 *. set b := qf P r in Y b0' *. set c := qf P u in Y *.
have l0 : l != 0 by apply: lt0r_neq0. have two0 : (2 : F) != 0 by rewrite pnatr_eq0.
have Y2 : a + l / 2 * b <= (2 * l)^-1 * c.
  rewrite -subr_ge0. have -> : (2 * l)^-1 * c - (a + l / 2 * b) = l / 2 * b + (2 * l)^-1 * c - (a + l * b) by field.
  by rewrite subr_ge0.
split.
- have -> : c / (2 * l) = (2 * l)^-1 * c by rewrite mulrC.
  have Hl2' : 0 <= l / 2 by apply: ltW; rewrite divr_gt0 // ltr0n.
  apply: le_trans Y2. by rewrite ler_addl mulr_ge0.
- have -> : qf P bl = b.
    by rewrite /b !qf_ip Pr /r ipBl (ip_sym_mx b0 bl HP) K0 /ip trmx0 mul0mx [(0 : 'M[F]_1) 0 0]mxE subr0.
  have Hb : l / 2 * b <= (2 * l)^-1 * c by apply: le_trans Y2; rewrite ler_addr.
  have Hl2 : 0 < l / 2 by rewrite divr_gt0 // ltr0n.
  rewrite -(ler_pmul2l Hl2).
  have -> : l / 2 * (c / (l * l)) = (2 * l)^-1 * c by field.
  exact: Hb.
Qed.

(* fitted values: |A (b_l - b0)|^2 <= u'Pu / (2 l) *)
Corollary lam_rate_fitted (l : F) (bl b0 u : 'cV[F]_m) :
  0 < l -> (A^T *m A + (S0 + l *: P)) *m bl = A^T *m z -> P *m b0 = 0 -> A^T *m z - M *m b0 = P *m u ->
  ip (A *m (bl - b0)) (A *m (bl - b0)) <= qf P u / (2 * l).
Proof.
move=> Hl N K0 G. have [H1 _] := lam_rate Hl N K0 G.
apply: le_trans H1. by rewrite qfM_split ler_addl; exact: pS0.
Qed.
End Rate.
