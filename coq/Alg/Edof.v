(* Alg/Edof.v -- bounds on the effective degrees of freedom tr(U1 U1^T) reported by the code (MathComp, realFieldType).
   U = [U1 U1c; U2 U2c] is the orthogonal factor of the SVD of [R; E]; U1 (k x m) faces R, U2 (m x m) faces E. *)
From mathcomp Require Import all_ssreflect all_algebra.
Set Implicit Arguments. Unset Strict Implicit. Unset Printing Implicit Defensive.
Import Order.Theory GRing.Theory Num.Theory.
Local Open Scope ring_scope.

Section Edof.
Variable F : realFieldType.

Lemma tr_gram_ge0 p q (A : 'M[F]_(p,q)) : 0 <= \tr (A *m A^T).
Proof.
rewrite /mxtrace; apply: sumr_ge0 => i _; rewrite mxE; apply: sumr_ge0 => j _.
by rewrite !mxE -expr2 sqr_ge0.
Qed.
Lemma tr_gram_gt0 p q (A : 'M[F]_(p,q)) : A != 0 -> 0 < \tr (A *m A^T).
Proof.
move=> nz; rewrite lt_def tr_gram_ge0 andbT.
apply: contra nz => /eqP H0; apply/eqP/matrixP => i j; rewrite mxE.
have Hi : (A *m A^T) i i = 0.
  move: H0; rewrite /mxtrace => H0.
  have := psumr_eq0P _ H0; apply => //.
  move=> i0 _; rewrite mxE; apply: sumr_ge0 => j0 _; by rewrite !mxE -expr2 sqr_ge0.
move: Hi; rewrite mxE => Hi.
have Hj := psumr_eq0P _ Hi.
have : A i j * A^T j i = 0 by apply: Hj => // j0 _; rewrite !mxE -expr2 sqr_ge0.
by rewrite !mxE -expr2 => /eqP; rewrite sqrf_eq0 => /eqP.
Qed.

Variables (k m c : nat).
Variables (U1 : 'M[F]_(k,m)) (U2 : 'M[F]_(m,m)) (U1c : 'M[F]_(k,c)).
Hypothesis HU : U1^T *m U1 + U2^T *m U2 = 1%:M.           (* the first m columns of U are orthonormal *)
Hypothesis HUr : U1 *m U1^T + U1c *m U1c^T = 1%:M.         (* the first k rows of U are orthonormal *)

Theorem edof_ge0 : 0 <= \tr (U1 *m U1^T).
Proof. exact: tr_gram_ge0. Qed.
Theorem edof_gt0 : U1 != 0 -> 0 < \tr (U1 *m U1^T).
Proof. exact: tr_gram_gt0. Qed.
Theorem edof_le_m : \tr (U1 *m U1^T) <= m%:R.
Proof.
rewrite mxtrace_mulC.
have -> : U1^T *m U1 = 1%:M - U2^T *m U2 by rewrite -HU addrK.
rewrite linearB /= mxtrace1 ler_subl_addr ler_addl.
have -> : U2^T *m U2 = U2^T *m (U2^T)^T by rewrite trmxK.
exact: tr_gram_ge0.
Qed.
Theorem edof_le_k : \tr (U1 *m U1^T) <= k%:R.
Proof.
have -> : U1 *m U1^T = 1%:M - U1c *m U1c^T by rewrite -HUr addrK.
by rewrite linearB /= mxtrace1 ler_subl_addr ler_addl; apply: tr_gram_ge0.
Qed.
End Edof.
