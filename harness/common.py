"""Shared machinery for the pyGAM Rocq verification checks.

Run under /venv/bin/python with PYTHONPATH=/repo PYTHONHASHSEED=0 (the ./check wrapper does this).
"""
import fcntl
import json
import os
import random
import re
import shutil
import subprocess
import sys
import time
from fractions import Fraction

VERIF = os.path.dirname(os.path.dirname(os.path.abspath(__file__)))
COQ = os.environ.get('VERIF_COQ') or os.path.join(VERIF, 'coq')      # VERIF_COQ: scratch copy of the Coq project (tools/try_seed.py)
REPO = os.environ.get('VERIF_REPO', '/repo')
NPROC = min(16, os.cpu_count() or 4)
COQ_WARN = ('-w', '-notation-overridden,-deprecated-hint-without-locality,'
            '-deprecated-instance-without-locality,-ambiguous-paths,'
            '-redundant-canonical-projection,-projection-no-head-constant,'
            '-deprecated-syntactic-definition,-deprecated,-native-compiler-disabled')

TRUSTED_BASE_COMMON = [
    'Coq 8.16.1 kernel and its vm_compute reduction machine (no native_compute)',
    'coqc/make build of /verif/coq (full .vo, no -vos)',
    'Paramcoq plugin (generated parametricity terms are re-checked by the kernel)',
    'translator /verif/translator/py2coq.py and correspondence harness /verif/harness (exercised on every run)',
    'CPython 3.12 / NumPy / SciPy as the implementation-side evaluator',
]


# ----------------------------------------------------------------------------- literals
def zlit(z):
    z = int(z)
    return '(%d)%%Z' % z if z < 0 else '%d%%Z' % z


def frac_of_float(x):
    return Fraction(*float(x).as_integer_ratio())


def dy_of_float(x):
    """exact (m, e) with x == m * 2**e, m odd or zero"""
    x = float(x)
    if x == 0.0:
        return (0, 0)
    num, den = x.as_integer_ratio()
    e = -(den.bit_length() - 1)
    while num % 2 == 0:
        num //= 2
        e += 1
    return (num, e)


def dylit(x):
    """Coq term of type (Z*Z): exact dyadic of a float"""
    m, e = dy_of_float(x)
    return '(%s,%s)' % (zlit(m), zlit(e))


def qlit(fr):
    fr = Fraction(fr)
    n, d = fr.numerator, fr.denominator
    return '(%s#%d)' % (('(%d)' % n) if n < 0 else str(n), d)


def coq_list(items):
    return '[' + '; '.join(items) + ']'


def coq_bool(b):
    return 'true' if b else 'false'


# ----------------------------------------------------------------------------- running Coq
class Lock:
    def __init__(self, name='build'):
        self.path = os.path.join(COQ, '.%s.lock' % name)

    def __enter__(self):
        self.f = open(self.path, 'w')
        fcntl.flock(self.f, fcntl.LOCK_EX)
        return self

    def __exit__(self, *a):
        fcntl.flock(self.f, fcntl.LOCK_UN)
        self.f.close()


def ensure_makefile():
    mk = os.path.join(COQ, 'Makefile')
    cp = os.path.join(COQ, '_CoqProject')
    if (not os.path.exists(mk)) or os.path.getmtime(mk) < os.path.getmtime(cp):
        subprocess.run(['coq_makefile', '-f', '_CoqProject', '-o', 'Makefile'], cwd=COQ, check=True,
                       stdout=subprocess.DEVNULL, stderr=subprocess.DEVNULL)


_LOCK_HELD = [False]


def make(targets, timeout=1500, jobs=NPROC):
    """make the given .vo targets (paths relative to coq/). Returns (ok, output)."""
    def go():
        ensure_makefile()
        cmd = ['timeout', str(timeout), 'make', '-j%d' % jobs] + list(targets)
        p = subprocess.run(cmd, cwd=COQ, stdout=subprocess.PIPE, stderr=subprocess.STDOUT, text=True)
        return p.returncode == 0, p.stdout
    if _LOCK_HELD[0]:
        return go()
    with Lock():
        return go()


def compile_props(prop_file, timeout=1500):
    """Force re-check of Props/Cxx.v (and, through make, of everything it depends on that changed).
    Returns dict(ok, output, theorems=[names], assumptions={name: [axioms]})."""
    vo = prop_file[:-2] + '.vo'
    for ext in ('.vo', '.glob', '.vos', '.vok'):
        try:
            os.remove(os.path.join(COQ, prop_file[:-2] + ext))
        except FileNotFoundError:
            pass
    ok, out = make([vo], timeout=timeout)
    src = open(os.path.join(COQ, prop_file)).read()
    theorems = re.findall(r'^\s*(?:Theorem|Corollary)\s+([A-Za-z0-9_\']+)', src, flags=re.M)
    printed = re.findall(r'^\s*Print Assumptions\s+([A-Za-z0-9_\']+)\s*\.', src, flags=re.M)
    assumptions = parse_assumptions(out, printed)
    return dict(ok=ok, output=out, theorems=theorems, assumptions=assumptions)


def parse_assumptions(out, printed):
    """Split coqc output into the Print Assumptions blocks, in order."""
    blocks = []
    cur = None
    for line in out.splitlines():
        if line.startswith('Closed under the global context'):
            blocks.append([])
            cur = None
        elif line.startswith('Axioms:'):
            cur = []
            blocks.append(cur)
        elif cur is not None:
            # coqc prints either "name : type" or "name" followed by an indented "  : type" line
            m = re.match(r"^([A-Za-z_][A-Za-z0-9_\.']*)\s*(:.*)?$", line)
            if m:
                cur.append(m.group(1))
            elif line and not line.startswith(' '):
                cur = None
    res = {}
    for name, b in zip(printed, blocks):
        res[name] = b
    return res


def coqc_file(path, timeout=600):
    cmd = ['timeout', str(timeout), 'coqc', '-Q', COQ, 'PG'] + list(COQ_WARN) + [path]
    p = subprocess.run(cmd, stdout=subprocess.PIPE, stderr=subprocess.STDOUT, text=True, cwd=os.path.dirname(path))
    return p.returncode, p.stdout


class CaseDir:
    """scratch directory under coq/Cases for one invocation; removed at exit"""

    def __init__(self, prop):
        self.path = os.path.join(COQ, 'Cases', '%s-%d' % (prop, os.getpid()))

    def __enter__(self):
        shutil.rmtree(self.path, ignore_errors=True)
        os.makedirs(self.path)
        return self

    def __exit__(self, *a):
        if not os.environ.get('VERIF_KEEP_CASES'):
            shutil.rmtree(self.path, ignore_errors=True)

    def run_files(self, files, timeout=900):
        """files: list of (name, text). Compiles all in parallel; returns {name: (rc, output)}"""
        from concurrent.futures import ThreadPoolExecutor
        paths = []
        for name, text in files:
            pth = os.path.join(self.path, name)
            with open(pth, 'w') as f:
                f.write(text)
            paths.append((name, pth))
        res = {}
        with ThreadPoolExecutor(max_workers=NPROC) as ex:
            futs = {name: ex.submit(coqc_file, pth, timeout) for name, pth in paths}
            for name, fut in futs.items():
                res[name] = fut.result()
        return res


def parse_nat_list(out, marker='FAILING'):
    """Find '= [a; b; ...]' lists of naturals printed by `Eval vm_compute in (marker-tagged)`; we print
    them as `(MARK, [..])` pairs so several evaluations in one file can be told apart."""
    txt = re.sub(r'\s+', ' ', out)
    res = []
    for m in re.finditer(r'= \(?%s(\d*), \[([^\]]*)\]\)?' % marker, txt):
        body = m.group(2).strip()
        nums = [int(re.sub(r'%nat', '', x).strip()) for x in body.split(';') if x.strip()] if body else []
        res.append((m.group(1), nums))
    return res


def run_bool_cases(casedir, header, cases, check_fn, shard=200, prefix='case', timeout=900):
    """cases: list of Coq terms (strings) of a `case` type; check_fn: Coq function case -> bool.
    Returns (failing_indices, errors) where errors are compile failures (list of (file, output))."""
    files = []
    for s in range(0, len(cases), shard):
        chunk = cases[s:s + shard]
        body = [header, 'Definition cases := %s.' % coq_list(chunk),
                'Definition failing := map fst (filter (fun p => negb (%s (snd p))) (combine (seq 0 (length cases)) cases)).' % check_fn,
                'Inductive MARK := FAILING.',
                'Eval vm_compute in (FAILING, failing).']
        files.append(('%s_%d.v' % (prefix, s), '\n'.join(body) + '\n'))
    res = casedir.run_files(files, timeout=timeout)
    failing, errors = [], []
    for name, (rc, out) in res.items():
        base = int(name[len(prefix) + 1:-2])
        if rc != 0:
            errors.append((name, out[-3000:]))
            continue
        got = parse_nat_list(out)
        if not got:
            errors.append((name, 'no FAILING line in output: ' + out[-2000:]))
            continue
        failing += [base + i for i in got[0][1]]
    return sorted(failing), errors


# ----------------------------------------------------------------------------- evidence / findings / reporting
def load_known_findings(prop):
    p = os.path.join(VERIF, 'known_findings.json')
    if not os.path.exists(p):
        return []
    data = json.load(open(p))
    fs = [f for f in data.get('findings', []) if f.get('property') == prop]
    extra = os.environ.get('VERIF_EXTRA_FINDINGS')   # development aid only; never set by registered commands
    if extra and os.path.exists(extra):
        fs += [f for f in json.load(open(extra)).get('findings', []) if f.get('property') == prop]
    return fs


def write_json(path, obj):
    os.makedirs(os.path.dirname(path), exist_ok=True)
    tmp = path + '.tmp%d' % os.getpid()
    with open(tmp, 'w') as f:
        json.dump(obj, f, indent=1, default=_json_default)
    os.replace(tmp, path)


def _json_default(o):
    try:
        import numpy as np
        if isinstance(o, np.integer):
            return int(o)
        if isinstance(o, np.floating):
            return float(o)
        if isinstance(o, np.ndarray):
            return o.tolist()
        if isinstance(o, np.bool_):
            return bool(o)
    except Exception:
        pass
    if isinstance(o, Fraction):
        return str(o)
    return repr(o)


class Result:
    """accumulates what one check run covered and found"""

    def __init__(self, prop, tier, seed):
        self.prop, self.tier, self.seed = prop, tier, seed
        self.t0 = time.time()
        self.obligations = 0
        self.discharged = 0
        self.broken = []          # list of dict(kind, name, detail)
        self.evaluations = 0
        self.nontrivial = set()
        self.samples = []
        self.rule = ''
        self.distribution = {}
        self.violations = []      # concrete failing inputs: dict(what, input, expected, observed, finding=None)
        self.known_hits = {}      # finding id -> text
        self.assumptions = {}
        self.theorems = []
        self.extra = {}
        self.trusted = list(TRUSTED_BASE_COMMON)
        self.notes = []

    def obligation(self, name, ok, detail='', kind='proof'):
        self.obligations += 1
        if ok:
            self.discharged += 1
        else:
            self.broken.append(dict(kind=kind, name=name, detail=detail[-4000:]))

    def count(self, key, n=1):
        self.distribution[key] = self.distribution.get(key, 0) + n

    def case(self, key=None, sample=None, nontrivial=True):
        self.evaluations += 1
        if nontrivial and key is not None:
            self.nontrivial.add(key)
        if sample is not None and len(self.samples) < 6:
            self.samples.append(sample)


def finish(res, checker_cmd, level='proof'):
    """Write evidence, print KNOWN-FINDING / VIOLATION lines, return exit code."""
    findings = load_known_findings(res.prop)
    known = {f['id']: f for f in findings if f.get('kind') == 'known'}
    new_violations = []
    for v in res.violations:
        fid = v.get('finding')
        if fid and fid in known:
            res.known_hits.setdefault(fid, known[fid].get('text', fid))
        else:
            new_violations.append(v)
    rc = 0
    replay_path = None
    if new_violations or res.broken:
        rc = 1
        os.makedirs(os.path.join(VERIF, 'replays'), exist_ok=True)
        replay_path = os.path.join(VERIF, 'replays', '%s-%d-%d-%d.json' % (res.prop, res.seed, int(time.time()), os.getpid()))
        replay = dict(property=res.prop, seed=res.seed, tier=res.tier,
                      failing_inputs=new_violations[:20],
                      broken_obligations=res.broken[:20],
                      replay_cmd='cd /verif && ./check %s --replay %s' % (res.prop, replay_path))
        write_json(replay_path, replay)
    # known findings must still reproduce; if a listed finding no longer shows, just note it
    for fid, f in known.items():
        if fid in res.known_hits:
            print('KNOWN-FINDING: property=%s %s' % (res.prop, f.get('text', fid)))
        else:
            res.notes.append('known finding %s did not reproduce in this run' % fid)
    axioms = sorted({a for l in res.assumptions.values() for a in l})
    coverage = dict(
        obligations=res.obligations, discharged=res.discharged,
        checker_cmd=checker_cmd,
        trusted_base=res.trusted + ['axioms reported by Print Assumptions: ' + (', '.join(axioms) if axioms else 'none (closed under the global context)')],
        evaluations=res.evaluations, distinct_nontrivial=len(res.nontrivial),
        rule=res.rule, samples=res.samples[:6],
        input_distribution=res.distribution,
        theorems=res.theorems, print_assumptions=res.assumptions,
        broken=res.broken[:10], known_findings_revalidated=sorted(res.known_hits),
        notes=res.notes,
    )
    coverage.update(res.extra)
    ev = dict(property_id=res.prop, tier=res.tier, seed=res.seed, level=level, coverage=coverage,
              assumptions=res.trusted, wall_s=round(time.time() - res.t0, 2),
              violations=len(new_violations) + (1 if (res.broken and not new_violations) else 0))
    # a run against a scratch copy of the repository (VERIF_REPO set by tools/try_seed.py) must not replace the evidence of /repo
    evdir = 'evidence' if os.path.realpath(os.environ.get('VERIF_REPO', '/repo')) == os.path.realpath('/repo') else 'evidence-scratch'
    os.makedirs(os.path.join(VERIF, evdir), exist_ok=True)
    write_json(os.path.join(VERIF, evdir, '%s.json' % res.prop), ev)
    if rc:
        if new_violations:
            print('VIOLATION property=%s replay=%s' % (res.prop, replay_path))
        else:
            print('VIOLATION property=%s replay=%s no-failing-input-found' % (res.prop, replay_path))
    else:
        print('OK property=%s tier=%s obligations=%d/%d evaluations=%d nontrivial=%d wall=%.1fs' % (
            res.prop, res.tier, res.discharged, res.obligations, res.evaluations, len(res.nontrivial), time.time() - res.t0))
    return rc


def standard_prove(res, prop_file, gen_targets=None, extra=()):
    """translate (optional), then compile Props file; registers obligations on res."""
    with Lock():
        _LOCK_HELD[0] = True
        try:
            return _standard_prove(res, prop_file, gen_targets, extra)
        finally:
            _LOCK_HELD[0] = False


def _standard_prove(res, prop_file, gen_targets=None, extra=()):
    sys.path.insert(0, os.path.join(VERIF, 'translator'))
    import py2coq
    try:
        # every Gen file is brought in line with the tree under check first (0.9 s): a run against another tree (tools/try_seed.py)
        # may have left definitions or failure stubs of that tree behind
        py2coq.generate_everything(REPO, COQ)
    except Exception:
        pass
    if gen_targets:
        for tgt in gen_targets:
            try:
                py2coq.generate(tgt, REPO, COQ)
                res.obligation('translate:' + tgt, True, kind='translation')
            except Exception as e:  # fail closed
                res.obligation('translate:' + tgt, False, detail='%s: %s' % (type(e).__name__, e), kind='translation')
    try:
        import fingerprints
        ch = fingerprints.changed(REPO, res.prop)
        if ch is not None:
            res.obligation('source:hand-modelled functions are the ones the model was validated against (%d watched)' % len(fingerprints.WATCH.get(res.prop, [])),
                           not ch, detail='changed since validation (translator/fingerprints.json): ' + ', '.join(ch), kind='translation')
    except Exception as e:
        res.notes.append('source fingerprints not evaluated: %s: %s' % (type(e).__name__, e))
    files = [prop_file] if isinstance(prop_file, str) else list(prop_file)
    info = None
    for pf in files:
        info = compile_props(pf)
        res.theorems += info['theorems']
        res.assumptions.update(info['assumptions'])
        if info['ok']:
            for t in info['theorems']:
                res.obligation('theorem:' + t, True)
        else:
            m = re.search(r'File "([^"]+)", line (\d+)', info['output'])
            where = '%s:%s' % (m.group(1), m.group(2)) if m else pf
            for t in info['theorems']:
                res.obligation('theorem:' + t, False, detail='build failed at %s\n%s' % (where, info['output'][-2500:]))
    if extra:
        ok2, out2 = make(list(extra))
        res.obligation('build:' + ','.join(extra), ok2, detail=out2[-2500:], kind='build')
    return info


def rng_for(seed, *tags):
    return random.Random('%s|%s' % (seed, '|'.join(map(str, tags))))


# ----------------------------------------------------------------------------- interval goals (transcendental formulas)
def rlit(x):
    """Coq R term (exact) for a float: integer or integer / 2^k written with integer literals"""
    m, e = dy_of_float(x)
    if e >= 0:
        v = m * (1 << e)
        return '(%d)' % v if v < 0 else '%d' % v
    num = '(%d)' % m if m < 0 else '%d' % m
    return '(%s / %d)' % (num, 1 << (-e))


def rlit_frac(fr):
    fr = Fraction(fr)
    n, d = fr.numerator, fr.denominator
    num = '(%d)' % n if n < 0 else '%d' % n
    return num if d == 1 else '(%s / %d)' % (num, d)


def run_interval_goals(casedir, header, goals, shard=60, prefix='ival', tactic='interval with (i_prec 120)', timeout=600, max_rounds=6):
    """goals: list of Coq propositions (one line each).  Each becomes `Goal <prop>. Proof. <tactic>. Qed.` (kernel-checked).
    Returns (failing_indices, errors).  A file that fails is recompiled without the failing goal (located by line number)."""
    shards = [(s, list(range(s, min(s + shard, len(goals))))) for s in range(0, len(goals), shard)]
    failing, errors = [], []
    pending = shards
    for rnd in range(max_rounds):
        if not pending:
            break
        files = []
        for base, idxs in pending:
            lines = [header]
            for i in idxs:
                lines.append('Goal %s. Proof. %s. Qed.' % (goals[i].replace('\n', ' '), tactic))
            files.append(('%s_%d_%d.v' % (prefix, base, rnd), '\n'.join(lines) + '\n'))
        res = casedir.run_files(files, timeout=timeout)
        nxt = []
        hdr_lines = header.count('\n') + 1
        for (base, idxs), (name, _) in zip(pending, files):
            rc, out = res[name]
            if rc == 0:
                continue
            m = re.search(r'File "[^"]+", line (\d+)', out)
            if not m:
                errors.append((name, out[-2000:]))
                continue
            k = int(m.group(1)) - hdr_lines - 1
            if 0 <= k < len(idxs):
                failing.append(idxs[k])
                rest = idxs[:k] + idxs[k + 1:]
                if rest:
                    nxt.append((base, rest))
            else:
                errors.append((name, out[-2000:]))
        pending = nxt
    if pending:
        errors.append(('interval', 'more than %d failing goals in a shard; stopped' % max_rounds))
    return sorted(failing), errors
