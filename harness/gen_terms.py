"""Seeded generators of term specifications, real pyGAM terms built from them, and data sets.
A spec is plain JSON-able data so it can be written into evidence / replay files."""
import numpy as np

PEN_NAMES = ['auto', 'derivative', 'l2', 'none', 'periodic', None]
CON_NAMES = [None, 'monotonic_inc', 'monotonic_dec', 'convex', 'concave', 'none']


def dyadic_lam(rng, allow_zero=True):
    """lam exactly representable with few bits so that lam * small-integer is exact in binary64"""
    r = rng.random()
    if allow_zero and r < 0.1:
        return 0.0
    k = rng.randint(1, 1 << 10)
    j = rng.randint(-12, 12)
    return float(k) * 2.0 ** j


def float_lam(rng):
    return float(10 ** rng.uniform(-4, 4))


def gen_lam(rng, dyadic=True):
    return dyadic_lam(rng) if dyadic else float_lam(rng)


def gen_spline(rng, feature, n_features, dyadic=True, max_n=12, allow_by=True, allow_constraints=False,
               allow_cp=True, allow_cat=True, min_order=0):
    order = rng.randint(min_order, 4)
    n = rng.randint(order + 1, max(order + 1, max_n))
    npen = rng.choice([1, 1, 1, 2, 3])
    pens = [rng.choice(PEN_NAMES) for _ in range(npen)]
    lam = [gen_lam(rng, dyadic) for _ in range(npen)]
    basis = 'cp' if (allow_cp and rng.random() < 0.25) else 'ps'
    spec = dict(kind='s', feature=feature, n_splines=n, spline_order=order, lam=lam, penalties=pens,
                constraints=[None], basis=basis, by=None, dtype='numerical', edge_knots=None)
    if allow_cat and rng.random() < 0.08:
        spec['dtype'] = 'categorical'
    if allow_by and n_features > 1 and rng.random() < 0.25:
        spec['by'] = rng.choice([j for j in range(n_features) if j != feature])
    if allow_constraints and rng.random() < 0.5:
        spec['constraints'] = [rng.choice(CON_NAMES) for _ in range(rng.choice([1, 1, 2]))]
    return spec


def gen_linear(rng, feature, dyadic=True):
    npen = rng.choice([1, 1, 2])
    return dict(kind='l', feature=feature, lam=[gen_lam(rng, dyadic) for _ in range(npen)],
                penalties=[rng.choice(PEN_NAMES) for _ in range(npen)])


def gen_factor(rng, feature, dyadic=True):
    npen = rng.choice([1, 1, 2])
    return dict(kind='f', feature=feature, lam=[gen_lam(rng, dyadic) for _ in range(npen)],
                penalties=[rng.choice(PEN_NAMES) for _ in range(npen)], coding=rng.choice(['one-hot', 'dummy']))


def gen_tensor(rng, n_features, factor_feats, dyadic=True, max_prod=80, allow_constraints=False):
    k = rng.choice([2, 2, 2, 3, 3, 4])
    k = min(k, n_features)
    if k < 2:
        return None
    feats = rng.sample(range(n_features), k)
    margins = []
    prod = 1
    for f_ in feats:
        budget = max(2, int(max_prod ** (1.0 / k)) + 1)
        r = rng.random()
        if f_ in factor_feats:
            m = gen_factor(rng, f_, dyadic) if r < 0.6 else gen_linear(rng, f_, dyadic)
        elif r < 0.75:
            m = gen_spline(rng, f_, n_features, dyadic, max_n=budget, allow_by=False,
                           allow_constraints=allow_constraints, allow_cat=False)
            if m['n_splines'] > budget:
                m['spline_order'] = min(m['spline_order'], budget - 1)
                m['n_splines'] = max(m['spline_order'] + 1, budget)
        else:
            m = gen_linear(rng, f_, dyadic)
        margins.append(m)
    by = None
    rest = [j for j in range(n_features) if j not in feats and j not in factor_feats]
    if rest and rng.random() < 0.25:
        by = rng.choice(rest)
    return dict(kind='te', margins=margins, by=by)


def gen_termlist(rng, n_features, factor_feats=(), dyadic=True, max_terms=5, allow_tensor=True,
                 allow_constraints=False, intercept=None, max_n=12, allow_cp=True, allow_cat=True, min_order=0):
    nterms = rng.randint(1, max_terms)
    specs = []
    for _ in range(nterms):
        f_ = rng.randrange(n_features)
        r = rng.random()
        if allow_tensor and r < 0.2 and n_features >= 2:
            t = gen_tensor(rng, n_features, factor_feats, dyadic, allow_constraints=allow_constraints)
            if t is not None:
                specs.append(t)
                continue
        if f_ in factor_feats:
            specs.append(gen_factor(rng, f_, dyadic) if rng.random() < 0.7 else gen_linear(rng, f_, dyadic))
        elif r < 0.75:
            specs.append(gen_spline(rng, f_, n_features, dyadic, allow_constraints=allow_constraints, max_n=max_n,
                                    allow_cp=allow_cp, allow_cat=allow_cat, min_order=min_order))
        else:
            specs.append(gen_linear(rng, f_, dyadic))
    if intercept is None:
        intercept = rng.random() < 0.6
    if intercept:
        pos = rng.randint(0, len(specs)) if rng.random() < 0.3 else len(specs)
        specs.insert(pos, dict(kind='intercept'))
    return specs


def build_term(spec):
    from pygam.terms import SplineTerm, LinearTerm, FactorTerm, TensorTerm, Intercept
    k = spec['kind']
    if k == 'intercept':
        return Intercept()
    if k == 's':
        kw = dict(n_splines=spec['n_splines'], spline_order=spec['spline_order'], lam=list(spec['lam']),
                  penalties=list(spec['penalties']), constraints=list(spec.get('constraints', [None])),
                  dtype=spec.get('dtype', 'numerical'), basis=spec.get('basis', 'ps'), by=spec.get('by'))
        if spec.get('edge_knots') is not None:
            kw['edge_knots'] = list(spec['edge_knots'])
        return SplineTerm(spec['feature'], **kw)
    if k == 'l':
        return LinearTerm(spec['feature'], lam=list(spec['lam']), penalties=list(spec['penalties']))
    if k == 'f':
        return FactorTerm(spec['feature'], lam=list(spec['lam']), penalties=list(spec['penalties']),
                          coding=spec.get('coding', 'one-hot'))
    if k == 'te':
        return TensorTerm(*[build_term(m) for m in spec['margins']], by=spec.get('by'))
    raise ValueError(k)


def build_termlist(specs):
    from pygam.terms import TermList
    return TermList(*[build_term(s) for s in specs])


def gen_X(rng, n, n_features, factor_feats=(), levels=None, scale=None):
    """numeric columns: floats; factor columns: consecutive integer codes 0..L-1 (all levels present when n>=L)"""
    nprng = np.random.RandomState(rng.randrange(1 << 30))
    X = np.zeros((n, n_features))
    for j in range(n_features):
        if j in factor_feats:
            L = (levels or {}).get(j, rng.randint(2, 5))
            col = nprng.randint(0, L, size=n)
            col[:min(L, n)] = np.arange(min(L, n))
            X[:, j] = col
        else:
            sc = scale if scale is not None else 10 ** rng.uniform(-2, 2)
            off = rng.uniform(-3, 3) * sc
            X[:, j] = off + sc * nprng.rand(n)
    return X
