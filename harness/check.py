"""CLI: ./check Cxx [--tier quick|thorough] [--replay file]"""
import argparse
import importlib
import json
import os
import sys
import traceback

sys.path.insert(0, os.path.dirname(os.path.abspath(__file__)))
import common  # noqa: E402


def main():
    ap = argparse.ArgumentParser()
    ap.add_argument('prop')
    ap.add_argument('--tier', default=os.environ.get('VERIF_TIER', 'quick'), choices=['quick', 'thorough'])
    ap.add_argument('--replay', default=None)
    ap.add_argument('--seed', type=int, default=int(os.environ.get('VERIF_SEED', '20261001')))
    a = ap.parse_args()
    prop = a.prop.upper()
    mod = importlib.import_module('props.%s' % prop.lower())
    res = common.Result(prop, a.tier, a.seed)
    try:
        if a.replay:
            replay = json.load(open(a.replay))
            mod.replay(res, replay)
        else:
            mod.run(res)
    except Exception:
        res.obligation('harness', False, detail=traceback.format_exc(), kind='harness')
    rc = common.finish(res, checker_cmd='cd /verif && ./check %s --tier %s' % (prop, a.tier), level=getattr(mod, 'LEVEL', 'proof'))
    sys.exit(rc)


if __name__ == '__main__':
    main()
