"""C12 -- fits are invariant to row order, feature units and equivalent weight encodings; LinearGAM is linear in y.

Metamorphic execution: the Coq side (Props/C12.v) proves that the transformed problem has the SAME penalised normal equations
(permutation, replication), the SAME model-matrix rows (change of units) or the linearly transformed solution (LinearGAM in y);
here the implementation is fitted on the original and on the transformed data and the two fits are compared."""
import contextlib
import copy
import io
import math
import warnings

import numpy as np

import common
import gen_models
import gen_terms

PROP = 'C12'
TOL = 1e-6           # relative tolerance of every comparison (DESIGN 3.2: never alarm on rounding)
FIT_TOL = 1e-10      # PIRLS convergence tolerance of the compared fits
MAX_ITER = 400
HEADER = """From Coq Require Import List ZArith QArith Bool.
From PG Require Import Base.Ops Base.Vec Model.Pirls Model.C01Check.
Import ListNotations.
"""


# ----------------------------------------------------------------------------- fitting
def fit(scn, X, y, w, capture=False):
    """fit the scenario's model on (X, y, w) with a tight tolerance; returns (gam, converged, last captured iteration or None)"""
    s2 = dict(scn, X=X, y=y, w=w)
    out = io.StringIO()
    with warnings.catch_warnings(), contextlib.redirect_stdout(out), np.errstate(all='ignore'):
        warnings.simplefilter('ignore')
        if capture:
            gam, its, _ = gen_models.fit_captured(s2, tol=FIT_TOL, max_iter=MAX_ITER)
            last = its[-1] if its else None
        else:
            gam = gen_models.build_gam(s2, tol=FIT_TOL, max_iter=MAX_ITER)
            if w is None:
                gam.fit(X.copy(), y.copy())
            else:
                gam.fit(X.copy(), y.copy(), weights=w.copy())
            last = None
    diffs = gam.logs_.get('diffs', [])
    conv = bool(len(diffs) and diffs[-1] < FIT_TOL and np.isfinite(gam.coef_).all())
    return gam, conv, last


def predict(gam, Xq):
    with warnings.catch_warnings(), np.errstate(all='ignore'):
        warnings.simplefilter('ignore')
        return np.asarray(gam.predict_mu(Xq.copy()), dtype=float)


def rel(a, b, scale=None):
    a, b = np.asarray(a, dtype=float), np.asarray(b, dtype=float)
    if a.shape != b.shape:
        return float('inf')
    if not (np.isfinite(a).all() and np.isfinite(b).all()):
        return 0.0 if np.array_equal(np.isnan(a), np.isnan(b)) and np.allclose(a[np.isfinite(a)], b[np.isfinite(b)], rtol=TOL, atol=0) else float('inf')
    s = scale if scale is not None else max(float(np.max(np.abs(a), initial=0.0)), float(np.max(np.abs(b), initial=0.0)))
    return float(np.max(np.abs(a - b), initial=0.0) / (s + 1e-300))


def rel_edof(e1, e2):
    return abs(e1 - e2) / max(1.0, abs(e1), abs(e2))



# ----------------------------------------------------------------------------- conditioning of the fitted problem
SQRT_EPS = float(np.sqrt(np.finfo(np.float64).eps))
EPS = float(np.finfo(np.float64).eps)
CFUDGE = 256.0


def lp_bounds(gam, X, y, w, Xq, weight_rounding=False):
    """First-order forward-error bound (least-squares perturbation theory, Bjorck 1996 thm 1.4.6) of the linear predictor q'x at
    the rows q of the model matrix of Xq, for the least-squares problem [WB; E] x ~ [W z; 0] the code solves by QR + SVD:
        |q' dx| <= c eps ( |q' A^+| (|A| |x| + |rhs|) + |q' (A'A)^-1| |A| |r| ).
    pyGAM's default models are unidentifiable up to the sqrt(eps) ridge (DESIGN 3.2): along such directions two correct
    computations of the same fit legitimately differ by this much, and a query row sees it when it is not a training row."""
    B = gam._modelmat(X).toarray()
    n, m = B.shape
    wts = np.ones(n) if w is None else gen_models.f32(w)
    x = np.asarray(gam.coef_, dtype=float)
    with warnings.catch_warnings(), np.errstate(all='ignore'):
        warnings.simplefilter('ignore')
        lp = B @ x
        mu = gam.link.mu(lp, gam.distribution)
        W = np.asarray(gam._W(mu, wts, y).diagonal(), dtype=float)
        mask = np.asarray(gam._mask(W), dtype=bool)
        gp = gam.link.gradient(mu, gam.distribution)
        z = lp + (y - mu) * gp
    P = gam._P().toarray() + SQRT_EPS * np.eye(m)
    lam_, V = np.linalg.eigh((P + P.T) / 2)
    E = np.sqrt(np.maximum(lam_, 0.0))[:, None] * V.T
    A = np.vstack([W[mask, None] * B[mask], E])
    rhs = np.concatenate([W[mask] * z[mask], np.zeros(m)])
    U, sv, Vt = np.linalg.svd(A, full_matrices=False)
    sv = np.maximum(sv, 1e-300)
    r = rhs - A @ x
    Q = gam._modelmat(Xq).toarray()
    VQ = Vt @ Q.T
    n1 = np.linalg.norm(VQ / sv[:, None], axis=0)
    n2 = np.linalg.norm(VQ / sv[:, None] ** 2, axis=0)
    t = CFUDGE * EPS * (n1 * (sv[0] * np.linalg.norm(x) + np.linalg.norm(rhs)) + n2 * sv[0] * np.linalg.norm(r))
    if weight_rounding and w is not None:
        # GAM._W evaluates weights ** -1 on the float32 weight array: the working weight of row i is w_i (1 + d_i), |d_i| <= 2^-24, with d_i
        # depending on the VALUE of w_i -- so a row of weight k w and its k copies of weight w are re-weighted differently.  First order in d
        # (implicit differentiation of the penalised score equation):  q' dx = sum_i q' (A'A)^-1 B_i W_i^2 (z_i - lp_i) d_i.
        # No fudge factor: this is an exact first-order expression, bounded with |d_i| <= 2^-24.
        G = (Vt.T / sv ** 2) @ (Vt @ B[mask].T)                      # (A'A)^-1 B'   (m x kept rows)
        score = (W[mask] ** 2) * np.abs(z[mask] - lp[mask])
        t = t + 2.0 ** -24 * (np.abs(Q @ G) @ score)
    return np.where(np.isfinite(t), t, np.inf)


def mu_excess(gam0, Xq, mu0, mu1, slack):
    """how far mu1 lies outside [ginv(lp0 - slack), ginv(lp0 + slack)] widened by TOL max|mu0|, in units of TOL max|mu0| (<= 1 is agreement)"""
    lp0 = np.asarray(gam0._modelmat(Xq).toarray() @ gam0.coef_, dtype=float)
    with warnings.catch_warnings(), np.errstate(all='ignore'):
        warnings.simplefilter('ignore')
        a = np.asarray(gam0.link.mu(lp0 - slack, gam0.distribution), dtype=float)
        b = np.asarray(gam0.link.mu(lp0 + slack, gam0.distribution), dtype=float)
    lo = np.fmin(np.fmin(a, b), mu0)
    hi = np.fmax(np.fmax(a, b), mu0)
    S = float(np.max(np.abs(mu0))) + 1e-300
    out = np.maximum(np.maximum(lo - mu1, mu1 - hi), 0.0)
    out = np.where(np.isfinite(out), out, np.inf)
    return float(np.max(out) / (TOL * S))

# ----------------------------------------------------------------------------- which features may change units
def uses(specs):
    """feature -> set of the ways it enters the model"""
    u = {}

    def add(f_, how):
        u.setdefault(f_, set()).add(how)
    for s in specs:
        k = s['kind']
        if k == 's':
            ok = s.get('dtype', 'numerical') == 'numerical' and s.get('edge_knots') is None
            add(s['feature'], 'spline' if ok else 'other')
            if s.get('by') is not None:
                add(s['by'], 'by')
        elif k in ('l', 'f'):
            add(s['feature'], 'other')
        elif k == 'te':
            for m in s['margins']:
                if m['kind'] == 's':
                    ok = m.get('dtype', 'numerical') == 'numerical' and m.get('edge_knots') is None
                    add(m['feature'], 'spline' if ok else 'other')
                else:
                    add(m['feature'], 'other')
            if s.get('by') is not None:
                add(s['by'], 'by')
    return u


def has_cp(specs, f_):
    for s in specs:
        if s['kind'] == 's' and s['feature'] == f_ and s.get('basis') == 'cp':
            return True
        if s['kind'] == 'te' and any(m['kind'] == 's' and m['feature'] == f_ and m.get('basis') == 'cp' for m in s['margins']):
            return True
    return False


def query_points(rng, scn, k=12, extrapolate=True):
    """training rows plus random rows: inside the training range (always for cp features and factor levels), a few mildly outside"""
    X = scn['X']
    n, nf = X.shape
    nprng = np.random.RandomState(rng.randrange(1 << 30))
    Q = np.zeros((k, nf))
    for j in range(nf):
        lo, hi = X[:, j].min(), X[:, j].max()
        if j in scn['factor_feats']:
            Q[:, j] = nprng.choice(X[:, j], size=k)
        else:
            t = nprng.rand(k)
            if extrapolate and not has_cp(scn['specs'], j):
                t[: k // 4] = nprng.uniform(-0.2, 1.2, size=k // 4)
            Q[:, j] = lo + t * (hi - lo)
    return np.vstack([X, Q])


def payload(scn, X, y, w, **extra):
    d = dict(cls=scn['cls'], kw=dict(scn['kw'], tol=FIT_TOL, max_iter=MAX_ITER), specs=scn['specs'], X=np.asarray(X).tolist(),
             y=np.asarray(y).tolist(), weights=None if w is None else np.asarray(w).tolist(), factor_feats=list(scn['factor_feats']))
    d.update(extra)
    return d


# ----------------------------------------------------------------------------- the four metamorphic relations
def masked_rows(gam, X, y, w):
    """number of observations that GAM._mask drops from the PIRLS step at the FINAL coefficients (|W| < sqrt(eps): saturated means).  Such a
    fit is a fixed point of the step over the remaining rows only: the dropped rows, however badly fitted, no longer influence it."""
    B = gam._modelmat(X).toarray()
    wts = np.ones(len(y)) if w is None else gen_models.f32(w)
    with warnings.catch_warnings(), np.errstate(all='ignore'):
        warnings.simplefilter('ignore')
        mu = gam.link.mu(B @ np.asarray(gam.coef_, dtype=float), gam.distribution)
        W = np.asarray(gam._W(mu, wts, y).diagonal(), dtype=float)
        return int(len(y) - np.sum(np.asarray(gam._mask(W), dtype=bool)))


def mask_witness():
    """finding C12-masked-saturated-rows-frozen-fit: LogisticGAM, one unpenalised spline, 24 rows with integer-valued weights w*k versus rows
    replicated k times with weights w (exact data in c12_mask_witness.json).  Both fits stop with diff < 1e-10; the replicated one has 23 rows
    masked out of its last step, among them y = 1 rows predicted 1e-23: log-likelihood -907.5 against -58.7 on the same data.
    returns (max |mu - mu'|, loglik weighted, loglik replicated, masked rows weighted, masked rows replicated)"""
    import json
    import os
    from pygam import LogisticGAM, s
    d = json.load(open(os.path.join(os.path.dirname(os.path.abspath(__file__)), 'c12_mask_witness.json')))
    X, y, w, k = np.array(d['x'])[:, None], np.array(d['y']), np.array(d['w']), np.array(d['k'])
    idx = np.repeat(np.arange(len(y)), k)

    def mk():
        return LogisticGAM(s(0, n_splines=9, spline_order=2, lam=0.07484608123890127, penalties='none'), fit_intercept=False, tol=1e-10, max_iter=400)
    out = io.StringIO()
    with warnings.catch_warnings(), contextlib.redirect_stdout(out), np.errstate(all='ignore'):
        warnings.simplefilter('ignore')
        g0, g1 = mk().fit(X, y, weights=w * k), mk().fit(X[idx], y[idx], weights=w[idx])
        m0, m1 = g0.predict_mu(X), g1.predict_mu(X)

        def ll(m):
            return float(np.sum(w * k * (y * np.log(np.maximum(m, 1e-300)) + (1 - y) * np.log(np.maximum(1 - m, 1e-300)))))
        return float(np.max(np.abs(m0 - m1))), ll(m0), ll(m1), masked_rows(g0, X, y, w * k), masked_rows(g1, X[idx], y[idx], w[idx])


def transform_perm(rng, scn):
    n = scn['n']
    perm = list(range(n))
    rng.shuffle(perm)
    perm = np.array(perm)
    return dict(kind='permutation', perm=perm.tolist())


def transform_affine(rng, scn):
    u = uses(scn['specs'])
    feats = [f_ for f_, how in sorted(u.items()) if how == {'spline'} and f_ not in scn['factor_feats']]
    maps = {}
    for f_ in feats:
        col = scn['X'][:, f_]
        rngx = float(col.max() - col.min())
        if rngx == 0.0:
            continue        # constant column: equal edge knots, excluded by the guard of C12_affine_partial
        a = float(10 ** rng.uniform(-6, 6))
        r = rng.random()
        if rng.random() < 0.25:
            # extreme units (a power of two, so the rescaled column is exact): a feature range of 1e-15 .. 1e12 is still a range, not a constant
            a = 2.0 ** rng.randint(-50, 40)
            b = 0.0 if r < 0.5 else float(rng.choice([-1, 1]) * a * rngx * rng.randint(1, 8))
            maps[str(f_)] = [a, b]
            continue
        if r < 0.15:
            b = 0.0
        elif r < 0.55:
            b = rng.choice([-1, 1]) * a * rngx * rng.uniform(0.1, 10)
        else:
            b = rng.choice([-1, 1]) * a * rngx * 10 ** rng.uniform(1, 6)
        maps[str(f_)] = [a, float(b)]
    return dict(kind='affine', maps=maps)


def transform_repl(rng, scn):
    return dict(kind='replication', k=[rng.randint(1, 5) for _ in range(scn['n'])])


def transform_repl_const(rng, scn):
    """the same multiplicity for every row (2, 3 or 5; 1 as a control: weights of ones against no weights): with unit base weights the
    weight vector is CONSTANT, an instance of C12_weights_replication like any other (a constant weight vector is not 'no weights': it
    changes the balance between the data and the penalty)"""
    return dict(kind='replication', constant=True, k=[rng.choice([2, 3, 5, 2, 3, 5, 1])] * scn['n'])


def apply_maps(X, maps):
    X2 = np.array(X, dtype=float, copy=True)
    for f_, (a, b) in maps.items():
        X2[:, int(f_)] = a * X2[:, int(f_)] + b
    return X2


def compare(res, what, inp, checks, finding=None):
    """checks: list of (name, value, bound); returns True when all hold"""
    bad = [(nm, v, bd) for nm, v, bd in checks if not (v <= bd)]
    if bad:
        res.violations.append(dict(what=what, finding=finding, input=inp,
                                   observed={nm: v for nm, v, _ in bad}, expected={nm: '<= %g' % bd for nm, _, bd in bad}))
    return not bad


def run_relation(res, rng, scn, tr, base=None, capture=False):
    """fit original and transformed data, compare.  returns (status, info) with status in {'ok','bad','skipped:<why>'}"""
    X, y, w = scn['X'], scn['y'], scn['w']
    Xq = query_points(rng, scn)
    kind = tr['kind']
    try:
        if base is None:
            base = fit(scn, X, y, w, capture=capture)
        gam0, conv0, it0 = base
        if kind == 'permutation':
            p = np.array(tr['perm'])
            X1, y1, w1, Xq1 = X[p], y[p], (None if w is None else w[p]), Xq
        elif kind == 'affine':
            X1, y1, w1, Xq1 = apply_maps(X, tr['maps']), y, w, apply_maps(Xq, tr['maps'])
        else:
            k = np.array(tr['k'])
            idx = np.repeat(np.arange(len(y)), k)
            if w is not None:            # base weights with 16 significant bits so that k * w (k <= 5) is exact in float32
                mant, expo = np.frexp(np.asarray(w, dtype=float))
                w = np.ldexp(np.round(mant * 65536.0) / 65536.0, expo)
            w0 = k.astype(float) if w is None else gen_models.f32(w * k)
            # the weighted fit is the 'original' here: integer multiples of the base weights (float32 exact)
            gam0, conv0, it0 = fit(scn, X, y, w0, capture=capture)
            X1, y1, w1, Xq1 = X[idx], y[idx], (None if w is None else w[idx]), Xq
        gam1, conv1, it1 = fit(scn, X1, y1, w1, capture=capture)
    except Exception as e:           # ValueError (OptimizationError, NotPositiveDefiniteError ..): permitted outcomes (C11), nothing to compare;
        if not isinstance(e, ValueError):        # other exception types are C01 / C02 / C11 business: noted, not compared
            res.notes.append('fit raised %s: %s (scenario %s)' % (type(e).__name__, str(e)[:120], repr(scn['specs'])[:300]))
        return 'skipped:fit raised %s' % type(e).__name__, None
    if not (conv0 and conv1):
        return 'skipped:not converged', None
    mu0, mu1 = predict(gam0, Xq), predict(gam1, Xq1)
    if not (np.isfinite(mu0).all() and np.isfinite(mu1).all()):
        return 'skipped:non-finite predictions', None
    e0, e1 = float(gam0.statistics_['edof']), float(gam1.statistics_['edof'])
    X0, y0, w0_ = (X, y, w) if kind != 'replication' else (X, y, w0)
    f32w = (kind == 'replication')       # only there do the two fits see different weight VALUES (k w against w)
    slack = lp_bounds(gam0, X0, y0, w0_, Xq, weight_rounding=f32w) + lp_bounds(gam1, X1, y1, w1, Xq1, weight_rounding=f32w)
    checks = [('predictions: excess over (tol * max|mu| + conditioning bound), in units of tol * max|mu|', mu_excess(gam0, Xq, mu0, mu1, slack), 1.0),
              ('edof: relative difference', rel_edof(e0, e1), TOL)]
    lpmax = float(np.max(np.abs(gam0._modelmat(Xq).toarray() @ gam0.coef_))) + 1e-300
    res.count('conditioning bound on the linear predictor of the query rows, relative: %s' % (
        '<=1e-9' if np.max(slack) <= 1e-9 * lpmax else ('<=1e-6' if np.max(slack) <= 1e-6 * lpmax else '>1e-6 (dominates the tolerance)')))
    inp = payload(scn, X, y, w, transform=tr, query=Xq.tolist())
    # a fit that ended with rows masked out of its last step is a fixed point of a DIFFERENT (smaller) problem: listed finding when the two differ
    nm0, nm1 = masked_rows(gam0, X0, y0, w0_), masked_rows(gam1, X1, y1, w1)
    frozen = (nm0 > 0 or nm1 > 0)
    if frozen:
        res.count('%s: a fit ended with rows masked out of the last PIRLS step (saturated means)' % kind)
        inp['masked_rows_final_step'] = [nm0, nm1]
    ok = compare(res, '%s changes the fit' % kind, inp, checks, finding=MASK_FINDING if frozen else None)
    if not ok and frozen:
        return 'ok', dict(gam0=gam0, gam1=gam1, it0=None, it1=None, checks=checks)     # reported as the known finding, not as a disagreement
    return ('ok' if ok else 'bad'), dict(gam0=gam0, gam1=gam1, it0=it0, it1=it1, checks=checks)


PVAL_FINDING = 'C12-pvalue-pinv-noise'
CONST_FINDING = 'C12-constant-column-units'
MASK_FINDING = 'C12-masked-saturated-rows-frozen-fit'


def pinv_kept(gam, t):
    """(rank decided by scipy.linalg.pinv at its default cut-off max(M,N)*eps*sv0, smallest kept singular value / largest) of the term's covariance block"""
    import scipy.linalg
    cov = np.asarray(gam.statistics_['cov'], dtype=float)
    idxs = gam.terms.get_coef_indices(t)
    blk = cov[idxs][:, idxs]
    sv = np.linalg.svd(blk, compute_uv=False)
    _, rank = scipy.linalg.pinv(blk, return_rank=True)
    return int(rank), (float(sv[rank - 1] / sv[0]) if rank and sv[0] > 0 else 0.0)


def pvalue_noise_term(ga, gb, t):
    """Predicate of finding C12-pvalue-pinv-noise for ONE term, the two fits being of y and of c*y (covariance blocks proportional in exact
    arithmetic): scipy.linalg.pinv's rank decision is made at the rounding level of the block, i.e. (a) in one of the fits it keeps a singular
    value below 1e-9 of the largest -- far below the accuracy of a covariance computed in binary64 through a solve whose condition number is at
    least 1e4 (sqrt(eps) ridge), so 1/sv multiplies rounding noise in the Wald score -- or (b) the two fits get different ranks (a singular value
    crosses the cut-off max(M,N)*eps, which also changes the degrees of freedom of the reference distribution).  Returns the reason or None."""
    ra, ka = pinv_kept(ga, t)
    rb, kb = pinv_kept(gb, t)
    if ra != rb:
        return 'rank %d vs %d' % (ra, rb)
    if min(ka, kb) < 1e-9:
        return 'smallest kept singular value %.2g of the largest' % min(ka, kb)
    return None


def pvalue_noise_terms(gam, bad_terms, other=None):
    """every listed term satisfies the predicate (used for the recorded witness)"""
    return all(pvalue_noise_term(gam, other if other is not None else gam, t) is not None for t in bad_terms)


S17_X = [[5.140822, 0.0], [6.295206, 1.0], [6.781372, 2.0], [8.132285, 2.0], [4.654245, 0.0], [5.283667, 0.0], [5.59843, 2.0], [5.880602, 1.0],
         [8.535161, 2.0], [8.789684, 2.0], [8.826329, 2.0], [5.391781, 0.0], [8.960983, 2.0], [8.711194, 1.0], [8.483915, 1.0], [7.098726, 1.0],
         [8.99351, 0.0], [6.363354, 0.0]]
S17_Y = [-0.041495, -0.097043, -0.019284, 0.020099, -0.050937, -0.097352, 0.033562, -0.044424, 0.026273, -0.006916, 0.014628, -0.005003,
         0.034354, -0.006665, -0.058823, -0.043912, -0.10562, -0.075556]


def s17_witness(c=3.0):
    """candidate finding S17: LinearGAM(l(1) + s(0, l2 penalty) + intercept), 18 rows: predictions scale exactly with y -> 3 y while the
    p-value of the spline term moves in the 4th digit (0.38400 -> 0.38384); returns (p_values, p_values_scaled, prediction error)"""
    from pygam import LinearGAM, s, l, intercept
    X, y = np.array(S17_X), np.array(S17_Y)

    def mk():
        return LinearGAM(l(1, lam=1795.92, penalties=[None]) + s(0, n_splines=7, spline_order=4, lam=0.00471, penalties='l2') + intercept,
                         fit_intercept=False, tol=1e-10, max_iter=400)
    with warnings.catch_warnings(), np.errstate(all='ignore'):
        warnings.simplefilter('ignore')
        g1, g2 = mk().fit(X, y), mk().fit(X, c * y)
    return (np.asarray(g1.statistics_['p_values'], dtype=float), np.asarray(g2.statistics_['p_values'], dtype=float),
            float(np.max(np.abs(g2.predict(X) - c * g1.predict(X))) / abs(c)), g1, g2)



def const_column_witness(a=10.0):
    """the case excluded by the guard of C12_affine_partial (C03_affine_invariance_equal_knots_refuted replayed on the implementation): a
    CONSTANT training column has equal edge knots, the code replaces the knot range 0 by 1, and a query point off that constant is
    extrapolated on an absolute scale: predictions there depend on the units of the feature.  returns (mu, mu_mapped, edof, edof_mapped)"""
    from pygam import LinearGAM, s
    rs = np.random.RandomState(0)
    n = 30
    X = np.c_[np.full(n, 2.0), rs.rand(n)]
    y = np.sin(3 * X[:, 1]) + 0.1 * rs.randn(n)
    X2 = X.copy()
    X2[:, 0] *= a
    Q = np.array([[2.0, 0.5], [2.5, 0.5], [3.0, 0.5]])
    Q2 = Q.copy()
    Q2[:, 0] *= a
    with warnings.catch_warnings(), np.errstate(all='ignore'):
        warnings.simplefilter('ignore')
        g1 = LinearGAM(s(0, n_splines=5) + s(1, n_splines=6)).fit(X, y)
        g2 = LinearGAM(s(0, n_splines=5) + s(1, n_splines=6)).fit(X2, y)
    return g1.predict(Q), g2.predict(Q2), float(g1.statistics_['edof']), float(g2.statistics_['edof']), dict(X=X.tolist(), y=y.tolist(), a=a, b=0.0, query=Q.tolist())


def pvalue_cond(gam, t):
    """condition number of the part of the term's covariance block that scipy.linalg.pinv inverts (largest / smallest KEPT singular value):
    the Wald score coef' pinv(cov) coef computed from the float covariance has relative error of order eps * this, whatever the algorithm"""
    import scipy.linalg
    cov = np.asarray(gam.statistics_['cov'], dtype=float)
    idxs = gam.terms.get_coef_indices(t)
    blk = cov[idxs][:, idxs]
    sv = np.linalg.svd(blk, compute_uv=False)
    _, rank = scipy.linalg.pinv(blk, return_rank=True)
    if rank == 0 or not np.isfinite(sv).all() or sv[rank - 1] <= 0:
        return float('inf')
    return float(sv[0] / sv[rank - 1])


def rss_slack(gam, X, y, w, t_train):
    """Rounding analysis of the residual sum of squares  S = sum w (y - mu)^2  behind scale (= S / (n - edof)), GCV (= n S / (n - 1.4 edof)^2) and
    cov (= scale * Binv Binv'): each residual is formed as y_i - fl(B_i . coef), whose absolute error is at least the dot-product bound
    (m + 2) eps (|B_i| . |coef| + |y_i|) plus the solver's forward error t_i at that row (lp_bounds), whatever the algorithm.  For a nearly
    interpolating fit (n <= m, residuals of a few thousand ulps of y) that is a large RELATIVE error of S; returns the first-order bound
    (2 sum w |r| d + sum w d^2) / S and the relative error bounds of (n - edof) and (n - 1.4 edof)^2 from an edof accurate to 64 eps max(1, edof)."""
    B = gam._modelmat(X).toarray()
    n, m = B.shape
    coef = np.asarray(gam.coef_, dtype=float)
    wts = np.ones(n) if w is None else gen_models.f32(w)
    r = y - B @ coef
    d = (m + 2) * EPS * (np.abs(B) @ np.abs(coef) + np.abs(y)) + np.asarray(t_train, dtype=float)
    S = float(np.sum(wts * r * r))
    num = float(np.sum(wts * (2 * np.abs(r) * d + d * d)))
    s_rel = num / S if S > 0 else float('inf')
    edof = float(gam.statistics_['edof'])
    e_abs = 64 * EPS * max(1.0, abs(edof))
    den1 = abs(n - edof)
    den2 = abs(n - 1.4 * edof)
    return s_rel, (e_abs / den1 if den1 > 0 else float('inf')), (2 * 1.4 * e_abs / den2 if den2 > 0 else float('inf'))


def linear_checks(res, scn, X, y, w, c, y2, Xq):
    try:
        g1, c1, _ = fit(scn, X, y, w)
        gc, cc, _ = fit(scn, X, c * y, w)
        g2, c2, _ = fit(scn, X, y2, w)
        g12, c12_, _ = fit(scn, X, y + y2, w)
    except Exception as e:
        if not isinstance(e, ValueError):
            res.notes.append('fit raised %s: %s (scenario %s)' % (type(e).__name__, str(e)[:120], repr(scn['specs'])[:300]))
        return 'skipped:fit raised %s' % type(e).__name__
    if not (c1 and cc and c2 and c12_):
        return 'skipped:not converged'
    s1, sc = g1.statistics_, gc.statistics_
    mu1, muc, mu2, mu12 = predict(g1, Xq), predict(gc, Xq), predict(g2, Xq), predict(g12, Xq)
    t1, tc, t2, t12 = lp_bounds(g1, X, y, w, Xq), lp_bounds(gc, X, c * y, w, Xq), lp_bounds(g2, X, y2, w, Xq), lp_bounds(g12, X, y + y2, w, Xq)
    Sc = float(np.max(np.abs(c * mu1))) + 1e-300
    Sa = float(np.abs(mu1).max() + np.abs(mu2).max()) + 1e-300
    ntr = len(y)                 # the first rows of Xq are the training rows
    r1, e1a, e1b = rss_slack(g1, X, y, w, t1[:ntr])
    rc, eca, ecb = rss_slack(gc, X, c * y, w, tc[:ntr])
    tol_scale = TOL + r1 + rc + e1a + eca        # scale and cov: S / (n - edof)
    tol_gcv = TOL + r1 + rc + e1b + ecb          # GCV: n S / (n - 1.4 edof)^2
    res.count('rounding bound of the residual sum of squares, relative: %s' % ('<=1e-9' if r1 + rc <= 1e-9 else ('<=1e-6' if r1 + rc <= 1e-6 else
              '>1e-6 (nearly interpolating fit: dominates the tolerance of scale / GCV / cov)')))
    checks = [
        ('scaling: predictions, excess of |mu(c y) - c mu(y)| over (tol max|c mu| + conditioning bound), in units of tol max|c mu|',
         float(np.max(np.maximum(np.abs(muc - c * mu1) - tc - abs(c) * t1, 0.0)) / (TOL * Sc)), 1.0),
        ('scaling: edof', rel_edof(float(s1['edof']), float(sc['edof'])), TOL),
        ('scaling: scale / (c^2 scale) (tol + rounding bound of the residual sum of squares and of n - edof)', rel(sc['scale'], c * c * s1['scale']), tol_scale),
        ('scaling: GCV / (c^2 GCV) (tol + rounding bound)', rel(sc['GCV'], c * c * s1['GCV']), tol_gcv),
        ('scaling: cov / (c^2 cov) (tol + rounding bound)', rel(sc['cov'], c * c * np.asarray(s1['cov'])), tol_scale),
        ('additivity: predictions, excess of |mu(y1+y2) - mu(y1) - mu(y2)| over (tol (max|mu1| + max|mu2|) + conditioning bound), in units of tol (..)',
         float(np.max(np.maximum(np.abs(mu12 - mu1 - mu2) - t1 - t2 - t12, 0.0)) / (TOL * Sa)), 1.0),
        ('additivity: edof', max(rel_edof(float(s1['edof']), float(g2.statistics_['edof'])), rel_edof(float(s1['edof']), float(g12.statistics_['edof']))), TOL),
    ]
    inp = payload(scn, X, y, w, transform=dict(kind='linear-in-y', c=c, y2=np.asarray(y2).tolist()), query=Xq.tolist())
    ok = compare(res, 'LinearGAM is not linear in the response', inp, checks)
    p1, pc = np.asarray(s1['p_values'], dtype=float), np.asarray(sc['p_values'], dtype=float)
    dp = np.abs(p1 - pc)
    # the Wald score is proportional to 1 / scale: |dp| <= sup_x x f(x) * (relative error of the score), and sup_x x f_k(x) <= 1 + sqrt(k) for the
    # chi^2_k / F_{k, .} densities with k <= number of coefficients of the term
    kfac = np.array([1.0 + math.sqrt(len(g1.terms.get_coef_indices(t))) for t in range(len(p1))])
    ptol = TOL + kfac * (tol_scale - TOL)
    over = [int(t) for t in np.nonzero(~(dp <= ptol))[0]]
    # term by term: (1) the listed defect (pinv's rank decision at rounding level: C12-pvalue-pinv-noise); (2) rounding: relative error
    # 64 eps cond(kept part of the covariance block) of the Wald score; (3) anything else is a new violation
    tagged, bad_terms, reasons, tols = [], [], {}, {}
    for t in over:
        why = pvalue_noise_term(g1, gc, t)
        if why is not None:
            tagged.append(t)
            reasons[t] = why
            continue
        tol2 = float(ptol[t] + kfac[t] * 64 * EPS * max(pvalue_cond(g1, t), pvalue_cond(gc, t)))
        if dp[t] <= tol2:
            res.count('p-values: moved by more than %g but within 64 eps cond(covariance block) (ill-conditioned Wald score, accepted as rounding)' % TOL)
        else:
            bad_terms.append(t)
            tols[t] = tol2
    if tagged:
        res.violations.append(dict(what='LinearGAM p-values change under y -> c y', finding=PVAL_FINDING, input=inp,
                                   observed=dict(p_values=p1.tolist(), p_values_scaled=pc.tolist(), terms=tagged, pinv={str(t): reasons[t] for t in tagged}),
                                   expected='equal within %g' % TOL))
    if bad_terms:
        res.violations.append(dict(what='LinearGAM p-values change under y -> c y', finding=None, input=inp,
                                   observed=dict(p_values=p1.tolist(), p_values_scaled=pc.tolist(), terms=bad_terms,
                                                 tolerance=[tols[t] for t in bad_terms]), expected='equal within tolerance'))
        ok = False
    return 'ok' if ok else 'bad'


def linear_in_y(res, rng, scn):
    """LinearGAM with estimated scale: y -> c y and y1 + y2"""
    X, y = scn['X'], scn['y']
    n = len(y)
    Xq = query_points(rng, scn)
    c = float(10 ** rng.uniform(-6, 6)) * rng.choice([1, 1, 1, -1])
    nprng = np.random.RandomState(rng.randrange(1 << 30))
    y2 = float(np.abs(y).max() + 1e-3) * 10 ** rng.uniform(-2, 2) * nprng.randn(n)
    return linear_checks(res, scn, X, y, scn['w'], c, y2, Xq)


# ----------------------------------------------------------------------------- exact cross check through Coq (LinearGAM)
def cross_case(scn, it_eq, it_coef, min_tole=None):
    """C01's exact dyadic checker on the normal equations captured from ONE fit with the coefficients of the OTHER fit:
    the theorems predict that the solution of the original problem solves the transformed problem's equations"""
    import re
    from props import c01
    it = dict(it_eq)
    it['coef_new'] = it_coef['coef_new']
    case = c01.case_of(scn, it)
    if min_tole is not None:     # replication: pyGAM evaluates W = sqrt(w) in float32, so W^2 = w only to single precision (relative 6e-8 .. 1e-7)
        case = re.sub(r'\((-\d+)\)%Z\)$', lambda m_: '(%d)%%Z)' % max(int(m_.group(1)), min_tole), case)
    return case


def run(res):
    rng = common.rng_for(res.seed, PROP)
    per_class = 10 if res.tier == 'quick' else 120
    res.rule = ('seeded scenarios (harness/gen_models.py) over all six model classes x term mixes (spline ps/cp of order 0-4, linear, factor, tensor, '
                'by-variables, lists of penalties, lam 1e-4..1e4) x weights {none, float32, integer}; each scenario is refitted with tol=1e-10 on '
                '(a) a random row permutation, (b) every feature that enters only through spline bases mapped by x -> a x + b, a in 1e-6..1e6, '
                '|b| up to 1e6 knot ranges (query points mapped likewise; inside the training range for cp terms: S10), (c) integer multiplicities '
                '1..5 as weights versus replicated rows (random per row, and the same multiplicity 2, 3, 5 or 1 for every row with unit base weights), and LinearGAM scenarios with estimated scale on (d) c*y, c in +-1e-6..1e6, and y1 + y2; '
                'compared: predict_mu on the training rows and 12 further query rows, edof, and for (d) scale, GCV, cov, p-values; only '
                'converged pairs of fits are compared.  For LinearGAM the final coefficients of the original fit are also checked, in exact '
                'dyadic arithmetic in Coq, to solve the captured normal equations of the transformed fit.  A case is non-trivial when the '
                'transformation is not the identity (permutation moves a row, some feature is mapped, some multiplicity > 1, c != 1).')
    common.standard_prove(res, 'Props/C12.v', gen_targets=['dists', 'stats'], extra=['Model/C01Check.vo'])
    warnings.simplefilter('ignore')
    cross, cross_meta = [], []
    crng = common.rng_for(res.seed, PROP, 'constant-multiplicity')
    status = {}
    nlin = 0
    for cls in gen_models.CLASSES:
        for i in range(per_class):
            wkind = ['none', 'float', 'int'][i % 3]
            scn = gen_models.gen_scenario(rng, cls=cls, regime='n>m' if i % 4 else rng.choice(['n=m', 'n<m']), constraints=False,
                                          max_n=40 if res.tier == 'quick' else 120, max_m=16 if res.tier == 'quick' else 36, weights=wkind)
            d = gen_models.describe(scn)
            capture = (cls == 'LinearGAM' and i < (4 if res.tier == 'quick' else 20))
            try:
                base = fit(scn, scn['X'], scn['y'], scn['w'], capture=capture)
            except Exception as e:
                res.count('base fit raised %s' % type(e).__name__)
                if not isinstance(e, ValueError):
                    res.notes.append('fit raised %s: %s (scenario %s)' % (type(e).__name__, str(e)[:120], repr(scn['specs'])[:300]))
                continue
            for mk in (transform_perm, transform_affine, transform_repl, transform_repl_const):
                # the constant-multiplicity relation has its own random stream (so the scenarios of the other relations are unchanged) and
                # unit base weights (so that the weight vector handed to fit is constant)
                rng_, scn_ = (crng, dict(scn, w=None)) if mk is transform_repl_const else (rng, scn)
                tr = mk(rng_, scn_)
                kind = tr['kind']
                if kind == 'affine' and not tr['maps']:
                    res.count('affine: no feature enters only through spline bases')
                    continue
                st, info = run_relation(res, rng_, scn_, tr, base=base, capture=capture)
                res.count('%s%s %s' % (kind, ' (constant multiplicity %d)' % tr['k'][0] if tr.get('constant') else '', st))
                status.setdefault(kind, []).append(st)
                if st.startswith('skipped'):
                    continue
                nontriv = {'permutation': lambda: tr['perm'] != sorted(tr['perm']), 'affine': lambda: True,
                           'replication': lambda: max(tr['k']) > 1}[kind]()
                res.case(repr((cls, kind + ('-const' if tr.get('constant') else ''), i, repr(scn['specs']))), nontrivial=nontriv,
                         sample=dict(d, transform={k_: (v if k_ != 'perm' and k_ != 'k' else v[:8]) for k_, v in tr.items()},
                                     compared={nm: v for nm, v, _ in info['checks']}) if i == 1 else None)
                res.count('%s %s' % (cls, kind))
                if capture and info['it0'] is not None and info['it1'] is not None and not gam_has_escalation(info):
                    cross.append(cross_case(dict(scn_), info['it1'], info['it0'], min_tole=-20 if kind == 'replication' else None))
                    cross_meta.append(dict(d, transform=kind))
            if cls == 'LinearGAM' and 'scale' not in scn['kw']:
                st = linear_in_y(res, rng, scn)
                res.count('linear-in-y %s' % st)
                status.setdefault('linear-in-y', []).append(st)
                if not st.startswith('skipped'):
                    nlin += 1
                    res.case(repr((cls, 'linear-in-y', i, repr(scn['specs']))))
    # extra LinearGAM scenarios for (d) so that the relation is exercised as often as the others
    extra = (per_class * 3) if res.tier == 'quick' else per_class * 2
    for i in range(extra):
        scn = gen_models.gen_scenario(rng, cls='LinearGAM', regime='n>m' if i % 4 else rng.choice(['n=m', 'n<m']), constraints=False,
                                      max_n=40, max_m=16, weights=['none', 'float', 'int'][i % 3])
        scn['kw'].pop('scale', None)
        st = linear_in_y(res, rng, scn)
        res.count('linear-in-y %s' % st)
        status.setdefault('linear-in-y', []).append(st)
        if not st.startswith('skipped'):
            res.case(repr(('LinearGAM', 'linear-in-y', 'x%d' % i, repr(scn['specs']))))
    # candidate finding S17: re-validate the recorded witness on the implementation
    try:
        p1, p3, perr, g1, g3 = s17_witness()
        moved = [int(t) for t in np.nonzero(~(np.abs(p1 - p3) <= TOL))[0]]
        res.case('s17-witness')
        if moved:
            noise = pvalue_noise_terms(g1, moved, other=g3)
            res.violations.append(dict(what='LinearGAM p-values change under y -> c y (recorded witness s17_witness)', finding=PVAL_FINDING if noise else None,
                                       input=dict(fn='harness/props/c12.py:s17_witness', X=S17_X, y=S17_Y, c=3.0),
                                       observed=dict(p_values=p1.tolist(), p_values_scaled=p3.tolist(), prediction_error=perr), expected='equal within %g' % TOL))
    except ValueError as e:
        res.notes.append('s17 witness raised %s' % type(e).__name__)
    try:
        dmu, ll0, ll1, k0, k1 = mask_witness()
        res.case('mask-witness')
        if dmu > TOL:
            res.violations.append(dict(what='replication changes the fit (recorded witness mask_witness)', finding=MASK_FINDING if (k0 > 0 or k1 > 0) else None,
                                       input=dict(fn='harness/props/c12.py:mask_witness', data='harness/props/c12_mask_witness.json'),
                                       observed=dict(max_abs_difference_of_predictions=dmu, loglik_weighted=ll0, loglik_replicated=ll1, masked_rows=[k0, k1]),
                                       expected='equal within %g' % TOL))
    except ValueError as e:
        res.notes.append('mask witness raised %s' % type(e).__name__)
    try:
        m1, m2, e1, e2, winp = const_column_witness()
        res.case('constant-column-witness')
        if not (rel(m1, m2) <= TOL and rel_edof(e1, e2) <= TOL):
            # known shape of the finding: training-value row and edof agree, only rows off the constant differ
            known_shape = abs(m1[0] - m2[0]) <= TOL * abs(m1[0]) and rel_edof(e1, e2) <= TOL
            res.violations.append(dict(what='change of units of a CONSTANT training column changes predictions off the constant (equal edge knots)',
                                       finding=CONST_FINDING if known_shape else None, input=dict(winp, fn='harness/props/c12.py:const_column_witness'),
                                       observed=dict(mu=m1.tolist(), mu_mapped=m2.tolist(), edof=e1, edof_mapped=e2), expected='equal within %g' % TOL))
    except ValueError as e:
        res.notes.append('constant column witness raised %s' % type(e).__name__)
    for kind, sts in sorted(status.items()):
        nbad = sum(1 for s in sts if s == 'bad')
        ncmp = sum(1 for s in sts if s in ('ok', 'bad'))
        res.obligation('correspondence:%s: implementation agrees with the predicted invariance (%d compared)' % (kind, ncmp),
                       nbad == 0 and ncmp > 0, detail='%d of %d compared pairs differ; see violations' % (nbad, ncmp), kind='correspondence')
    # exact cross check in Coq
    if cross:
        with common.CaseDir(PROP) as cd:
            failing, errors = common.run_bool_cases(cd, HEADER, cross, 'check_case', shard=4)
        for name, out in errors:
            res.obligation('correspondence-file:' + name, False, detail=out, kind='correspondence')
        res.obligation('correspondence:LinearGAM coefficients of the original fit solve the captured normal equations of the transformed fit '
                       '(exact dyadic arithmetic, %d cases)' % len(cross), not failing and not errors,
                       detail='failing %s' % [cross_meta[i] for i in failing[:6]], kind='correspondence')
        for i in failing:
            res.violations.append(dict(what='coefficients fitted on the original data do not solve the normal equations of the transformed data',
                                       finding=None, input=cross_meta[i], observed='check_case = false', expected='true'))
        for i, mt in enumerate(cross_meta):
            res.case(repr(('cross', i, mt['transform'], repr(mt['specs']))))
    res.extra['tolerances'] = {'predictions / edof / scale / GCV / cov': '%g relative (to the largest entry); scale, GCV, cov: plus the first-order rounding bound of the residual sum of squares (dot-product bound (m+2) eps (|B_i||coef| + |y_i|) and solver forward error per residual) and of n - edof -- matters only for nearly interpolating fits (counted in input_distribution)' % TOL, 'p-values': '%g absolute, plus (1 + sqrt(k)) x [rounding bound of the scale + 64 eps cond(kept part of the term covariance block)] (k = coefficients of the term; sup x f(x) <= 1 + sqrt(k) for chi2_k / F_k densities)' % TOL,
                               'replication, float32 weights': 'first-order effect of the relative error 2^-24 of weights ** -1 (evaluated in float32 by GAM._W) on the linear predictor, sum_i |q (A\'A)^-1 B_i| W_i^2 |z_i - lp_i| 2^-24, is added to the conditioning bound of both fits',
                               'convergence of the compared fits': 'tol=%g, max_iter=%d; unconverged pairs are counted, not compared' % (FIT_TOL, MAX_ITER),
                               'exact cross check': 'backward error bound of C01 (64 eps cond^2 clipped to [2^-27, 2^-16]); replication: at least 2^-20, pyGAM evaluates W = sqrt(w) in float32'}
    res.trusted.append('uniqueness of the fit is proved from positive definiteness of the total penalty (ridge sqrt(eps) I): C12_normal_equations_unique')


def gam_has_escalation(info):
    return info['it0']['l2'] != 1e-3 or info['it1']['l2'] != 1e-3


# ----------------------------------------------------------------------------- replay
def replay(res, rp):
    """re-run the failing inputs of a replay file on the implementation"""
    rng = common.rng_for(res.seed, PROP, 'replay')
    warnings.simplefilter('ignore')
    for v in rp.get('failing_inputs', []):
        inp = v.get('input', {})
        if 'X' not in inp:
            continue
        X = np.array(inp['X'], dtype=float)
        y = np.array(inp['y'], dtype=float)
        w = None if inp.get('weights') is None else np.array(inp['weights'], dtype=float)
        kw = {k_: v_ for k_, v_ in inp['kw'].items() if k_ not in ('tol', 'max_iter')}
        scn = dict(cls=inp['cls'], specs=inp['specs'], X=X, y=y, w=w, kw=kw, n=len(y), m=0, regime='replay',
                   factor_feats=tuple(inp.get('factor_feats', ())))
        tr = inp['transform']
        if tr['kind'] == 'linear-in-y':
            st = _replay_linear(res, scn, tr, np.array(inp['query'], dtype=float))
        else:
            st = _replay_relation(res, scn, tr, np.array(inp['query'], dtype=float))
        res.count('replay %s %s' % (tr['kind'], st))
        res.case(repr(('replay', tr['kind'], repr(inp['specs']))))
    if not res.evaluations:
        run(res)


def _replay_relation(res, scn, tr, Xq):
    class FixedQ(object):        # query_points replacement: use the recorded query rows
        pass
    global query_points
    saved = query_points
    query_points = lambda rng, s, k=12, extrapolate=True: Xq       # noqa: E731
    try:
        st, _ = run_relation(res, common.rng_for(0, 'replay'), scn, tr)
    finally:
        query_points = saved
    return st


def _replay_linear(res, scn, tr, Xq):
    return linear_checks(res, scn, scn['X'], scn['y'], scn['w'], float(tr['c']), np.array(tr['y2'], dtype=float), Xq)
