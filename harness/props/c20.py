"""C20 -- the optimiser loop terminates, stops at tol and logs one record per iteration."""
import contextlib
import io
import os
import sys

import numpy as np

import common
from common import coq_list, coq_bool

PROP = 'C20'
PROPS_FILE = 'Props/C20.v'
F_S13 = 'S13-lineargam-callbacks'
F_TWOHOOK = 'C20-two-hook-callback-two-entries'

HEADER = """From Coq Require Import List String Bool Arith.
From PG Require Import Model.Loop Gen.C20Skeleton Model.C20Check.
Import ListNotations.
Open Scope string_scope.
Open Scope list_scope.
Definition length {A} (l : list A) : nat := List.length l.   (* String.length shadows List.length otherwise *)
"""

CLASSES = ['GAM', 'LinearGAM', 'LogisticGAM', 'PoissonGAM', 'GammaGAM', 'InvGaussGAM', 'ExpectileGAM']
GAM_COMBOS = [('normal', 'identity'), ('binomial', 'logit'), ('poisson', 'log'), ('gamma', 'log'), ('normal', 'log')]


# ----------------------------------------------------------------------------------------- translation + proof
def prove(res):
    """translate (fail-closed) then re-check the theorems against the regenerated skeleton"""
    with common.Lock():
        common._LOCK_HELD[0] = True
        try:
            sys.path.insert(0, os.path.join(common.VERIF, 'translator'))
            import skel_c20
            try:
                skel_c20.generate(common.REPO, common.COQ)
                res.obligation('translate:Gen/C20Skeleton.v', True, kind='translation')
                translated = True
            except Exception as e:  # fail closed
                res.obligation('translate:Gen/C20Skeleton.v', False, detail='%s: %s' % (type(e).__name__, e), kind='translation')
                translated = False
            info = common._standard_prove(res, PROPS_FILE)
            ok, out = common.make(['Model/C20Check.vo'])
            res.obligation('build:Model/C20Check.vo', ok, detail=out[-1500:], kind='correspondence')
            return translated and info['ok'] and ok
        finally:
            common._LOCK_HELD[0] = False


# ----------------------------------------------------------------------------------------- user callbacks
def make_user(kind, name):
    """kind in 'start' | 'end' | 'both' | 'obs'"""
    from pygam.callbacks import CallBack

    class StartCB(CallBack):
        def __init__(self):
            super(StartCB, self).__init__(name=name)

        def on_loop_start(self, gam, mu):
            return 'start'

    class EndCB(CallBack):
        def __init__(self):
            super(EndCB, self).__init__(name=name)

        def on_loop_end(self, diff, coef_new):
            return 'end'

    class BothCB(CallBack):
        def __init__(self):
            super(BothCB, self).__init__(name=name)

        def on_loop_start(self, gam, y, mu):
            return 'start'

        def on_loop_end(self, gam, diff):
            return 'end'

    class Obs(CallBack):
        def __init__(self):
            super(Obs, self).__init__(name=name)

        def on_loop_start(self, gam):
            return ('start', np.array(gam.coef_, dtype=float).copy())

        def on_loop_end(self, gam, diff, coef_new):
            return ('end', float(diff), np.array(coef_new, dtype=float).copy(), np.array(gam.coef_, dtype=float).copy())

    return {'start': StartCB, 'end': EndCB, 'both': BothCB, 'obs': Obs}[kind]()


USER_COQ = {
    'start': '(Some [VGam; VMu])', 'end': 'None',
}


def user_coq(kind, name):
    st = {'start': '(Some [VGam; VMu])', 'end': 'None', 'both': '(Some [VGam; VY; VMu])'}[kind]
    en = {'start': 'None', 'end': '(Some [VDiff; VCoefNew])', 'both': '(Some [VGam; VDiff])'}[kind]
    return '(CUser {| cb_name := "%s"; cb_start := %s; cb_end := %s |})' % (name, st, en)


# ----------------------------------------------------------------------------------------- data and models
def gen_config(rng, tier):
    cls = rng.choice(CLASSES)
    n = rng.randint(25, 60)
    nfeat = rng.choice([1, 2])
    seed = rng.randrange(2 ** 31)
    cfg = dict(cls=cls, n=n, nfeat=nfeat, data_seed=seed,
               max_iter=rng.randint(1, 30),
               tol=10 ** rng.uniform(-12, 0),
               n_splines=[rng.randint(4, 8) for _ in range(nfeat)],
               constraint=rng.choice([None, None, 'monotonic_inc', 'convex']),
               lam=10 ** rng.uniform(-2, 2),
               weights=rng.random() < 0.25,
               via_ctor=rng.random() < 0.6)
    if cls == 'GAM':
        cfg['dist'], cfg['link'] = rng.choice(GAM_COMBOS)
    if cls == 'ExpectileGAM':
        cfg['expectile'] = rng.choice([0.5, 0.1, 0.8, 0.95])
    binary = cls == 'LogisticGAM' or cfg.get('dist') == 'binomial'
    keys = ['deviance', 'diffs', 'coef'] + (['accuracy'] if binary else [])
    cbs = [('builtin', k) for k in keys if rng.random() < 0.5]
    rng.shuffle(cbs)
    r = rng.random()
    if r < 0.45:
        kind = rng.choice(['start', 'end', 'both'])
        cbs.insert(rng.randint(0, len(cbs)), ('user', kind, 'u_' + kind))
    if r > 0.9:
        cbs.append(('user', 'end', 'u2_end'))
    cfg['callbacks'] = cbs
    return cfg


def family_of(cfg):
    cls = cfg['cls']
    if cls == 'GAM':
        return cfg['dist'], cfg['link']
    return {'LinearGAM': ('normal', 'identity'), 'LogisticGAM': ('binomial', 'logit'), 'PoissonGAM': ('poisson', 'log'),
            'GammaGAM': ('gamma', 'log'), 'InvGaussGAM': ('inv_gauss', 'log'), 'ExpectileGAM': ('normal', 'identity')}[cls]


def make_data(cfg):
    r = np.random.RandomState(cfg['data_seed'])
    n, nf = cfg['n'], cfg['nfeat']
    X = r.uniform(-1, 1, (n, nf))
    f = np.sin(2 * X[:, 0]) + (0.5 * X[:, 1] if nf > 1 else 0.0)
    dist, link = family_of(cfg)
    if dist == 'normal' and link == 'identity':
        y = f + 0.3 * r.randn(n)
    elif dist == 'normal' and link == 'log':
        y = np.exp(0.5 * f) + 0.1 * r.randn(n)
    elif dist == 'binomial':
        y = (r.rand(n) < 1 / (1 + np.exp(-2 * f))).astype(float)
    elif dist == 'poisson':
        y = r.poisson(np.exp(f)).astype(float)
    elif dist == 'gamma':
        y = r.gamma(3.0, np.exp(f) / 3.0) + 1e-3
    else:
        y = r.wald(np.exp(f), 5.0) + 1e-3
    w = None
    if cfg['weights']:
        w = r.randint(1, 9, n) / 4.0     # exactly representable in float32, strictly positive
    return X, y, w


def build_callbacks(cfg, with_obs):
    out = []
    for c in cfg['callbacks']:
        if c[0] == 'builtin':
            out.append(c[1])
        else:
            out.append(make_user(c[1], c[2]))
    if with_obs:
        out.append(make_user('obs', 'zz_obs'))
    return out


def build_model(cfg, callbacks, via_ctor):
    import pygam
    from pygam import s
    terms = s(0, n_splines=cfg['n_splines'][0], constraints=cfg['constraint'], lam=cfg['lam'])
    for j in range(1, cfg['nfeat']):
        terms = terms + s(j, n_splines=cfg['n_splines'][j], lam=cfg['lam'])
    kw = dict(max_iter=cfg['max_iter'], tol=cfg['tol'])
    if cfg['cls'] == 'GAM':
        kw.update(distribution=cfg['dist'], link=cfg['link'])
    if cfg['cls'] == 'ExpectileGAM':
        kw.update(expectile=cfg['expectile'])
    cls = getattr(pygam, cfg['cls'])
    if via_ctor:
        return cls(terms, callbacks=callbacks, **kw)
    g = cls(terms, **kw)
    g.set_params(callbacks=callbacks)
    return g


def fit_once(cfg, with_obs, via_ctor):
    X, y, w = make_data(cfg)
    g = build_model(cfg, build_callbacks(cfg, with_obs), via_ctor)
    buf = io.StringIO()
    with contextlib.redirect_stdout(buf):
        g.fit(X, y, weights=w)
    return g, buf.getvalue(), X, y


def dcmp(d, tol):
    if d != d:
        return 'DNan'
    return 'DLt' if d < tol else ('DEq' if d == tol else 'DGt')


def deviance_of(g, X, v):
    mm = g._modelmat(X)
    lp = mm.dot(v).flatten()
    mu = g.link.mu(lp, g.distribution)
    return float(g.distribution.deviance(y=g._c20_y, mu=mu, scaled=False).sum())


def close(a, b):
    return a == b or abs(a - b) <= 1e-12 * max(1.0, abs(b))


def expected_names(cfg):
    return [c[1] if c[0] == 'builtin' else c[2] for c in cfg['callbacks']]


# ----------------------------------------------------------------------------------------- one evaluated case
def evaluate(res, cfg):
    """Runs the implementation twice (with and without the observer callback), returns (coq_case | None, meta).
    Direct probes of the property statement are evaluated here and appended to res.violations."""
    from pygam.utils import check_y
    inp = dict(cfg)

    def viol(what, expected, observed, finding=None):
        res.violations.append(dict(what=what, input=inp, expected=expected, observed=observed, finding=finding))

    def fit_failed(e, tag):
        res.count('%s:%s' % (tag, type(e).__name__))
        # numerical breakdown on valid data (LinAlgError, the QR-NaN guard, failed asserts) is outside the property;
        # a crash of the loop's own bookkeeping is not
        if isinstance(e, (NameError, AttributeError, TypeError, KeyError, IndexError)):
            viol('fit raised %s on a valid configuration' % type(e).__name__, 'a fitted model', '%s: %s' % (type(e).__name__, e))

    try:
        g1, out1, X, y = fit_once(cfg, True, False)       # observer run: callbacks set as attribute (always effective)
    except Exception as e:
        fit_failed(e, 'fit-error')
        return None, None
    obs = g1.logs_['zz_obs']
    starts = [e for e in obs if e[0] == 'start']
    ends = [e for e in obs if e[0] == 'end']
    N = len(starts)
    if len(ends) != N or [e[0] for e in obs] != ['start', 'end'] * N:
        viol('an iteration did not call on_loop_start and on_loop_end exactly once each, in this order',
             ['start', 'end'] * N, [e[0] for e in obs])
        return None, None
    vecs = [starts[0][1]] + [e[2] for e in ends]          # id 0 = entering vector, id k = coef_new of iteration k
    diffs = [e[1] for e in ends]
    stream = [dcmp(d, cfg['tol']) for d in diffs]
    # second run: exactly the requested configuration, public API only
    try:
        g, out, X, y = fit_once(cfg, False, cfg['via_ctor'])
    except Exception as e:
        fit_failed(e, 'fit-error-2')
        return None, None
    g._c20_y = check_y(y, g.link, g.distribution, verbose=False)
    logs = {k: list(v) for k, v in g.logs_.items()}
    lines = [ln for ln in out.split('\n') if ln != '']
    stats_ok = all(k in g.statistics_ for k in ('edof', 'scale', 'cov', 'se', 'AIC', 'deviance', 'n_samples'))
    final = np.array(g.coef_, dtype=float)
    final_ids = [k for k, v in enumerate(vecs) if v.shape == final.shape and np.array_equal(v, final)]
    names = expected_names(cfg)
    # a constructor that does not hand `callbacks` on leaves the base-class default ['deviance', 'diffs'] in place
    # (observed, not assumed: DESIGN S13 says LinearGAM does this)
    dropped = bool(cfg['via_ctor'] and sorted(logs) != sorted(set(names)) and sorted(logs) == ['deviance', 'diffs'])

    # ---- direct probes of the property statement (independent of the Coq model)
    if not (1 <= N <= cfg['max_iter']):
        viol('number of iterations outside [1, max_iter]', '1..%d' % cfg['max_iter'], N)
    first = next((k + 1 for k, d in enumerate(diffs) if d < cfg['tol']), None)
    want_N = min(cfg['max_iter'], first) if first is not None else cfg['max_iter']
    if N != want_N:
        viol('fit did not stop after the first iteration with diff < tol (or before max_iter)', want_N, dict(iterations=N, diffs=diffs[:8]))
    conv = N >= 1 and diffs[-1] < cfg['tol']
    if (lines == ['did not converge']) != (not conv) or (conv and lines):
        viol('non-convergence report', [] if conv else ['did not converge'], lines)
    if not stats_ok:
        viol('statistics_ not populated after fit', 'edof/scale/cov/se/AIC/deviance present', sorted(g.statistics_))
    if not final_ids or N not in final_ids:
        viol('final coef_ is not the coef_new of the last iteration', 'vector id %d' % N, final_ids)
    if dropped:
        viol('%s(callbacks=...) ignores the callbacks argument' % cfg['cls'], sorted(set(names)), sorted(logs),
             finding=F_S13 if cfg['cls'] == 'LinearGAM' else None)
    else:
        for c in cfg['callbacks']:
            nm = c[1] if c[0] == 'builtin' else c[2]
            two = c[0] == 'user' and c[1] == 'both'
            ln = len(logs.get(nm, []))
            if ln != N:
                viol('callback %r has %d log entries after %d iterations' % (nm, ln, N), N, ln,
                     finding=F_TWOHOOK if (two and ln == 2 * N) else None)
    eff_builtin = ['deviance', 'diffs'] if dropped else [c[1] for c in cfg['callbacks'] if c[0] == 'builtin']
    if 'deviance' in eff_builtin and len(logs.get('deviance', [])) == N:
        for j, dv in enumerate(logs['deviance']):
            want = deviance_of(g, X, vecs[j])
            if not close(float(dv), want):
                viol('logged deviance of iteration %d is not the deviance of the coefficients entering it' % (j + 1), want, float(dv))
                break
    if 'diffs' in eff_builtin and [float(x) for x in logs.get('diffs', [])] != [float(d) for d in diffs] \
            and not any(d != d for d in diffs):
        viol("'diffs' log differs from the diffs seen by a user callback", diffs[:8], [float(x) for x in logs.get('diffs', [])][:8])
    if 'coef' in eff_builtin and len(logs.get('coef', [])) == N:
        for j, cv in enumerate(logs['coef']):
            if not np.array_equal(np.array(cv, dtype=float), vecs[j]):
                viol("'coef' log entry %d is not the coefficient vector entering iteration %d" % (j, j + 1), 'vector id %d' % j, 'different vector')
                break

    # ---- observations for the Coq-side comparison
    def ids_of_vec(v):
        v = np.array(v, dtype=float)
        return [k for k, u in enumerate(vecs) if u.shape == v.shape and np.array_equal(u, v)]
    coef_ids = [ids_of_vec(v) for v in logs.get('coef', [])] if 'coef' in eff_builtin else []
    dev_ids = []
    if 'deviance' in eff_builtin:
        devs = [deviance_of(g, X, v) for v in vecs]
        dev_ids = [[k for k, d in enumerate(devs) if close(float(dv), d)] for dv in logs.get('deviance', [])]
    diff_ids = []
    if 'diffs' in eff_builtin:
        tab = {}
        for a in range(len(vecs)):
            for b in range(len(vecs)):
                if a != b:
                    nb = np.linalg.norm(vecs[b])
                    tab[(a, b)] = np.linalg.norm(vecs[a] - vecs[b]) / nb if nb != 0 else float('nan')
        diff_ids = [[p for p, d in tab.items() if d == float(x) or (d != d and float(x) != float(x))] for x in logs.get('diffs', [])]
    hooks = []
    for c in cfg['callbacks']:
        if c[0] == 'user' and not dropped:
            hooks.append('("%s", %s)' % (c[2], coq_list(['HStart' if e == 'start' else 'HEnd' for e in logs.get(c[2], [])])))

    def nl(xs):
        return coq_list([str(int(x)) for x in xs])
    obs_coq = ('{| o_lens := %s; o_hooks := %s; o_coef_ids := %s; o_dev_ids := %s; o_diff_ids := %s; o_final_ids := %s; '
               'o_printed := %s; o_stats := %s |}') % (
        coq_list(['("%s", %d)' % (k, len(v)) for k, v in sorted(logs.items())]),
        coq_list(hooks),
        coq_list([nl(s) for s in coef_ids]),
        coq_list([nl(s) for s in dev_ids]),
        coq_list([coq_list(['(%d, %d)' % p for p in s]) for s in diff_ids]),
        nl(final_ids),
        coq_list(['"%s"' % ln.replace('"', '""') for ln in lines]),
        coq_bool(stats_ok))
    req = coq_list(['(CBuiltin "%s")' % c[1] if c[0] == 'builtin' else user_coq(c[1], c[2]) for c in cfg['callbacks']])
    case = '(Case "%s" %s %s %d %s %s %s)' % (cfg['cls'], coq_bool(cfg['via_ctor']), req, cfg['max_iter'],
                                             coq_bool(bool(g.terms.hasconstraint)), coq_list(stream), obs_coq)
    meta = dict(cfg=inp, iterations=N, converged=bool(conv), diffs=diffs)
    res.count('class:' + cfg['cls'])
    res.count('iterations:%s' % ('1' if N == 1 else '2' if N == 2 else '3-5' if N <= 5 else '6-15' if N <= 15 else '16-30'))
    res.count('converged' if conv else 'hit-max_iter')
    res.count('callbacks:%d' % len(cfg['callbacks']))
    res.count('constraint:%s' % cfg['constraint'])
    return case, meta


def ctor_probe(res):
    """Class(callbacks=[...]) must log exactly the requested callbacks -- every class, independent of the model."""
    import pygam
    from pygam import s
    base = dict(cls='LinearGAM', n=30, nfeat=1, data_seed=7, max_iter=5, tol=1e-4, n_splines=[5], constraint=None, lam=1.0,
                weights=False, via_ctor=True, callbacks=[('builtin', 'coef')])
    for cls in CLASSES:
        cfg = dict(base, cls=cls)
        if cls == 'GAM':
            cfg['dist'], cfg['link'] = 'normal', 'identity'
        if cls == 'ExpectileGAM':
            cfg['expectile'] = 0.5
        X, y, w = make_data(cfg)
        kw = dict(distribution='normal', link='identity') if cls == 'GAM' else {}
        g = getattr(pygam, cls)(s(0, n_splines=5), callbacks=['coef'], max_iter=5, **kw)
        with contextlib.redirect_stdout(io.StringIO()):
            g.fit(X, y)
        got = sorted(g.logs_)
        res.case(('ctor-probe', cls), sample=dict(probe='Class(callbacks=[coef])', cls=cls, logs=got) if cls == 'LinearGAM' else None)
        if got != ['coef']:
            res.violations.append(dict(what='%s(callbacks=[\'coef\']) ignores the callbacks argument' % cls, input=cfg,
                                       expected=['coef'], observed=got, finding=F_S13 if cls == 'LinearGAM' else None))


def run(res):
    rng = common.rng_for(res.seed, PROP)
    res.rule = ('Each case is a seeded real fit of one of the 7 model classes (GAM with 5 distribution/link pairs) on 25-60 rows, '
                'max_iter uniform in 1..30, tol log-uniform in 1e-12..1 (plus cases with tol := an observed diff, which '
                'separates < from <=), a random subset of the valid built-in callbacks in random order, optionally user '
                'callbacks with on_loop_start / on_loop_end / both, callbacks passed through the constructor or set as an '
                'attribute. The fit is run twice: once with an extra observer callback that yields the diff stream and the '
                'coefficient vectors, once exactly as configured; the second run\'s logs_, stdout, statistics_ and coef_ are '
                'compared inside Coq (vm_compute) with the interpreter run on the generated skeleton under the observed '
                'stream. The property statement is also evaluated directly in Python. Distinct = distinct configuration; '
                'non-trivial = at least 2 iterations and at least one callback.')
    prove(res)
    ctor_probe(res)
    count = 260 if res.tier == 'quick' else 4000
    cases, metas = [], []
    for i in range(count):
        cfg = gen_config(rng, res.tier)
        case, meta = evaluate(res, cfg)
        if case is None:
            continue
        cases.append(case)
        metas.append(meta)
        # tol := an observed diff (exact float): `diff < tol` must not stop there
        ds = [d for d in meta['diffs'] if d == d and 0 < d <= 1.0]
        if ds and rng.random() < 0.5:
            cfg2 = dict(cfg, tol=rng.choice(ds))
            cfg2['max_iter'] = max(cfg['max_iter'], rng.randint(1, 30))
            case2, meta2 = evaluate(res, cfg2)
            if case2 is not None:
                cases.append(case2)
                metas.append(meta2)
                res.count('tol-equals-an-observed-diff')
    with common.CaseDir(PROP) as cd:
        failing, errors = common.run_bool_cases(cd, HEADER, cases, 'check_case', shard=60)
    for name, out in errors:
        res.obligation('correspondence-file:' + name, False, detail=out, kind='correspondence')
    res.obligation('correspondence:C20 interpreter on the generated skeleton = observed fit (iterations, logs, stdout, statistics, final coef)',
                   not failing and not errors, detail='failing case indices %s' % failing[:20], kind='correspondence')
    for i, m in enumerate(metas):
        key = repr(sorted((k, repr(v)) for k, v in m['cfg'].items()))
        res.case(key, sample=dict(cfg=m['cfg'], iterations=m['iterations'], converged=m['converged']) if i in (0, 3, 7) else None,
                 nontrivial=m['iterations'] >= 2 and len(m['cfg']['callbacks']) >= 1)
    for i in failing:
        m = metas[i]
        res.violations.append(dict(what='observed fit differs from the loop model run on the generated skeleton',
                                   finding=None, input=m['cfg'], observed=dict(iterations=m['iterations'], converged=m['converged'],
                                                                               diffs=m['diffs'][:10]),
                                   expected='see coq/Model/Loop.v, coq/Model/C20Check.v'))
    res.extra['correspondence_cases'] = len(cases)
    res.extra['tolerances'] = {'iterations, log lengths, hooks, stdout': 'exact', 'coefficient vectors': 'bitwise equality',
                               'deviance': '1e-12 relative (same float operations)', 'diffs': 'bitwise equality'}
    res.trusted.append('translator /verif/translator/skel_c20.py (pattern-matches _pirls, _on_loop_*, callbacks.py, constructors; fail-closed)')
    res.trusted.append('exceptions of the numerical kernels (LinAlgError, QR-NaN guard, failed asserts) abort the fit and are outside the theorems (hypothesis numfail = false)')


def replay(res, rp):
    run(res)
