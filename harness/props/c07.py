"""C07 -- link functions are monotone bijections with the stated inverse and derivative; out-of-domain targets rejected."""
import math
import warnings

import numpy as np

import common
from common import rlit, rlit_frac
from fractions import Fraction

PROP = 'C07'
HEADER = """From Coq Require Import Reals.
From Interval Require Import Tactic.
From PG Require Import Base.Ops Gen.Links.
Open Scope R_scope."""

LINKS = ['IdentityLink', 'LogLink', 'LogitLink', 'InverseLink', 'InvSquaredLink']
REL = Fraction(1, 10 ** 12)


class D:
    """bare holder of `levels` (the only attribute the links read today)"""
    def __init__(self, levels):
        self.levels = levels


def real_dist(levels):
    """a real distribution object with the given number of levels (what the fitting code passes to a link)"""
    from pygam.distributions import BinomialDist
    return BinomialDist(levels=levels)


def draw_mag(rng, lo, hi):
    return 10 ** rng.uniform(lo, hi)


def gen_inputs(rng, cname, L, n):
    """(means in the open domain, linear predictors in range) over many orders of magnitude"""
    mus, lps = [], []
    for _ in range(n):
        if cname == 'IdentityLink':
            mus.append(rng.choice([-1, 1]) * draw_mag(rng, -200, 200)); lps.append(rng.choice([-1, 1]) * draw_mag(rng, -200, 200))
        elif cname == 'LogLink':
            mus.append(draw_mag(rng, -300, 300)); lps.append(rng.choice([-1, 1]) * draw_mag(rng, -6, 2.84))
        elif cname == 'LogitLink':
            r = rng.random()
            if r < 0.3:
                mus.append(L * draw_mag(rng, -300, -0.01))
            elif r < 0.6:
                mus.append(L * (1 - draw_mag(rng, -15, -0.01)))
            else:
                mus.append(L * rng.uniform(0.01, 0.99))
            lps.append(rng.choice([-1, 1]) * draw_mag(rng, -6, 2.84))
        elif cname == 'InverseLink':
            mus.append(rng.choice([-1, 1]) * draw_mag(rng, -150, 150)); lps.append(rng.choice([-1, 1]) * draw_mag(rng, -150, 150))
        else:
            mus.append(draw_mag(rng, -100, 100)); lps.append(draw_mag(rng, -200, 200))
    return mus, lps


def goal(fn, L, x, val, extra_abs=0.0):
    tol = REL * (abs(common.frac_of_float(val)) + common.frac_of_float(extra_abs))
    if tol == 0:
        tol = Fraction(1, 10 ** 300)
    return 'Rabs (%s %s %s - %s) <= %s' % (fn, rlit(L), rlit(x), rlit(val), rlit_frac(tol))


def run(res):
    from pygam import links as PL
    from pygam.utils import check_y
    from pygam.distributions import BinomialDist, NormalDist
    rng = common.rng_for(res.seed, PROP)
    n = 14 if res.tier == 'quick' else 120
    res.rule = ('for every link class and method (link, mu, gradient): seeded means in the open domain over up to 600 orders of '
                'magnitude and linear predictors with |lp| <= 690 (binary64 exp overflows beyond: outside the real-number model, '
                'probed separately for NaN); the binary64 result of the implementation is written exactly into a Coq goal '
                '|Gen_f(levels, x) - result| <= 1e-12 (|result| + cancellation scale) proved by `interval` and kernel-checked; '
                'domain rejection through check_y / fit with targets just inside / outside the closed domain. Distinct by (link, method, input).')
    common.standard_prove(res, 'Props/C07.v', gen_targets=['links', 'fitprefix'])
    goals, meta = [], []
    warnings.simplefilter('ignore')
    with np.errstate(all='ignore'):
        for cname in LINKS:
            lk = getattr(PL, cname)()
            for L in ([1.0] if cname != 'LogitLink' else [1.0, 2.0, 7.0, 1000.0, None]):
                if L is None:
                    # a distribution object WITHOUT levels (any non-binomial family): the source reads getattr(dist, 'levels', 1)
                    from pygam.distributions import NormalDist as _ND
                    d, L = _ND(), 1.0
                    res.count('logit link on a distribution without levels')
                else:
                    d = real_dist(L)
                mus, lps = gen_inputs(rng, cname, L, n)
                for m in mus:
                    try:
                        v = float(lk.link(np.array([m]), d)[0])
                        g = float(lk.gradient(np.array([m]), d)[0])
                    except Exception as e:  # noqa
                        res.violations.append(dict(what='link method raises for a mean inside the open domain', finding=None,
                                                   input=dict(link=cname, levels=L, distribution=type(d).__name__, mu=m),
                                                   observed='%s: %s' % (type(e).__name__, e), expected='link / gradient values'))
                        continue
                    canc = (abs(math.log(m)) + abs(math.log(L - m))) if cname == 'LogitLink' else 0.0
                    for fn, val, extra in (('link', v, canc), ('gradient', g, 0.0)):
                        if not math.isfinite(val):
                            res.violations.append(dict(what='%s.%s returned a non-finite value inside the open domain' % (cname, fn),
                                                       finding=None, input=dict(link=cname, levels=L, mu=m), observed=val, expected='finite'))
                            continue
                        goals.append(goal('Gen_%s_%s' % (cname, fn), L, m, val, extra)); meta.append(dict(link=cname, method=fn, levels=L, x=m, result=val))
                for e in lps:
                    v = float(lk.mu(np.array([e]), d)[0])
                    if not math.isfinite(v):
                        res.violations.append(dict(what='%s.mu returned a non-finite value for a finite linear predictor in range' % cname,
                                                   finding=None, input=dict(link=cname, levels=L, lp=e), observed=v, expected='finite'))
                        continue
                    goals.append(goal('Gen_%s_mu' % cname, L, e, v)); meta.append(dict(link=cname, method='mu', levels=L, x=e, result=v))
                # beyond the exp overflow threshold: the mean must still be a number in the closed domain (not NaN)
                if cname in ('LogitLink', 'LogLink'):
                    for e in (709.9, 750.0, 5000.0, -709.9, -750.0, -5000.0):
                        v = float(lk.mu(np.array([e]), d)[0])
                        res.case(('overflow', cname, L, e))
                        if math.isnan(v):
                            res.violations.append(dict(what='%s.mu returns NaN for a finite linear predictor (exp overflow gives inf/inf)' % cname,
                                                       finding='S16-logit-mu-overflow' if cname == 'LogitLink' and e > 709 else None,
                                                       input=dict(link=cname, levels=L, lp=e), observed='nan', expected='a mean in [0, levels]'))
    with common.CaseDir(PROP) as cd:
        failing, errors = common.run_interval_goals(cd, HEADER, goals)
    for name, out in errors:
        res.obligation('correspondence-file:' + name, False, detail=out, kind='correspondence')
    res.obligation('correspondence:generated link formulas = implementation (interval-certified)', not failing and not errors,
                   detail='failing goals %s' % [meta[i] for i in failing[:5]], kind='correspondence')
    for i, m in enumerate(meta):
        res.case((m['link'], m['method'], m['levels'], m['x']), sample=m if i % 97 == 0 else None)
        res.count('%s.%s' % (m['link'], m['method']))
    for i in failing:
        res.violations.append(dict(what='implementation value differs from the formula generated from the source by more than 1e-12 relative',
                                   finding=None, input=meta[i], observed=meta[i]['result'], expected='Gen_%s_%s' % (meta[i]['link'], meta[i]['method'])))
    # ---- direct probes on the implementation: round trips, derivative by central difference, monotonicity
    with np.errstate(all='ignore'):
        for cname in LINKS:
            lk = getattr(PL, cname)()
            # every link is probed with real distribution objects of every family (a link must not depend on which family it is
            # paired with, beyond `levels`), and with the bare levels holder
            from pygam.distributions import PoissonDist, GammaDist, InvGaussDist
            pairs = [(1.0, D(1.0)), (1.0, NormalDist()), (1.0, PoissonDist()), (1.0, GammaDist()), (1.0, InvGaussDist()), (1.0, BinomialDist(levels=1))]
            if cname == 'LogitLink':
                pairs += [(5.0, D(5.0)), (5.0, BinomialDist(levels=5))]
            for L, d in pairs:
                res.count('direct probe with %s' % type(d).__name__)
                mus, lps = gen_inputs(rng, cname, L, 40)
                mus = np.array(sorted(m for m in mus if 1e-30 < abs(m) < 1e30 and (cname != 'LogitLink' or (1e-4 * L < m < L * (1 - 1e-4)))))
                if len(mus) == 0:
                    continue
                try:
                    back = lk.mu(lk.link(mus, d), d)
                    h = (np.minimum(np.abs(mus), L - mus) if cname == 'LogitLink' else np.abs(mus)) * 1e-6
                    num = (lk.link(mus + h, d) - lk.link(mus - h, d)) / (2 * h)
                    grad_impl = lk.gradient(mus, d)
                except Exception as e:  # noqa
                    if isinstance(d, D):
                        continue  # the bare holder only carries `levels`; a link may legitimately ask a distribution for more
                    res.violations.append(dict(what='link method raises for a mean inside the open domain', finding=None,
                                               input=dict(link=cname, levels=L, distribution=type(d).__name__, mu=float(mus[0])),
                                               observed='%s: %s' % (type(e).__name__, e), expected='link / mu / gradient values'))
                    continue
                bad = ~np.isclose(back, mus, rtol=1e-6, atol=0)
                gbad = ~np.isclose(num, grad_impl, rtol=1e-3, atol=0)
                pos = mus[mus > 0]
                lv = lk.link(pos, d)
                dif = np.diff(lv)
                inc = cname in ('IdentityLink', 'LogLink', 'LogitLink')
                mbad = (dif < 0).any() if inc else (dif > 0).any()
                res.case(('probe', cname, L, type(d).__name__))
                if bad.any() or gbad.any() or mbad:
                    i = int(np.argmax(bad | gbad)) if (bad.any() or gbad.any()) else 0
                    res.violations.append(dict(what='link round trip / gradient / monotonicity fails on the implementation', finding=None,
                                               input=dict(link=cname, levels=L, distribution=type(d).__name__, mu=float(mus[i])),
                                               observed=dict(roundtrip=float(back[i]), gradient=float(grad_impl[i]), numeric=float(num[i]), monotone=not mbad),
                                               expected='mu(link(m)) = m, gradient = d link / d mu, strictly monotone'))
    # ---- domain rejection through check_y and through fit (before any fitting happens)
    from pygam import LinearGAM, PoissonGAM, LogisticGAM, GammaGAM, InvGaussGAM, GAM
    table = [('log', 'poisson', PL.LogLink(), 0.0, None), ('logit', 'binomial', PL.LogitLink(), 0.0, 1.0),
             ('identity', 'normal', PL.IdentityLink(), None, None), ('inverse', 'gamma', PL.InverseLink(), None, None),
             ('inv_squared', 'inv_gauss', PL.InvSquaredLink(), None, None)]
    X = np.linspace(0, 1, 12)[:, None]
    for lname, dname, lk, lo, hi in table:
        dist = BinomialDist(levels=1) if dname == 'binomial' else NormalDist()
        base = np.full(12, 0.5)
        probes = []
        if lo is not None:
            probes += [(lo, False), (np.nextafter(lo, -1), True), (lo - 1e-3, True), (-5.0, True)]
        else:
            probes += [(-5.0, False), (0.0, False)]
        if hi is not None:
            probes += [(hi, False), (np.nextafter(hi, 2), True), (hi + 1e-3, True)]
        else:
            probes += [(1e9, False)]
        for val, should_reject in probes:
            for pos in (0, 5, 11):
                y = base.copy(); y[pos] = val
                try:
                    check_y(y, lk, dist, verbose=False); rejected = False
                except ValueError:
                    rejected = True
                res.case(('check_y', lname, float(val), pos))
                if rejected != should_reject:
                    res.violations.append(dict(what='check_y domain decision differs from the proved NaN characterisation', finding=None,
                                               input=dict(link=lname, y_value=float(val), position=pos), observed='rejected' if rejected else 'accepted',
                                               expected='rejected' if should_reject else 'accepted'))
            if should_reject:
                y = base.copy(); y[3] = val
                gam = GAM(distribution=dname, link=lname, n_splines=5)
                try:
                    gam.fit(X, y); outcome = 'fitted'
                except ValueError:
                    outcome = 'ValueError'
                except Exception as e:  # noqa
                    outcome = type(e).__name__
                touched = hasattr(gam, 'coef_') or hasattr(gam, 'statistics_') or hasattr(gam, 'logs_') or not isinstance(gam.terms, str)
                res.case(('fit-reject', lname, float(val)))
                if outcome != 'ValueError' or touched:
                    res.violations.append(dict(what='fit did not reject an out-of-domain target with ValueError before any state change', finding=None,
                                               input=dict(link=lname, distribution=dname, y_value=float(val)),
                                               observed=dict(outcome=outcome, state_touched=touched), expected='ValueError, model untouched'))
    # the domain decision must not depend on how the targets are stored: integer / unsigned / float32 arrays, lists
    from pygam import LogisticGAM as _LG, PoissonGAM as _PG
    for lname, lk, dist, good, bad_vals in (('logit', PL.LogitLink(), BinomialDist(levels=1), [0, 1], [2, 3, 200]),
                                             ('logit(levels=3)', PL.LogitLink(), BinomialDist(levels=3), [0, 1, 2, 3], [4, 9, 255]),
                                             ('log', PL.LogLink(), NormalDist(), [0, 1, 7], [])):
        for dt in ('uint8', 'uint16', 'uint32', 'uint64', 'int8', 'int32', 'int64', 'float32', 'float64', 'list'):
            def store(vals):
                return [int(v) for v in vals] if dt == 'list' else np.array(vals, dtype=dt)
            base = [good[i % len(good)] for i in range(12)]
            for val in [None] + bad_vals:
                vals = list(base)
                if val is not None:
                    vals[rng.randrange(12)] = val
                try:
                    check_y(store(vals), lk, dist, verbose=False); rejected = False
                except ValueError:
                    rejected = True
                res.case(('check_y-dtype', lname, dt, val))
                if rejected != (val is not None):
                    res.violations.append(dict(what='check_y domain decision depends on the dtype / container of the targets', finding=None,
                                               input=dict(link=lname, y=vals, stored_as=dt), observed='rejected' if rejected else 'accepted',
                                               expected='rejected' if val is not None else 'accepted'))
    for dt in ('uint8', 'uint64', 'int64'):
        y = np.array([0, 1] * 6, dtype=dt); y[3] = 2
        gam = _LG()
        try:
            gam.fit(X, y); outcome = 'fitted'
        except ValueError:
            outcome = 'ValueError'
        except Exception as e:  # noqa
            outcome = type(e).__name__
        res.case(('fit-reject-dtype', dt))
        if outcome != 'ValueError':
            res.violations.append(dict(what='LogisticGAM.fit did not reject an out-of-domain target with ValueError before fitting', finding=None,
                                       input=dict(y=y.tolist(), stored_as=dt), observed=outcome, expected='ValueError'))
    res.extra['interval_goals'] = len(goals)
    res.extra['tolerances'] = {'formulas': '1e-12 relative (+ 1e-12 * (|ln mu| + |ln(levels-mu)|) for the logit link: cancellation)'}


def replay(res, rp):
    run(res)
