"""C19 -- PoissonGAM exposure is equivalent to rate modelling with exposure weights."""
import contextlib
import io
import math
import warnings

import numpy as np

import common
from common import rlit
import gen_models
import gen_terms

PROP = 'C19'
HEADER = """From Coq Require Import Reals ZArith List.
From Interval Require Import Tactic.
From PG Require Import Base.Ops Gen.Dists Gen.Poisson Proofs.C19.
Import ListNotations.
Open Scope R_scope.
Ltac norm := cbv [pois_ll_spec Spec_poisson_logpmf_kernel fst snd Gen_pois_fit_data Gen_pois_gridsearch_data Gen_pois_candidate_weights_land_in_exposure Gen_pois_e2w Gen_pois_rate Gen_pois_weight Gen_pois_predict Gen_pois_default_weight Gen_pois_default_exposure]; repeat (rewrite xlny_0 || (rewrite xlny_nz by (apply not_0_IZR; discriminate)))."""
RTOL = 1e-6
STATS = ['edof', 'AIC', 'AICc', 'UBRE', 'loglikelihood', 'deviance', 'scale']


def quiet(fn, *a, **k):
    out = io.StringIO()
    with warnings.catch_warnings(), contextlib.redirect_stdout(out), np.errstate(all='ignore'):
        warnings.simplefilter('ignore')
        return fn(*a, **k)


def f32(x):
    return np.asarray(x, dtype=np.float32).astype(np.float64)


def gen_exposure(rng, nprng, n, kind):
    if kind == 'none':
        return None
    if kind == 'ones':
        return np.ones(n)
    if kind == 'int':
        return np.array([rng.randint(1, 6) for _ in range(n)], dtype=float)
    if kind == 'frac':
        return np.array([rng.randint(1, 40) / 8.0 for _ in range(n)], dtype=float)
    return f32(10 ** nprng.uniform(-1, 1, size=n))       # arbitrary float32-representable


def rel(a, b):
    a, b = np.asarray(a, dtype=float), np.asarray(b, dtype=float)
    return float(np.max(np.abs(a - b)) / (np.max(np.abs(b)) + 1e-300)) if a.shape == b.shape and a.size else float('inf')


def scalar_stats(g):
    out = {}
    for k in STATS:
        v = g.statistics_.get(k)
        if v is not None and np.ndim(v) == 0:
            out[k] = float(v)
    out['explained_deviance'] = float(g.statistics_['pseudo_r2']['explained_deviance'])
    return out


def close(a, b, rtol=RTOL):
    if not (np.isfinite(a) and np.isfinite(b)):
        return (a == b) or (np.isnan(a) and np.isnan(b))
    return abs(a - b) <= rtol * max(1.0, abs(a), abs(b))


def scenario(rng, quick, i):
    scn = gen_models.gen_scenario(rng, cls='PoissonGAM', regime='n>m', constraints=False, max_n=50 if quick else 150, max_m=12 if quick else 30,
                                  weights=['none', 'float', 'int', 'none'][i % 4])
    scn['kw'].update(tol=1e-9, max_iter=300)
    nprng = np.random.RandomState(rng.randrange(1 << 30))
    kind = ['int', 'frac', 'f32', 'ones', 'none', 'frac'][i % 6]
    scn['ekind'] = kind
    scn['e'] = gen_exposure(rng, nprng, scn['n'], kind)
    return scn


def run(res):
    import pygam
    import scipy.stats
    rng = common.rng_for(res.seed, PROP)
    quick = res.tier == 'quick'
    res.rule = ('seeded PoissonGAM scenarios (term mixes, n>m, counts from a Poisson model) x exposure kind {integer 1..6, multiples of 1/8, arbitrary float32, ones, omitted} x sample '
                'weights {none, float32, integer}: (a) PoissonGAM.fit(X, y, exposure, weights) against GAM(distribution=poisson, link=log).fit(X, y/e, weights=w*e) -- fitted rates, edof, '
                'deviance statistics -- and against PoissonGAM.fit(X, y/e, weights=w*e) -- every scalar statistic; omitted exposure against exposure of ones; (b) predict(X, exposure) '
                'against exposure * predict_mu(X); (c) loglikelihood(X, y, exposure) against sum scipy.stats.poisson.logpmf(y; rate*exposure) computed independently, and the statistic '
                'recorded by fit; with weights against the documented count round(y w) / mean mu w e; (d) gridsearch(X, y, exposure, weights, lam=grid): every candidate against a '
                'direct fit with that lam (fitted rates 1e-5), the kept model is the arg-min, and the result differs from a search that ignores exposure; (e) kernel-checked `interval` '
                'goals: _exposure_to_weights outputs, predict and loglikelihood against the generated definitions on the exact binary64 inputs. Distinct by scenario; '
                'non-trivial when the exposure is not constant one (then ignoring it changes the fit).')
    common.standard_prove(res, 'Props/C19.v', gen_targets=['dists', 'stats', 'poisson'])
    warnings.simplefilter('ignore')
    goals, gmeta = [], []
    nfit = 40 if quick else 500
    for i in range(nfit):
        scn = scenario(rng, quick, i)
        X, y, w, e = scn['X'], scn['y'], scn['w'], scn['e']
        n = len(y)
        d = dict(gen_models.describe(scn), exposure_kind=scn['ekind'])
        inp = dict(d, X=X.tolist(), y=y.tolist(), weights=None if w is None else w.tolist(), exposure=None if e is None else e.tolist())

        def viol(what, expected, observed, finding=None):
            res.violations.append(dict(what=what, input=inp, expected=expected, observed=observed, finding=finding))
        e32 = np.ones(n) if e is None else f32(e)
        w32 = np.ones(n) if w is None else f32(w)
        kw = {}
        if e is not None:
            kw['exposure'] = e.copy()
        if w is not None:
            kw['weights'] = w.copy()
        try:
            g = gen_models.build_gam(scn)
            quiet(g.fit, X.copy(), y.copy(), **kw)
            ref = pygam.GAM(gen_terms.build_termlist(scn['specs']), distribution='poisson', link='log', **scn['kw'])
            quiet(ref.fit, X.copy(), y / e32, weights=(w32 * e32))
            ref2 = gen_models.build_gam(scn)
            quiet(ref2.fit, X.copy(), y / e32, weights=(w32 * e32))
        except Exception as ex:    # ValueError is a permitted outcome; other exception types belong to other properties
            res.count('fit raised %s' % type(ex).__name__)
            continue
        if not all(np.isfinite(m.coef_).all() for m in (g, ref, ref2)):
            res.count('non-finite coefficients, skipped')
            continue
        res.count('exposure:' + scn['ekind'])
        res.count('weights:' + d['weights'])
        nontriv = bool(np.any(e32 != 1.0))
        mu, mu_ref, mu_ref2 = quiet(g.predict_mu, X), quiet(ref.predict_mu, X), quiet(ref2.predict_mu, X)
        res.case(('fit', i), sample=dict(d, max_rel_diff_fitted=rel(mu, mu_ref)) if i < 2 else None, nontrivial=nontriv)
        # (a) fit equivalence
        if not (rel(mu, mu_ref) <= RTOL and rel(mu, mu_ref2) <= RTOL):
            viol('PoissonGAM fit with exposure differs from the weighted rate fit', 'fitted rates equal to 1e-6',
                 dict(vs_GAM=rel(mu, mu_ref), vs_PoissonGAM_rates=rel(mu, mu_ref2)))
        sg, s1, s2 = scalar_stats(g), scalar_stats(ref), scalar_stats(ref2)
        for k in ('edof', 'deviance', 'UBRE', 'explained_deviance', 'scale'):
            if k in sg and k in s1 and not close(sg[k], s1[k]):
                viol('statistic %s of the exposure fit differs from the weighted rate fit (GAM)' % k, s1[k], sg[k])
        for k in sg:
            if k in s2 and not close(sg[k], s2[k]):
                viol('statistic %s of the exposure fit differs from the weighted rate fit (PoissonGAM on rates)' % k, s2[k], sg[k])
        if nontriv:
            try:
                g0 = gen_models.build_gam(scn)
                quiet(g0.fit, X.copy(), y.copy(), **({} if w is None else dict(weights=w.copy())))
                res.count('ignoring exposure changes the fit' if rel(quiet(g0.predict_mu, X), mu) > 1e-4 else 'ignoring exposure immaterial')
            except Exception:
                pass
        # default exposure
        if e is None or scn['ekind'] == 'ones':
            try:
                ga = gen_models.build_gam(scn)
                quiet(ga.fit, X.copy(), y.copy(), **({} if w is None else dict(weights=w.copy())))
                gb = gen_models.build_gam(scn)
                quiet(gb.fit, X.copy(), y.copy(), exposure=np.ones(n), **({} if w is None else dict(weights=w.copy())))
                res.case(('default', i), nontrivial=True)
                if not (rel(quiet(ga.predict_mu, X), quiet(gb.predict_mu, X)) <= 1e-12 and all(close(a, b, 1e-12) for a, b in zip(scalar_stats(ga).values(), scalar_stats(gb).values()))):
                    viol('omitting exposure differs from exposure of ones', 'identical fits', dict(fitted=rel(quiet(ga.predict_mu, X), quiet(gb.predict_mu, X))))
            except Exception as ex:
                res.count('default-exposure fit raised %s' % type(ex).__name__)
        # (b) predict
        Xn = X[rng.sample(range(n), min(n, 8))]
        en = gen_exposure(rng, np.random.RandomState(i), len(Xn), ['int', 'frac', 'f32'][i % 3])
        p = quiet(g.predict, Xn, exposure=en)
        r = quiet(g.predict_mu, Xn)
        res.case(('predict', i), nontrivial=True)
        if not (rel(p, f32(en) * r) <= 1e-12 and rel(quiet(g.predict, Xn), r) <= 1e-12):
            viol('predict(X, exposure) is not exposure * predicted rate (or predict(X) is not the rate)', (f32(en) * r).tolist(), np.asarray(p).tolist())
        # (c) loglikelihood
        ll = float(quiet(g.loglikelihood, X, y, **({} if e is None else dict(exposure=e.copy()))))
        want = float(scipy.stats.poisson.logpmf(np.round(y).astype(int), mu * e32).sum())
        res.case(('loglik', i), nontrivial=nontriv)
        if not close(ll, want, 1e-9):
            viol('loglikelihood(X, y, exposure) is not the Poisson log-probability of the counts at mean rate * exposure', want, ll)
        if w is None and not close(sg['loglikelihood'], want, 1e-9):
            viol("statistics_['loglikelihood'] of a fit with exposure is not the Poisson log-probability of the counts", want, sg['loglikelihood'])
        if w is not None:
            llw = float(quiet(g.loglikelihood, X, y, weights=w.copy(), **({} if e is None else dict(exposure=e.copy()))))
            we = f32(w32 * e32)        # the code multiplies the two float32 arrays in float32
            wantw = float(scipy.stats.poisson.logpmf(np.round(y / e32 * we).astype(int), mu * we).sum())
            if not close(llw, wantw, 1e-9):
                viol('weighted loglikelihood differs from the documented count round(y w) at mean rate * w * exposure', wantw, llw)
        # (e) interval goals on a few rows of a few scenarios
        if i < (10 if quick else 60):
            try:
                yr, wr = g._exposure_to_weights(y.copy(), None if e is None else e.copy(), None if w is None else w.copy())
            except Exception as ex:
                viol('_exposure_to_weights raised', 'a pair', repr(ex))
                continue
            eo = lambda j: 'None' if e is None else '(Some %s)' % rlit(e32[j])
            wo = lambda j: 'None' if w is None else '(Some %s)' % rlit(w32[j])
            for j in range(min(n, 4)):
                goals.append('Rabs (fst (Gen_pois_fit_data %s %s %s) - %s) <= %s' % (rlit(y[j]), eo(j), wo(j), rlit(yr[j]), rlit(1e-15 * max(1.0, abs(yr[j])))))
                gmeta.append(('rate', i, j))
                goals.append('Rabs (snd (Gen_pois_fit_data %s %s %s) - %s) <= %s' % (rlit(y[j]), eo(j), wo(j), rlit(wr[j]), rlit(2e-7 * max(1.0, abs(wr[j])))))
                gmeta.append(('weight', i, j))
                goals.append('Rabs (snd (Gen_pois_gridsearch_data %s %s %s) - %s) <= %s' % (rlit(y[j]), eo(j), wo(j), rlit(wr[j]), rlit(2e-7 * max(1.0, abs(wr[j])))))
                gmeta.append(('gridsearch weight', i, j))
            for j in range(min(len(Xn), 3)):
                goals.append('Rabs (Gen_pois_predict %s (Some %s) - %s) <= %s' % (rlit(r[j]), rlit(f32(en)[j]), rlit(p[j]), rlit(1e-15 * max(1.0, abs(p[j])))))
                gmeta.append(('predict', i, j))
            nn = min(n, 25)
            yi = np.round(y[:nn]).astype(int)
            sub = float(scipy.stats.poisson.logpmf(yi, mu[:nn] * e32[:nn]).sum())
            llsub = float(g.distribution.log_pdf(y=yi, mu=mu[:nn], weights=e32[:nn]).sum())      # the code's own density on the first rows
            rows = '[' + '; '.join('(%s, %d%%Z, %s)' % (rlit(mu[j]), int(yi[j]), rlit(e32[j])) for j in range(nn)) + ']'
            lnfact = ' - '.join('ln %d' % math.factorial(int(k)) for k in yi)
            goals.append('Rabs (pois_ll_spec Spec_poisson_logpmf_kernel %s - %s - %s) <= %s' % (rows, lnfact, rlit(llsub), rlit(1e-9 * max(1.0, abs(llsub)))))
            gmeta.append(('loglik', i, nn, sub))
    # (d) gridsearch
    ngs = 10 if quick else 80
    for i in range(ngs):
        scn = scenario(rng, quick, i)
        if scn['e'] is None:
            scn['e'] = gen_exposure(rng, np.random.RandomState(i), scn['n'], 'frac')
            scn['ekind'] = 'frac'
        X, y, w, e = scn['X'], scn['y'], scn['w'], scn['e']
        grid = [0.1, 1.0, 10.0, 100.0][:3 if quick else 4]
        d = dict(gen_models.describe(scn), exposure_kind=scn['ekind'], lam_grid=grid)
        inp = dict(d, X=X.tolist(), y=y.tolist(), weights=None if w is None else w.tolist(), exposure=e.tolist())
        kw = dict(exposure=e.copy())
        if w is not None:
            kw['weights'] = w.copy()
        try:
            g = gen_models.build_gam(scn)
            scores = quiet(g.gridsearch, X.copy(), y.copy(), return_scores=True, progress=False, lam=grid, **kw)
            g2 = gen_models.build_gam(scn)
            quiet(g2.gridsearch, X.copy(), y.copy(), progress=False, lam=grid, **{k: v for k, v in kw.items() if k != 'exposure'})
        except Exception as ex:
            res.count('gridsearch raised %s' % type(ex).__name__)
            continue
        direct = []
        for lam in grid:
            try:
                gd = gen_models.build_gam(scn)
                gd.set_params(lam=lam)
                quiet(gd.fit, X.copy(), y.copy(), **kw)
                direct.append((lam, gd))
            except Exception:
                direct.append((lam, None))
        if not isinstance(scores, dict):       # "No models were fitted": every candidate raised ValueError, gridsearch returns self
            res.count('gridsearch: no candidate could be fitted')
            continue
        cands = list(scores.items())
        res.case(('gridsearch', i), sample=dict(d, scores=[float(s) for _, s in cands]) if i < 1 else None, nontrivial=bool(np.any(f32(e) != 1.0)))
        res.count('gridsearch exposure:' + scn['ekind'])
        ok_direct = [(lam, gd) for lam, gd in direct if gd is not None]
        if len(cands) != len(ok_direct):
            res.count('gridsearch candidate count differs from direct fits')
            continue
        bad = False
        for (cm, sc), (lam, gd) in zip(cands, ok_direct):
            dv = rel(quiet(cm.predict_mu, X), quiet(gd.predict_mu, X))
            if not (dv <= 1e-5 and close(float(sc), float(gd.statistics_['UBRE']), 1e-5)):
                bad = True
                res.violations.append(dict(what='gridsearch with exposure: a candidate is not the model a direct fit with the same exposure, weights and lam gives', finding=None,
                                           input=dict(inp, lam=lam), expected=dict(UBRE=float(gd.statistics_['UBRE'])), observed=dict(score=float(sc), fitted_rel_diff=dv)))
                break
        if not bad:
            best = min(ok_direct, key=lambda t: float(t[1].statistics_['UBRE']))[1]
            if rel(quiet(g.predict_mu, X), quiet(best.predict_mu, X)) > 1e-5:
                res.violations.append(dict(what='gridsearch with exposure did not keep the candidate with the smallest objective', finding=None, input=inp,
                                           expected='fitted rates of the best direct fit', observed=rel(quiet(g.predict_mu, X), quiet(best.predict_mu, X))))
            res.count('gridsearch: exposure matters' if rel(quiet(g.predict_mu, X), quiet(g2.predict_mu, X)) > 1e-4 else 'gridsearch: exposure immaterial')
    with common.CaseDir(PROP) as cd:
        failing, errors = common.run_interval_goals(cd, HEADER, goals, shard=max(8, len(goals) // 16 + 1), tactic='norm; interval with (i_prec 90)')
    for name, out in errors:
        res.obligation('correspondence-file:' + name, False, detail=out, kind='correspondence')
    res.obligation('correspondence:generated exposure plumbing reproduces _exposure_to_weights / predict / log-likelihood of the implementation (interval-certified)',
                   not failing and not errors, detail='failing goals %s' % [gmeta[k] for k in failing[:8]], kind='correspondence')
    for k in range(len(goals)):
        res.case(('goal',) + tuple(gmeta[k][:3]), nontrivial=True)
    for k in failing:
        res.violations.append(dict(what='implementation disagrees with the generated model of the exposure plumbing (%s)' % gmeta[k][0], finding=None,
                                   input=dict(goal=goals[k][:2000], which=gmeta[k]), observed='interval goal not provable', expected='provable'))
    res.extra['tolerances'] = {'fitted rates / statistics vs weighted rate fits': '1e-6 relative', 'predict': '1e-12 relative', 'loglikelihood vs scipy': '1e-9 relative',
                               'gridsearch candidates vs direct fits (warm started)': '1e-5 relative', 'interval goals': '1e-15 relative (rate, predict), 2e-7 (weight: float32 product), 1e-9 (log-likelihood)'}
    res.trusted.append('scipy.stats.poisson.logpmf as the reference Poisson log-pmf; in the theorems it is a parameter (only its arguments are specified); np.round enters through "fixes integers", proved for round-half-even')
    res.trusted.append('Coq Interval (kernel-checked enclosures of ln) for the log-likelihood goals')


def replay(res, rp):
    run(res)
