"""C11 -- invalid data are rejected, never silently turned into a model or a number.

prove:       translator/skel_c11.py regenerates coq/Gen/C11Traces.v (validation trace of every data argument of every
             public entry point of every model class) and Props/C11.v is re-checked against it.
correspond:  the real methods of every model class are run on a malformed stream and on valid inputs; the observed
             outcome class is compared, inside Coq, with the outcome of the model run on the extracted trace.
probe:       the property statement itself (ValueError for corrupted data, AttributeError before fit, finite results
             of fits on valid data) is evaluated directly on the implementation, independently of the Coq model.
"""
import copy
import inspect
import io
import contextlib
import os
import re
import sys
import warnings

import numpy as np

import common
from common import coq_list, coq_bool

PROP = 'C11'
PROPS_FILE = 'Props/C11.v'
N = 30

HEADER = """From Coq Require Import String List Bool.
From PG Require Import Model.Validation Gen.C11Traces Model.C11Check.
Import ListNotations.
Open Scope string_scope.
"""

ARGK = {'X': 'AX', 'y': 'AY', 'weights': 'AW', 'exposure': 'AE', 'sample_at_X': 'AXs'}
KINDS_APPLICABLE = None


# ----------------------------------------------------------------------------------------- prove
def prove(res):
    entries = None
    with common.Lock():
        common._LOCK_HELD[0] = True
        try:
            sys.path.insert(0, os.path.join(common.VERIF, 'translator'))
            import skel_c11
            try:
                entries, nodata = skel_c11.generate(common.REPO, common.COQ)
                res.obligation('translate:Gen/C11Traces.v', True, kind='translation')
                res.extra['entry_points'] = len(entries)
                res.extra['public_methods_without_data_arguments'] = sorted({m for _, m in nodata})
            except Exception as e:  # fail closed
                res.obligation('translate:Gen/C11Traces.v', False, detail='%s: %s' % (type(e).__name__, e), kind='translation')
            common._standard_prove(res, PROPS_FILE)
            ok, out = common.make(['Model/C11Check.vo'])
            res.obligation('build:Model/C11Check.vo', ok, detail=out[-1500:], kind='correspondence')
        finally:
            common._LOCK_HELD[0] = False
    return entries


def load_exceptions():
    """the exception list of the theorem (coq/Model/C11Check.v), mirrored to tag failing inputs with finding ids"""
    src = open(os.path.join(common.COQ, 'Model', 'C11Check.v')).read()
    ids = dict(re.findall(r'Definition (\w+) := "([^"]+)"\.', src))
    out = []
    for m in re.finditer(r'mk_exc (\w+) None "(\w+)" "(\w+)" (\w+) (\w+) (None|\(Some \w+\)) (true|false) (None|\(Some \w+\))', src):
        cont = None if m.group(6) == 'None' else m.group(6)[6:-1]
        dt = None if m.group(8) == 'None' else m.group(8)[6:-1]
        out.append(dict(id=ids[m.group(1)], origin=m.group(2), meth=m.group(3), arg=m.group(4), kind=m.group(5),
                        cont=cont, fitted=m.group(7) == 'true', dt=dt))
    if len(out) != len(re.findall(r'^\s*mk_exc ', src, flags=re.M)):
        raise RuntimeError('coq/Model/C11Check.v: exception list not understood')
    return out


# ----------------------------------------------------------------------------------------- models and data
def base_data(rng):
    X = np.empty((N, 3))
    X[:, 0] = [rng.randint(0, 64) / 64.0 for _ in range(N)]
    X[:, 1] = [rng.randint(-32, 32) / 16.0 for _ in range(N)]
    X[:, 2] = [i % 3 for i in range(N)]
    eta = 0.5 + X[:, 0] - 0.25 * X[:, 1] + 0.25 * (X[:, 2] == 1)
    noise = np.array([rng.randint(-8, 8) / 32.0 for _ in range(N)])
    return X, eta, noise


def make_models(rng):
    import pygam
    import pygam.pygam as _pg
    _pg.ProgressBar = lambda *a, **k: (lambda it: it)       # display only: keep stderr readable
    from pygam import s, l, f
    X, eta, noise = base_data(rng)

    def terms():
        return s(0, n_splines=5) + l(1) + f(2)
    ys = {
        'GAM': eta + noise, 'LinearGAM': eta + noise, 'ExpectileGAM': eta + noise,
        'LogisticGAM': ((eta + 2 * noise) > np.median(eta)).astype(float),
        'PoissonGAM': np.floor(np.exp(eta) + 2 * np.abs(noise) * 2).astype(float),
        'GammaGAM': np.exp(eta + noise), 'InvGaussGAM': np.exp(eta / 2 + noise / 2) + 0.5,
    }
    domain_bad = {'LogisticGAM': [2.0, -1.0], 'PoissonGAM': [-1.0], 'GammaGAM': [-0.5], 'InvGaussGAM': [-2.0]}
    models, failed = {}, []
    for cls, y in ys.items():
        ctor = getattr(pygam, cls)
        def new(ctor=ctor):
            return ctor(terms())
        try:
            fitted = new().fit(X, y)
        except Exception as e:
            failed.append('%s: %s: %s' % (cls, type(e).__name__, str(e)[:200]))
            continue
        models[cls] = dict(new=new, fitted=fitted, y=y, bad=domain_bad.get(cls))
    return X, models, failed


def classify(a):
    a = np.asarray(a, dtype=float).ravel()
    return ['NaN' if np.isnan(v) else ('PInf' if v == np.inf else ('NInf' if v == -np.inf else 'Fin')) for v in a]


def as_container(a, cont):
    if cont == 'CNdarray':
        return np.array(a)
    if cont == 'CList':
        return np.asarray(a).tolist()
    return tuple(np.asarray(a).tolist()) if np.asarray(a).ndim == 1 else tuple(tuple(r) for r in np.asarray(a).tolist())


def variants(arg, base, kinds, tier, heavy, bad_domain):
    """yield (tag, value, desc-fields) for one data argument.  desc fields: cont, dt, len_ok, width_ok, dom_ok, cat_ok, kind"""
    base = np.asarray(base, dtype=float)
    n = base.shape[0]
    is2d = base.ndim == 2

    def D(v, cont='CNdarray', dt='DFloat', kind=None, **kw):
        d = dict(cont=cont, dt=dt, len_ok=True, width_ok=True, dom_ok=True, cat_ok=True, kind=kind)
        d.update(kw)
        return d
    # valid inputs in every container
    yield 'valid-ndarray', base.copy(), D(base)
    if not heavy or tier == 'thorough':
        yield 'valid-list', as_container(base, 'CList'), D(base, cont='CList')
        yield 'valid-tuple', as_container(base, 'CTuple'), D(base, cont='CTuple')
        if np.all(base == np.round(base)):
            yield 'valid-int-dtype', base.astype(int), D(base, dt='DInt')
    # containers the library has to cast to float: object-dtype ndarray, list of numeric strings, mixed list
    def as_obj(a):
        return np.asarray(a, dtype=float).astype(object)

    def as_str(a, mixed=False):
        def conv(i, v):
            v = float(v)
            if mixed and i % 3 == 0:
                return v                       # np.array of a str/float mix is a string array all the same
            return 'nan' if np.isnan(v) else ('inf' if v == np.inf else ('-inf' if v == -np.inf else repr(v)))
        a = np.asarray(a, dtype=float)
        if a.ndim == 1:
            return [conv(i, v) for i, v in enumerate(a)]
        return [[conv(i + j, v) for j, v in enumerate(r)] for i, r in enumerate(a)]
    yield 'valid-object-ndarray', as_obj(base), D(base, dt='DObject')
    yield 'valid-string-list', as_str(base), D(base, cont='CList', dt='DStr')
    if not heavy or tier == 'thorough':
        yield 'valid-mixed-list', as_str(base, mixed=True), D(base, cont='CList', dt='DStr')
    flat_n = base.size
    pos_sets = {'first': [0], 'middle': [flat_n // 2], 'last': [flat_n - 1], 'several': [1, flat_n // 3, flat_n - 2]}
    if 'KNonFinite' in kinds:
        combos = [(v, p) for v in ('nan', 'pinf', 'ninf') for p in pos_sets]
        if heavy and tier != 'thorough':
            combos = [('nan', 'first'), ('ninf', 'last'), ('pinf', 'several')]
        for vname, pname in combos:
            val = {'nan': np.nan, 'pinf': np.inf, 'ninf': -np.inf}[vname]
            a = base.copy()
            a.ravel()[pos_sets[pname]] = val
            yield '%s-%s' % (vname, pname), a, D(a, kind='KNonFinite')
        for vname, val, pos in (('pinf', np.inf, flat_n // 2), ('ninf', -np.inf, flat_n - 1), ('nan', np.nan, 0)):
            a = base.copy()
            a.ravel()[pos] = val
            yield '%s-object-ndarray' % vname, as_obj(a), D(a, dt='DObject', kind='KNonFinite')
            yield '%s-string-list' % vname, as_str(a), D(a, cont='CList', dt='DStr', kind='KNonFinite')
            if vname == 'pinf' and (not heavy or tier == 'thorough'):
                yield 'pinf-mixed-list', as_str(a, mixed=True), D(a, cont='CList', dt='DStr', kind='KNonFinite')
        if not is2d:
            a = base.copy()
            a[flat_n // 3] = np.nan
            lst = a.tolist()
            lst[flat_n // 3] = None               # np.array -> object dtype, astype(float) -> nan
            yield 'none-in-list', lst, D(a, cont='CList', dt='DStr', kind='KNonFinite')
        a = base.copy()
        a.ravel()[flat_n // 2] = np.nan
        yield 'nan-middle-list', as_container(a, 'CList'), D(a, cont='CList', kind='KNonFinite')
        if tier == 'thorough' or not heavy:
            a = base.copy()
            a.ravel()[flat_n - 1] = np.inf
            yield 'pinf-last-tuple', as_container(a, 'CTuple'), D(a, cont='CTuple', kind='KNonFinite')
    if 'KLen' in kinds:
        yield 'short-by-3', base[:n - 3].copy(), D(base, kind='KLen', len_ok=False)
        yield 'length-1', base[:1].copy(), D(base, kind='KLen', len_ok=False)
        if not heavy:
            yield 'short-by-3-list', as_container(base[:n - 3], 'CList'), D(base, cont='CList', kind='KLen', len_ok=False)
    if 'KWidth' in kinds and is2d:
        yield 'one-column-less', base[:, :-1].copy(), D(base, kind='KWidth', width_ok=False)
        yield 'one-column-more', np.hstack([base, base[:, :1]]), D(base, kind='KWidth', width_ok=False)
    if 'KCat' in kinds and is2d:
        a = base.copy()
        a[n // 2, 2] = 7.0
        yield 'unseen-category-high', a, D(a, kind='KCat', cat_ok=False)
        a = base.copy()
        a[0, 2] = -3.0
        yield 'unseen-category-low', a, D(a, kind='KCat', cat_ok=False)
    if 'KDomain' in kinds and bad_domain:
        for j, bv in enumerate(bad_domain):
            a = base.copy()
            a[(n // 2 + j) % n] = bv
            yield 'out-of-domain-%g' % bv, a, D(a, kind='KDomain', dom_ok=False)


def applicable_kinds(e):
    arg, fitting = e['arg'], e['fitting']
    ks = ['KNonFinite']
    if arg in ('y', 'weights', 'exposure') or (arg == 'X' and e['has_y']):
        ks.append('KLen')
    if arg in ('X', 'sample_at_X') and not fitting:
        ks += ['KWidth', 'KCat']
    if arg == 'y':
        ks.append('KDomain')
    return ks


def observe(fn, Xvalid):
    """-> (class, text) with class in OVE | OAE | OTypeError | OOther | ORetFinite | ORetNonFinite"""
    try:
        with warnings.catch_warnings(), contextlib.redirect_stderr(io.StringIO()), contextlib.redirect_stdout(io.StringIO()):
            warnings.simplefilter('ignore')
            r = fn()
    except ValueError as e:
        # optimisation failures (PIRLS diverged, penalty not positive definite) are told apart from validation errors
        if type(e).__name__ in ('OptimizationError', 'NotPositiveDefiniteError'):
            return 'OOptErr', '%s: %s' % (type(e).__name__, str(e)[:100])
        return 'OVE', '%s: %s' % (type(e).__name__, str(e)[:100])
    except AttributeError as e:
        return 'OAE', 'AttributeError: %s' % str(e)[:100]
    except TypeError as e:
        return 'OTypeError', 'TypeError: %s' % str(e)[:100]
    except Exception as e:
        return 'OOther', '%s: %s' % (type(e).__name__, str(e)[:100])
    return finite_class(r, Xvalid)


def finite_class(r, Xvalid):
    try:
        if hasattr(r, 'coef_') and hasattr(r, 'predict_mu'):
            with warnings.catch_warnings():
                warnings.simplefilter('ignore')
                ok = bool(np.isfinite(r.coef_).all()) and bool(np.isfinite(np.asarray(r.predict_mu(Xvalid), dtype=float)).all())
            return ('ORetFinite' if ok else 'ORetNonFinite'), 'returned model, finite=%s' % ok
        if isinstance(r, (list, tuple)):
            ok = all(bool(np.isfinite(np.asarray(x, dtype=float)).all()) for x in r)
        else:
            ok = bool(np.isfinite(np.asarray(r, dtype=float)).all())
        return ('ORetFinite' if ok else 'ORetNonFinite'), 'returned %s, finite=%s' % (type(r).__name__, ok)
    except Exception as e:
        return 'ORetFinite', 'returned %s (not numeric: %s)' % (type(r).__name__, type(e).__name__)


def call_plan(e, minfo, X, state, value, skip, model=None):
    """build the thunk calling the real method with the traced argument replaced by `value`"""
    cls, meth, arg = e['cls'], e['meth'], e['arg']
    if model is None:
        model = copy.deepcopy(minfo['fitted']) if state == 'fitted' else minfo['new']()
    else:
        model = copy.deepcopy(model)
    fn = getattr(model, meth)
    params = inspect.signature(fn).parameters
    kw = {}
    if 'X' in params:
        kw['X'] = X.copy()
    if 'y' in params:
        kw['y'] = minfo['y'].copy()
    if 'term' in params:
        kw['term'] = 0
    if 'progress' in params:
        kw['progress'] = False
    if meth == 'gridsearch':
        kw['lam'] = [0.5, 5.0]
    if meth == 'sample':
        kw['n_draws'] = 2
        kw['n_bootstraps'] = 1 if skip else 2
    if meth == 'fit_quantile':
        kw['max_iter'] = 2
        if skip:
            # the loop leaves through `if _within_tol(ratio, quantile, tol): break` in its first iteration
            with warnings.catch_warnings():
                warnings.simplefilter('ignore')
                ratio = float((model.predict(X) > minfo['y']).mean())
            kw['quantile'] = min(max(ratio, 0.02), 0.98)
            kw['tol'] = 0.03
        else:
            kw['quantile'] = 0.51          # ratios are multiples of 1/30: never within tol, the loop body runs on
            kw['tol'] = 0.001
    kw[arg] = value
    return lambda: fn(**kw)


def base_value(e, minfo, X):
    arg = e['arg']
    if arg == 'X':
        return X
    if arg == 'y':
        return minfo['y']
    if arg == 'weights':
        return np.array([1.0 + (i % 4) * 0.5 for i in range(N)])
    if arg == 'exposure':
        return np.array([1.0 + (i % 3) for i in range(N)])
    if arg == 'sample_at_X':
        return X[:7]
    raise ValueError(arg)


def desc_coq(d, elems):
    return '(mk_desc %s %s %s %s %s %s %s)' % (d['cont'], d['dt'], coq_list(elems), coq_bool(d['len_ok']),
                                              coq_bool(d['width_ok']), coq_bool(d['dom_ok']), coq_bool(d['cat_ok']))


def find_exception(excs, e, kind, cont, fitted, dt=None):
    for x in excs:
        if x['origin'] == e['origin'] and x['meth'] == e['meth'] and x['arg'] == ARGK[e['arg']] and x['kind'] == kind \
                and (x['cont'] is None or x['cont'] == cont) and x['fitted'] == fitted and (x['dt'] is None or x['dt'] == dt):
            return x['id']
    return None


# ----------------------------------------------------------------------------------------- entry-point stream
def entry_stream(res, rng, entries, excs):
    X, models, failed = make_models(rng)
    res.obligation('correspondence:base models fit on small valid data (spline + linear + factor, 30 rows)', not failed,
                   detail='; '.join(failed), kind='correspondence')
    cases, meta = [], []
    heavy_meths = ('sample', 'gridsearch', 'fit_quantile')
    for e in entries:
        if e['cls'] not in models:
            continue
        minfo = models[e['cls']]
        kinds = applicable_kinds(e)
        states = ['fitted', 'unfitted'] if e['fitting'] else ['fitted']
        base = base_value(e, minfo, X)
        for state in states:
            fitted = state == 'fitted'
            skips = [True, False] if (e['meth'] == 'sample' or (e['meth'] == 'fit_quantile' and fitted)) else [False]
            for skip in skips:
                heavy = e['meth'] in heavy_meths and not (e['meth'] in ('sample', 'fit_quantile') and skip)
                for tag, value, d in variants(e['arg'], base, kinds, res.tier, heavy, minfo['bad'] if e['arg'] == 'y' else None):
                    obs, text = observe(call_plan(e, minfo, X, state, value, skip), X)
                    record(res, cases, meta, excs, e, d, value, tag, fitted, skip, obs, text)
        if not e['fitting']:
            # methods that need a fitted model, on an unfitted one
            for tag, value, d in variants(e['arg'], base, ['KNonFinite'] if res.tier == 'quick' else kinds, res.tier, True,
                                          minfo['bad'] if e['arg'] == 'y' else None):
                if res.tier == 'quick' and tag not in ('valid-ndarray', 'valid-list', 'nan-first', 'ninf-last'):
                    continue
                obs, text = observe(call_plan(e, minfo, X, 'unfitted', value, False), X)
                record(res, cases, meta, excs, e, d, value, tag, False, False, obs, text)
    return cases, meta


def tensor_stream(res, rng, entries, excs, cases, meta):
    """models whose categorical feature occurs ONLY as a marginal of a tensor term (nested feature / dtype / edge-knot
    lists inside check_X): the unseen-category corruption (and the other X corruptions) must be rejected all the same."""
    import pygam
    from pygam import s, l, f, te
    X, eta, noise = base_data(rng)
    layouts = [
        ('l(1) + te(0, 2, dtype=[numerical, categorical])',
         lambda: l(1) + te(0, 2, dtype=['numerical', 'categorical'], n_splines=[4, 4])),
        ('te(s(0), f(2)) + l(1)', lambda: te(s(0, n_splines=4), f(2)) + l(1)),
        ('te(l(1), f(2)) + s(0)', lambda: te(l(1), f(2)) + s(0, n_splines=5)),
    ]
    if res.tier == 'quick':
        layouts = [layouts[0], layouts[1 + res.seed % 2]]
    for cls in sorted({e['cls'] for e in entries}):
        if not hasattr(pygam, cls):
            continue
        Xb, eta_b, noise_b = X, eta, noise
        y = {'LogisticGAM': ((eta_b + 2 * noise_b) > np.median(eta_b)).astype(float),
             'PoissonGAM': np.floor(np.exp(eta_b) + 4 * np.abs(noise_b)),
             'GammaGAM': np.exp(eta_b + noise_b),
             'InvGaussGAM': np.exp(eta_b / 2 + noise_b / 2) + 0.5}.get(cls, eta_b + noise_b)
        for lname, mk in layouts:
            try:
                with warnings.catch_warnings():
                    warnings.simplefilter('ignore')
                    gam = getattr(pygam, cls)(mk()).fit(Xb, y)
            except ValueError:
                res.count('tensor:setup ValueError')
                continue
            minfo = dict(y=y, fitted=gam, new=None, bad=None)
            for e in entries:
                if e['cls'] != cls or e['fitting'] or e['arg'] not in ('X', 'sample_at_X'):
                    continue
                base = Xb if e['arg'] == 'X' else Xb[:7]
                probes = [('unseen-category-high', 7.0, 'KCat'), ('unseen-category-adjacent', 3.0, 'KCat'),
                          ('unseen-category-low', -1.0, 'KCat'), ('seen-category', 2.0, None), ('nan-in-categorical-column', np.nan, 'KNonFinite')]
                for ptag, level, kind in probes:
                    value = base.copy()
                    value[len(value) // 2, 2] = level
                    d = dict(cont='CNdarray', dt='DFloat', len_ok=True, width_ok=True, dom_ok=True, cat_ok=kind != 'KCat', kind=kind)
                    obs, text = observe(call_plan(e, minfo, Xb, 'fitted', value, True, model=gam), Xb)
                    record(res, cases, meta, excs, e, d, value, '%s | categorical feature only inside %s' % (ptag, lname), True,
                           e['meth'] == 'sample', obs, text, extra=dict(terms=lname, category=None if kind == 'KNonFinite' else level))
                    res.count('tensor-marginal:%s' % (kind or 'valid'))
                # one column less: the width check with nested feature lists
                value = base[:, :-1].copy()
                d = dict(cont='CNdarray', dt='DFloat', len_ok=True, width_ok=False, dom_ok=True, cat_ok=True, kind='KWidth')
                obs, text = observe(call_plan(e, minfo, Xb, 'fitted', value, True, model=gam), Xb)
                record(res, cases, meta, excs, e, d, value, 'one-column-less | categorical feature only inside %s' % lname, True,
                       e['meth'] == 'sample', obs, text, extra=dict(terms=lname))
                res.count('tensor-marginal:KWidth')


def history_stream(res, rng, entries, excs, cases, meta):
    """fitted states reached through a history (fit -> refit on a narrower / wider / shifted category range, gridsearch
    then fit, fit then gridsearch on other data): an unseen category *relative to the last training data* must be
    rejected by every query method, a category of the last training data must be accepted."""
    import pygam
    import pygam.pygam as _pg
    from pygam import s, l, f
    _pg.ProgressBar = lambda *a, **k: (lambda it: it)

    def data(levels, n):
        X = np.empty((n, 3))
        X[:, 0] = [rng.randint(0, 64) / 64.0 for _ in range(n)]
        X[:, 1] = [rng.randint(-32, 32) / 16.0 for _ in range(n)]
        X[:, 2] = [levels[i % len(levels)] for i in range(n)]
        eta = 0.5 + X[:, 0] - 0.25 * X[:, 1] + 0.125 * (X[:, 2] % 2)
        noise = np.array([rng.randint(-8, 8) / 32.0 for _ in range(n)])
        return X, eta, noise

    def target(cls, eta, noise):
        if cls == 'LogisticGAM':
            return ((eta + 2 * noise) > np.median(eta)).astype(float)
        if cls == 'PoissonGAM':
            return np.floor(np.exp(eta) + 4 * np.abs(noise))
        if cls == 'GammaGAM':
            return np.exp(eta + noise)
        if cls == 'InvGaussGAM':
            return np.exp(eta / 2 + noise / 2) + 0.5
        return eta + noise
    histories = [
        ('fit(0..4) -> fit(0..2)', [('fit', [0, 1, 2, 3, 4], 30), ('fit', [0, 1, 2], 24)]),
        ('fit(0..2) -> fit(0..4)', [('fit', [0, 1, 2], 24), ('fit', [0, 1, 2, 3, 4], 30)]),
        ('fit(0..2) -> fit(2..4)', [('fit', [0, 1, 2], 24), ('fit', [2, 3, 4], 27)]),
        ('gridsearch(0..4) -> fit(1..2)', [('gridsearch', [0, 1, 2, 3, 4], 30), ('fit', [1, 2], 24)]),
        ('fit(0..4) -> gridsearch(0..2)', [('fit', [0, 1, 2, 3, 4], 30), ('gridsearch', [0, 1, 2], 24)]),
    ]
    classes = sorted({e['cls'] for e in entries})
    if res.tier == 'quick':
        histories = histories[:3] + [histories[3 + (res.seed % 2)]]
    for cls in classes:
        if not hasattr(pygam, cls):
            continue
        for hname, steps in histories:
            gam = getattr(pygam, cls)(s(0, n_splines=5) + l(1) + f(2))
            trained = {}
            try:
                with warnings.catch_warnings(), contextlib.redirect_stderr(io.StringIO()), contextlib.redirect_stdout(io.StringIO()):
                    warnings.simplefilter('ignore')
                    for op, levels, n in steps:
                        X, eta, noise = data(levels, n)
                        y = target(cls, eta, noise)
                        if op == 'fit':
                            gam.fit(X, y)
                        else:
                            kw = dict(lam=[0.5, 5.0])
                            if 'progress' in inspect.signature(gam.gridsearch).parameters:
                                kw['progress'] = False
                            gam.gridsearch(X, y, **kw)
                        trained[n] = (X, y, levels)
            except ValueError as ex:
                res.count('history:setup ValueError')
                continue
            # the data the kept model was trained on last (gridsearch may keep the model it started from)
            n_last = int(gam.statistics_['n_samples'])
            if n_last not in trained:
                res.count('history:cannot tell the last training data')
                continue
            X, y, levels = trained[n_last]
            lo, hi = min(levels), max(levels)
            probes = [('unseen-above', hi + 1, False), ('unseen-below', lo - 1, False), ('seen-top', hi, True)]
            if lo > 0:
                probes.append(('formerly-seen-%d' % 0, 0, False))
            if 4 > hi:
                probes.append(('formerly-seen-%d' % 4, 4, False))
            minfo = dict(y=y, fitted=gam, new=None, bad=None)
            for e in entries:
                if e['cls'] != cls or e['fitting'] or e['arg'] not in ('X', 'sample_at_X'):
                    continue
                base = X if e['arg'] == 'X' else X[:7]
                for ptag, level, ok in probes:
                    value = base.copy()
                    value[len(value) // 2, 2] = float(level)
                    d = dict(cont='CNdarray', dt='DFloat', len_ok=True, width_ok=True, dom_ok=True, cat_ok=ok,
                             kind=None if ok else 'KCat')
                    obs, text = observe(call_plan(e, minfo, X, 'fitted', value, True, model=gam), X)
                    record(res, cases, meta, excs, e, d, value, '%s after %s' % (ptag, hname), True, e['meth'] == 'sample', obs, text,
                           extra=dict(history=hname, category=level, last_training_levels=levels))
                    res.count('history:%s' % ('accepted-level' if ok else 'unseen-level'))


def refit_precedes_validation(e):
    """the extracted trace has a top-level MayRefit before its first validator / use (e.g. sample(..., sample_at_X=..))"""
    for a in e.get('actions') or []:
        if a[0] == 'MayRefit':
            return True
        if a[0] != 'CheckFitted':
            return False
    return False


def record(res, cases, meta, excs, e, d, value, tag, fitted, skip, obs, text, extra=None):
    elems = classify(value)
    cases.append('(mk_case "%s" "%s" %s %s %s %s %s)' % (e['cls'], e['meth'], ARGK[e['arg']], desc_coq(d, elems),
                                                       coq_bool(fitted), coq_bool(skip), obs))
    inp = dict(cls=e['cls'], method=e['meth'], origin=e['origin'], argument=e['arg'], corruption=tag, kind=d['kind'],
               container=d['cont'], dtype=d['dt'], fitted=fitted, n_bootstraps=(1 if skip else 2) if e['meth'] == 'sample' else None,
               loop_skipped=skip if e['meth'] in ('sample', 'fit_quantile') else None,
               value=np.asarray(value, dtype=float).tolist() if np.asarray(value).size <= 12 else
               'base %s with %s (see harness/props/c11.py variants, seed %d)' % (e['arg'], tag, res.seed))
    if extra:
        inp.update(extra)
    m = dict(input=inp, observed=text, obs=obs)
    meta.append(m)
    key = (e['cls'], e['meth'], e['arg'], tag, fitted, skip)
    res.case(key, sample=dict(inp, observed=text) if len(res.samples) < 6 and d['kind'] and len(cases) % 97 == 5 else None,
             nontrivial=True)
    res.count('kind:%s' % (d['kind'] or 'valid'))
    res.count('observed:%s' % obs)
    if obs == 'OOptErr':
        res.count('optimisation-failure:%s.%s(%s)' % (e['cls'], e['meth'], 'valid' if d['kind'] is None else d['kind']))
    res.count('container:%s' % d['cont'])
    # ---- the property statement, directly on the implementation
    kind = d['kind']
    state_ok = fitted or e['fitting']
    if kind is not None and state_ok and obs == 'OOptErr' and not skip and refit_precedes_validation(e):
        # the refit on the other, valid, arguments failed before this argument was looked at: permitted for them
        res.count('optimisation failure of a refit on the other arguments before %s is validated' % e['arg'])
    elif kind is not None and state_ok:
        if obs != 'OVE':
            res.violations.append(dict(
                what='%s.%s(%s=<%s>) on a %s model did not raise ValueError' % (e['cls'], e['meth'], e['arg'], tag,
                                                                                 'fitted' if fitted else 'unfitted'),
                input=inp, expected='ValueError', observed=text,
                finding=find_exception(excs, e, kind, d['cont'], fitted, d['dt'])))
    elif not state_ok:
        good = ('OAE',) if kind is None else ('OAE', 'OVE')
        # (the property asks for an AttributeError; one that does not come from the guard is only counted)
        if obs == 'OAE' and 'not been fitted' not in text:
            res.count('unfitted:AttributeError-not-from-the-fitted-guard')   # e.g. self.link still a str in check_y
        if obs not in good:
            res.violations.append(dict(
                what='%s.%s on an unfitted model did not raise the not-fitted AttributeError' % (e['cls'], e['meth']),
                input=inp, expected='AttributeError (GAM has not been fitted)' + ('' if kind is None else ' or ValueError'),
                observed=text, finding=None))
    elif kind is None and e['meth'] == 'fit_quantile' and e['arg'] == 'y' and not fitted and d['dt'] == 'DStr' \
            and obs == 'OTypeError' and "'greater'" in text:
        # valid numbers written as strings are outside the property (it speaks of invalid data and of fits on valid
        # *numeric* data): counted only, and only here -- fit_quantile on an unfitted model validates a copy of y inside
        # self.fit(..) and then compares predict(X) > y with the strings as passed.  Every other entry point must accept them.
        res.count('valid-numeric-strings:%s.fit_quantile(unfitted):OTypeError' % e['cls'])
    elif kind is None and state_ok and e['fitting'] and obs not in ('OVE', 'OOptErr', 'ORetFinite'):
        # last sentence of the property, for the entry points that fit
        fid = None
        if d['cont'] in ('CList', 'CTuple'):
            fid = find_exception(excs, e, 'KNonFinite', d['cont'], fitted)
        res.violations.append(dict(
            what='%s.%s on valid data (%s) failed with an unrelated outcome' % (e['cls'], e['meth'], tag),
            input=inp, expected='ValueError or a finite model', observed=text, finding=fid))


# ----------------------------------------------------------------------------------------- valid but nasty fits
def nasty_fits(res, rng):
    """last sentence of the property: explored, not proved."""
    import pygam
    from pygam import s, l, f
    X, eta, noise = base_data(rng)
    n = N

    def ys(cls, X_, scale=1.0):
        e = 0.5 + 0.5 * np.tanh(X_[:, 0] / (np.abs(X_[:, 0]).max() + 1e-300))
        if cls == 'LogisticGAM':
            return (np.arange(len(e)) % 2).astype(float)
        if cls == 'PoissonGAM':
            return np.floor(1 + 3 * e + (np.arange(len(e)) % 3))
        if cls in ('GammaGAM', 'InvGaussGAM'):
            return (1 + e + 0.25 * (np.arange(len(e)) % 4)) * scale
        return (e + 0.125 * (np.arange(len(e)) % 5)) * scale
    scen = []
    Xc = X.copy(); Xc[:, 1] = 2.0
    scen.append(('constant-column', Xc, None, 1.0, dict()))
    scen.append(('huge-X-1e150', X * 1e150, None, 1.0, dict()))
    scen.append(('tiny-X-1e-150', X * 1e-150, None, 1.0, dict()))
    scen.append(('huge-y-1e150', X, None, 1e150, dict()))
    scen.append(('tiny-y-1e-150', X, None, 1e-150, dict()))
    scen.append(('n<m (5 rows, 12 coefficients)', X[:5], None, 1.0, dict(small=True)))
    w0 = np.ones(n); w0[::2] = 0.0
    scen.append(('half-zero-weights', X, w0, 1.0, dict()))
    scen.append(('all-zero-weights', X, np.zeros(n), 1.0, dict()))
    scen.append(('constant-y', X, None, 1.0, dict(consty=True)))
    scen.append(('duplicated-rows', np.repeat(X[:3], 10, axis=0), None, 1.0, dict()))
    for cls in ('GAM', 'LinearGAM', 'LogisticGAM', 'PoissonGAM', 'GammaGAM', 'InvGaussGAM', 'ExpectileGAM'):
        for tag, X_, w, scale, opt in scen:
            y = ys(cls, X_, scale)
            if opt.get('consty'):
                y = np.full(len(y), y[1] if cls != 'LogisticGAM' else 1.0)
            terms = s(0, n_splines=8 if opt.get('small') else 5) + l(1) + f(2)
            gam = getattr(pygam, cls)(terms, max_iter=25)
            kw = dict(weights=w) if w is not None else {}
            obs, text = observe(lambda: gam.fit(X_, y, **kw), X_)
            res.case(('nasty', cls, tag), nontrivial=True)
            res.count('nasty-fit:%s' % obs)
            fid = None
            if obs == 'ORetNonFinite':
                fid, more = s21_diagnosis(gam, X_)
                text += more
            if obs not in ('OVE', 'OOptErr', 'ORetFinite'):
                res.violations.append(dict(
                    what='%s.fit on valid data (%s) neither raised ValueError nor returned a finite model' % (cls, tag),
                    input=dict(cls=cls, scenario=tag, seed=res.seed, X=np.asarray(X_).tolist(), y=y.tolist(),
                               weights=None if w is None else w.tolist()),
                    expected='ValueError (incl. subclasses) or finite coef_ and finite training predictions',
                    observed=text, finding=fid))


def generic_gam_fits(res, rng):
    """last sentence of the property for the generic GAM class: every (distribution, link) pair the library offers
    (pygam.distributions.DISTRIBUTIONS x pygam.links.LINKS, binomial with 1, 2, 5, 12 trials) on valid targets inside
    the support of the distribution and the domain of the link, including the boundary values.  Explored, not proved.
    Outcome must be ValueError (incl. OptimizationError) or a model with finite coef_ and finite training predictions;
    a raw numpy LinAlgError (although a ValueError subclass), AssertionError, FloatingPointError, TypeError ... is an
    untagged violation carrying the concrete input."""
    from pygam import GAM, s, l, f
    from pygam.distributions import DISTRIBUTIONS, BinomialDist
    from pygam.links import LINKS
    reps = 1 if res.tier == 'quick' else 4
    dists = []
    for name in DISTRIBUTIONS:
        if name == 'binomial':
            dists += [(name, lv) for lv in (1, 2, 5, 12)]
        else:
            dists.append((name, None))
    for rep in range(reps):
        n = N
        X = np.empty((n, 3))
        X[:, 0] = [rng.randint(0, 64) / 64.0 for _ in range(n)]
        X[:, 1] = [rng.randint(-32, 32) / 16.0 for _ in range(n)]
        X[:, 2] = [i % 3 for i in range(n)]
        e = 0.1 + 0.8 * (0.5 + 0.5 * np.tanh(2 * X[:, 0] - 1 + 0.25 * (X[:, 2] == 1)))        # in (0.1, 0.9)
        jit = np.array([rng.randint(-8, 8) / 64.0 for _ in range(n)])
        rows = list(range(n))
        rng.shuffle(rows)
        b0, b1 = rows[:4], rows[4:8]                                                 # rows forced onto the boundaries
        for dname, lv in dists:
            for lname in LINKS:
                positive_link = lname in ('log', 'inverse', 'inv_squared')
                scen = {}
                if dname == 'binomial':
                    base = np.clip(np.round(lv * (e + 2 * jit)), 0, lv)
                    scen['generic'] = base
                    y = base.copy(); y[b0] = 0.0; y[b1] = float(lv)
                    scen['rows y==0 and y==levels'] = y
                    y = base.copy(); y[:] = np.where(np.arange(n) % 2 == 0, 0.0, float(lv))
                    scen['only y==0 and y==levels'] = y
                    scen['all y==levels'] = np.full(n, float(lv))
                elif dname == 'poisson':
                    base = np.floor(1 + 4 * e + (np.arange(n) % 3))
                    scen['generic'] = base
                    y = base.copy(); y[b0 + b1] = 0.0
                    scen['some zeros'] = y
                    y = np.zeros(n); y[b0] = 3.0
                    scen['mostly zeros'] = y
                    scen['all zeros'] = np.zeros(n)
                    scen['large counts'] = base * 1e6
                elif dname in ('gamma', 'inv_gauss'):
                    base = 0.5 + 2 * e + np.abs(jit)
                    scen['generic'] = base
                    y = base.copy(); y[b0] *= 1e-8
                    scen['some very small (1e-8)'] = y
                    y = base.copy(); y[b1] *= 1e8
                    scen['some very large (1e8)'] = y
                    y = base.copy(); y[b0] *= 1e-8; y[b1] *= 1e8
                    scen['very small and very large'] = y
                    scen['all tiny (1e-150)'] = base * 1e-150
                    scen['all huge (1e150)'] = base * 1e150
                else:                                                                 # normal and anything new
                    base = (0.5 + e + np.abs(jit)) if (positive_link or lname == 'logit') else (e + 2 * jit - 0.5)
                    if lname == 'logit':
                        base = np.clip(e + jit, 0.05, 0.95)
                    scen['generic'] = base
                    scen['constant y'] = np.full(n, float(base[0]))
                    if not positive_link and lname != 'logit':
                        y = base.copy(); y[b0] = 0.0
                        scen['some exact zeros'] = y
                        scen['huge (1e150)'] = base * 1e150
                # a pair that cannot even fit plain targets (non-ValueError failure) is reported once
                first = run_generic(res, rep, dname, lv, lname, 'generic', X, scen['generic'], s(0, n_splines=5) + l(1) + f(2))
                if first in ('OAE', 'OTypeError', 'OOther'):
                    res.count('generic-fit:pair unusable on plain targets')
                    continue
                # structural scenarios shared by every pair
                for tag, y in list(scen.items()):
                    if tag != 'generic':
                        run_generic(res, rep, dname, lv, lname, tag, X, y, s(0, n_splines=5) + l(1) + f(2))
                y = scen['generic']
                Xc = X[:12].copy(); Xc[:, 2] = np.arange(12)
                run_generic(res, rep, dname, lv, lname, 'single row per category (12 rows, 12 categories)', Xc, y[:12],
                            s(0, n_splines=5) + f(2))
                run_generic(res, rep, dname, lv, lname, 'n<m (5 rows, 8+1+3 coefficients)', X[:5], y[:5],
                            s(0, n_splines=8) + l(1) + f(2))
                bnd = [k for k in scen if k != 'generic'][0]
                run_generic(res, rep, dname, lv, lname, 'n<m with ' + bnd, X[b0 + b1[:1]], scen[bnd][b0 + b1[:1]],
                            s(0, n_splines=8) + l(1))


LOG_DBL_MAX = float(np.log(np.finfo(float).max))        # exp(lp) is finite iff lp <= 709.78...


def s21_diagnosis(gam, X):
    """-> (finding id or None, text).  The known finding C11-S21: fit returned FINITE coefficients, and the non-finite
    training predictions are exactly the rows whose final linear predictor lies outside the finite range of the inverse
    link -- log: lp > log(DBL_MAX) (exp overflows; e.g. data of magnitude 1e150 times a coefficient of 1e-16);
    inv_squared: lp <= 0 (lp ** -0.5); inverse: lp == 0.  (_mask dropped those rows silently in every PIRLS iteration and
    nothing checks mu at the end.)  Anything else -- non-finite coef_, another link, another row pattern -- is untagged."""
    try:
        with warnings.catch_warnings():
            warnings.simplefilter('ignore')
            lp = np.asarray(gam._linear_predictor(X), dtype=float)
            mu = np.asarray(gam.predict_mu(X), dtype=float)
        coef_ok = bool(np.isfinite(gam.coef_).all())
        bad = ~np.isfinite(mu)
        lname = type(gam.link).__name__
        text = '; coef_ finite=%s, %d of %d training predictions non-finite, linear predictor in [%.3g, %.3g], link %s' % (
            coef_ok, int(bad.sum()), len(mu), float(np.nanmin(lp)), float(np.nanmax(lp)), lname)
        if lname == 'LogLink':
            outside = lp > LOG_DBL_MAX
        elif lname == 'InvSquaredLink':
            outside = lp <= 0
        elif lname == 'InverseLink':
            outside = lp == 0
        else:
            outside = np.zeros(len(lp), dtype=bool)
        if coef_ok and bool(np.isfinite(lp).all()) and bool(bad.any()) and bool((bad == outside).all()):
            return 'C11-S21-nonfinite-training-predictions', text
        return None, text
    except Exception as e:
        return None, '; (diagnosis failed: %s)' % type(e).__name__


def run_generic(res, rep, dname, lv, lname, tag, X, y, terms):
    from pygam import GAM
    from pygam.distributions import BinomialDist
    dist = BinomialDist(levels=lv) if dname == 'binomial' and lv != 1 else dname
    X = np.array(X, dtype=float)
    y = np.array(y, dtype=float)

    holder = []

    def go():
        holder.append(GAM(terms, distribution=dist, link=lname, max_iter=25))
        return holder[0].fit(X, y)
    obs, text = observe(go, X)
    fid = None
    if obs == 'ORetNonFinite':
        fid, more = s21_diagnosis(holder[0], X)
        text += more
    res.case(('generic', rep, dname, lv, lname, tag), nontrivial=True)
    res.count('generic-fit:%s' % obs)
    raw_linalg = obs == 'OVE' and text.startswith('LinAlgError')
    if raw_linalg:
        res.count('generic-fit:raw LinAlgError')
    if obs not in ('OVE', 'OOptErr', 'ORetFinite') or raw_linalg:
        res.violations.append(dict(
            what='GAM(distribution=%s%s, link=%s).fit on valid data (%s) neither raised ValueError nor returned a finite model'
                 % (dname, '' if lv is None else '(levels=%d)' % lv, lname, tag),
            input=dict(cls='GAM', distribution=dname, levels=lv, link=lname, scenario=tag, seed=res.seed,
                       terms=repr(terms), X=X.tolist(), y=y.tolist()),
            expected='ValueError (incl. OptimizationError) or finite coef_ and finite training predictions',
            observed=text, finding=fid))
    return obs


def regression_probes(res, rng):
    """former witnesses of repaired defects (S20 logit link with a non-binomial distribution, S22 fit_quantile weights
    after an immediate break, S24 PoissonGAM arithmetic on y before validation): must now satisfy the property; an untagged violation otherwise."""
    from pygam import GAM, ExpectileGAM, s
    n = N
    X = np.array([[rng.randint(0, 64) / 64.0] for _ in range(n)])
    y01 = np.clip(0.1 + 0.8 * X[:, 0] + np.array([rng.randint(-4, 4) / 64.0 for _ in range(n)]), 0.05, 0.95)
    for dname in ('normal', 'poisson', 'gamma', 'inv_gauss'):
        yy = np.round(y01) if dname == 'poisson' else y01
        obs, text = observe(lambda: GAM(s(0, n_splines=5), distribution=dname, link='logit').fit(X, yy), X)
        res.case(('regression-S20', dname), nontrivial=True)
        res.count('regression-S20:%s' % obs)
        if obs not in ('OVE', 'OOptErr', 'ORetFinite'):
            res.violations.append(dict(
                what='regression of C11-S20: GAM(distribution=%s, link=logit).fit on valid targets in [0, 1]' % dname,
                input=dict(cls='GAM', distribution=dname, link='logit', seed=res.seed, X=X.tolist(), y=yy.tolist()),
                expected='ValueError or a finite model', observed=text, finding=None))
    # S24: PoissonGAM.fit / gridsearch divided y by the exposure before validating it
    from pygam import PoissonGAM
    yc = np.floor(1 + 4 * X[:, 0] + np.arange(n) % 3)
    ys_inf = [repr(float(v)) for v in yc]
    ys_inf[7] = 'inf'
    ys_nan = [repr(float(v)) for v in yc]
    ys_nan[n - 1] = 'nan'
    y_none = yc.tolist()
    y_none[3] = None
    y_obj = yc.astype(object)
    y_obj[5] = float('-inf')
    for tag, yb in (('inf-in-string-list', ys_inf), ('nan-in-string-list', ys_nan), ('None-in-list', y_none),
                    ('-inf-in-object-ndarray', y_obj)):
        for meth in ('fit', 'gridsearch'):
            g = PoissonGAM(s(0, n_splines=5))
            call = (lambda g=g, yb=yb: g.fit(X, yb)) if meth == 'fit' else (lambda g=g, yb=yb: g.gridsearch(X, yb, lam=[0.5, 5.0]))
            obs, text = observe(call, X)
            res.case(('regression-S24', meth, tag), nontrivial=True)
            res.count('regression-S24:%s' % obs)
            if obs != 'OVE':
                res.violations.append(dict(
                    what='regression of C11-S24: PoissonGAM.%s with y=<%s>' % (meth, tag),
                    input=dict(cls='PoissonGAM', method=meth, y=[None if v is None else str(v) for v in list(yb)], seed=res.seed,
                               X=X.tolist()),
                    expected='ValueError', observed=text, finding=None))
    for tag, yb in (('valid-string-list', [repr(float(v)) for v in yc]), ('valid-object-ndarray', yc.astype(object))):
        obs, text = observe(lambda yb=yb: PoissonGAM(s(0, n_splines=5)).fit(X, yb), X)
        res.case(('regression-S24', 'fit', tag), nontrivial=True)
        res.count('regression-S24:%s' % obs)
        if obs not in ('OVE', 'OOptErr', 'ORetFinite'):
            res.violations.append(dict(
                what='regression of C11-S24: PoissonGAM.fit with y=<%s>' % tag,
                input=dict(cls='PoissonGAM', method='fit', y=[str(v) for v in list(yb)], seed=res.seed, X=X.tolist()),
                expected='ValueError or a finite model', observed=text, finding=None))
    y = 0.5 + X[:, 0] + np.array([rng.randint(-8, 8) / 32.0 for _ in range(n)])
    ex = ExpectileGAM(s(0, n_splines=5)).fit(X, y)
    q = min(max(float((ex.predict(X) > y).mean()), 0.02), 0.98)
    wbad = {'all-nan': np.full(n, np.nan), 'one-inf': np.where(np.arange(n) == n // 2, np.inf, 1.0), 'short': np.ones(n - 3),
            'length-1': np.ones(1)}
    for tag, w in wbad.items():
        m = copy.deepcopy(ex)
        obs, text = observe(lambda: m.fit_quantile(X, y, quantile=q, tol=0.03, weights=w), X)
        res.case(('regression-S22', tag), nontrivial=True)
        res.count('regression-S22:%s' % obs)
        if obs != 'OVE':
            res.violations.append(dict(
                what='regression of C11-S22: fit_quantile on a fitted model whose ratio is already within tol, weights=<%s>' % tag,
                input=dict(cls='ExpectileGAM', method='fit_quantile', quantile=q, tol=0.03, weights=np.asarray(w).tolist(),
                           seed=res.seed, X=X.tolist(), y=y.tolist()),
                expected='ValueError', observed=text, finding=None))


def nasty_finding(cls, tag, obs, text):
    return None


# ----------------------------------------------------------------------------------------- run
def run(res):
    rng = common.rng_for(res.seed, PROP)
    res.rule = ('every (model class, public method, data argument) extracted by the translator x state (fitted; also unfitted) '
                'x variant: valid in ndarray/list/tuple/int-dtype containers; NaN/+Inf/-Inf at first/middle/last/several '
                'positions; mismatched length (n-3 and 1, the latter broadcastable); one column less/more; out-of-domain '
                'target for logit/log links; unseen category (high/low) of the factor term; sample with n_bootstraps 1 and 2. '
                'Each call is run on the implementation (tiny models: spline+linear+factor on 30 rows), its outcome class '
                '{ValueError(+subclasses), AttributeError, TypeError, other, returned finite, returned non-finite} is (a) '
                'compared in Coq with the outcome of run_trace on the generated trace, (b) judged directly against the '
                'property statement. A case is distinct by (class, method, argument, variant, state, loop mode); all are '
                'non-trivial. Fits on nasty-but-finite data (constant column, 1e+-150 magnitudes, n<m, zero weights, '
                'constant y, duplicated rows) and fits of the generic GAM class with every distribution x link the library offers '
                '(binomial with 1/2/5/12 trials) on valid targets incl. the boundary of support and link domain (y==0, y==levels, '
                'Poisson zeros, 1e-8..1e8 and 1e+-150 positive targets, constant y, one row per category, n<m) are explored '
                '(not proved): ValueError (incl. OptimizationError) or finite model required; raw LinAlgError, AssertionError, '
                'any other type or a model with non-finite training predictions is a violation.')
    res.trusted += [
        'translator /verif/translator/skel_c11.py (validation traces; conventions: X and y always passed, other optional '
        'data arguments None unless traced, non-data parameters at their defaults, self-calls inlined to depth 6 with '
        'dynamic dispatch from the receiving class, for-loops may run 0 times, `while` decided at its default entry state; '
        'partial_dependence(meshgrid=True), sample(quantity="coef") and the non-property argument `mu` of accuracy are not traced)',
        'hand-written model of pygam/utils.py check_array / check_y / check_X / check_lengths / check_X_y '
        '(coq/Model/Validation.v), tied to the source only by the correspondence run (not translated)',
        'theorems speak about traces: "ValueError before any non-validating use"; the implementation-level statement is '
        'checked by the direct probe on a finite stream only',
    ]
    entries = prove(res)
    if entries is None:
        # translation failed: still evaluate the property on the implementation with the last generated table if possible
        try:
            sys.path.insert(0, os.path.join(common.VERIF, 'translator'))
            import skel_c11
            entries = fallback_entries()
        except Exception:
            entries = []
    excs = load_exceptions()
    cases, meta = entry_stream(res, rng, entries, excs)
    history_stream(res, common.rng_for(res.seed, PROP, 'history'), entries, excs, cases, meta)
    tensor_stream(res, common.rng_for(res.seed, PROP, 'tensor'), entries, excs, cases, meta)
    nasty_fits(res, rng)
    generic_gam_fits(res, common.rng_for(res.seed, PROP, 'generic'))
    regression_probes(res, common.rng_for(res.seed, PROP, 'regression'))
    with common.CaseDir(PROP) as cd:
        failing, errors = common.run_bool_cases(cd, HEADER, cases, 'check_case', shard=150)
    for name, out in errors:
        res.obligation('correspondence-file:' + name, False, detail=out, kind='correspondence')
    res.obligation('correspondence:C11 outcome class predicted by the model on the extracted trace = observed outcome class',
                   not failing and not errors, detail='failing case indices %s: %s' % (
                       failing[:10], [dict(meta[i]['input'], observed=meta[i]['observed']) for i in failing[:5]]),
                   kind='correspondence')
    already = {repr(v['input']) for v in res.violations}
    for i in failing:
        m = meta[i]
        if repr(m['input']) in already:
            continue
        res.violations.append(dict(what='observed outcome differs from the outcome predicted by the validation-trace model',
                                   finding=None, input=m['input'], observed=m['observed'],
                                   expected='outcome of run_trace on coq/Gen/C11Traces.v (see coq/Model/Validation.v)'))
    res.extra['correspondence_cases'] = len(cases)
    res.extra['tolerances'] = {'outcome classes': 'exact'}
    res.extra['explored_not_proved'] = ('fits on valid data either raise ValueError or return finite coefficients and finite '
                                        'training predictions: explored on 10 nasty scenarios x 7 classes, every valid variant of the '
                                        'fitting entry points, and GAM with every distribution x link pair (8 x 5) on 5-10 boundary / '
                                        'structural scenarios each; depends on LAPACK, not proved')
    res.extra['theorem_exceptions'] = sorted({x['id'] for x in excs})


def fallback_entries():
    """entries parsed back from the last generated Gen/C11Traces.v (used only when today's translation failed)"""
    src = open(os.path.join(common.COQ, 'Gen', 'C11Traces.v')).read()
    inv = {v: k for k, v in ARGK.items()}
    out = []
    for m in re.finditer(r'mk_entry "(\w+)" "(\w+)" "(\w+)" (\w+) (true|false) (true|false)', src):
        out.append(dict(cls=m.group(1), origin=m.group(2), meth=m.group(3), arg=inv[m.group(4)],
                        fitting=m.group(5) == 'true', has_y=m.group(6) == 'true'))
    return out


def replay(res, rp):
    run(res)
