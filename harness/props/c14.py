"""C14 -- term expressions, hyper-parameter plumbing and serialisation are faithful."""
import copy
import pickle

import numpy as np

import common
from common import coq_list, coq_bool
import gen_terms

PROP = 'C14'
PROPS_FILE = 'Props/C14.v'

HEADER = """From Coq Require Import ZArith Ascii String Bool List.
From PG Require Import Model.Terms Model.C14Check.
Import ListNotations.
Open Scope string_scope.
Open Scope list_scope.
"""

FINDINGS = {
    'knots': 'S9a-info-drops-edge-knots',
    'hidden': 'S9c-info-drops-hidden-factor-attrs',
    'shadow': 'S9d-kwarg-shadows-assignment',
    'dropped': 'S9e-set-params-plural-dropped-auto-terms',
    'missing_attr': 'S9f-plural-missing-attribute',
    'ragged': 'S9g-plural-ragged-tensor',
}
PLURAL_NAMES = ['lam', 'n_splines', 'spline_order', 'penalties', 'constraints', 'basis', 'dtype']
SPLINE_ONLY = ('n_splines', 'spline_order', 'basis')


# ----------------------------------------------------------------------------- python -> Coq
def z(i):
    i = int(i)
    return '(%d)%%Z' % i if i < 0 else '%d%%Z' % i


def cstr(s):
    assert '"' not in s
    return '"%s"' % s


def val_coq(v):
    if v is None:
        return 'VNone'
    if isinstance(v, (bool, np.bool_)):
        return '(VBool %s)' % coq_bool(bool(v))
    if isinstance(v, (int, np.integer)):
        return '(VInt %s)' % z(v)
    if isinstance(v, (float, np.floating)):
        m, e = common.dy_of_float(float(v))
        return '(VFloat %s %s)' % (z(m), z(e))
    if isinstance(v, str):
        return '(VStr %s)' % cstr(v)
    if isinstance(v, dict):
        return coq_vlist(['(VList [VStr %s; %s])' % (cstr(k), val_coq(v[k])) for k in sorted(v)])
    if isinstance(v, (list, tuple, np.ndarray)):
        return coq_vlist([val_coq(x) for x in v])
    raise ValueError('unsupported value %r' % (v,))


def coq_vlist(items):
    return '(VList %s)' % coq_list(items)


def num_coq(x):
    if isinstance(x, (int, np.integer)) and not isinstance(x, (bool, np.bool_)):
        return '(NI %s)' % z(x)
    m, e = common.dy_of_float(float(x))
    return '(NF %s %s)' % (z(m), z(e))


def ostr_coq(p):
    if p is None:
        return 'None'
    if isinstance(p, str):
        return '(Some %s)' % cstr(p)
    raise ValueError('callable penalties / constraints are outside the model')


def oz_coq(b):
    return 'None' if b is None else '(Some %s)' % z(b)


def simple_coq(t):
    from pygam.terms import SplineTerm, LinearTerm, FactorTerm
    nums = lambda l: coq_list([num_coq(x) for x in l])
    ostrs = lambda l: coq_list([ostr_coq(x) for x in l])
    if isinstance(t, LinearTerm):
        return '(SL (mkL %s %s %s %s %s %s))' % (z(t.feature), nums(t.lam), ostrs(t.penalties), coq_bool(t.verbose),
                                                cstr(t.dtype), ostrs(t.constraints))
    if isinstance(t, SplineTerm):
        kn = 'None'
        if hasattr(t, 'edge_knots_'):      # (given by the user?, knots)
            kn = '(Some (%s, %s))' % (coq_bool(bool(getattr(t, '_edge_knots_given', False))),
                                      nums([float(x) for x in np.asarray(t.edge_knots_, dtype=float).ravel()]))
        rec = '(mkS %s %s %s %s %s %s %s %s %s %s %s)' % (
            z(t.feature), z(t.n_splines), z(t.spline_order), nums(t.lam), ostrs(t.penalties), ostrs(t.constraints),
            cstr(t.basis), cstr(t.dtype), oz_coq(t.by), kn, coq_bool(t.verbose))
        if isinstance(t, FactorTerm):
            return '(SF %s %s)' % (rec, cstr(t.coding))
        return '(SS %s)' % rec
    raise ValueError('unsupported term %r' % (t,))


def term_coq(t):
    if t.isintercept:
        return '(TI %s)' % coq_bool(t.verbose)
    if t.istensor:
        return '(TTe %s %s %s)' % (coq_list([simple_coq(m) for m in t._terms]), oz_coq(t.by), coq_bool(t.verbose))
    return '(TS %s)' % simple_coq(t)


def infos_val(terms):
    return coq_vlist([val_coq(t.info) for t in terms])


def status_of(e):
    if isinstance(e, AttributeError):
        return 'EAttr'
    if isinstance(e, TypeError):
        return 'EType'
    if isinstance(e, IndexError):
        return 'EIndex'
    if isinstance(e, ValueError):
        return 'EVal'
    return 'Other:' + type(e).__name__


def vstatus(s):
    return '(VStr %s)' % cstr(s)


# ----------------------------------------------------------------------------- python-side classification
def simple_flags(t, in_tensor=False):
    from pygam.terms import SplineTerm, FactorTerm
    fl = set()
    # only knots GIVEN BY THE USER survive a compile ("fix: a spline term kept the knots of the first data set it was compiled on")
    if isinstance(t, SplineTerm) and hasattr(t, 'edge_knots_') and getattr(t, '_edge_knots_given', False):
        fl.add('knots')
    if isinstance(t, FactorTerm):
        if not (t.spline_order == 0 and t.basis == 'ps' and t.dtype == 'categorical' and t.by is None
                and list(t.constraints) == [None]):
            fl.add('hidden')
    return fl


def term_flags(t):
    if t.isintercept:
        return set()
    if t.istensor:
        fl = set()
        for m in t._terms:
            fl |= simple_flags(m)
        return fl          # a tensor term's `by` is carried through info / build_from_info (repaired S9b): no flag
    return simple_flags(t)


def behaviour(t, X, Xq, coef_seed):
    """columns / penalties / constraints of a (term or term list) compiled on X, evaluated on Xq; exceptions are outcomes"""
    out = []
    try:
        t.compile(X)
    except Exception as e:
        return [('compile', type(e).__name__)]
    for what in ('columns', 'penalties', 'constraints'):
        try:
            if what == 'columns':
                M = t.build_columns(Xq)
            elif what == 'penalties':
                M = t.build_penalties()
            else:
                n = int(t.n_coefs)
                coef = np.random.RandomState(coef_seed).randn(n)
                M = t.build_constraints(coef, 1e9, 1e-3)
            M = M.toarray() if hasattr(M, 'toarray') else np.asarray(M)
            out.append((what, M.shape, M.tobytes()))
        except Exception as e:
            out.append((what, 'EXC', type(e).__name__))
    return out


# ----------------------------------------------------------------------------- generators
def gen_leaves(rng, nf, factor_feats):
    specs = gen_terms.gen_termlist(rng, nf, factor_feats, dyadic=True, max_terms=4, allow_constraints=True, max_n=9)
    # typed lam: sometimes an int instead of the equal float (distinct str(), so distinct de-duplication key)
    for s in specs:
        if 'lam' in s and rng.random() < 0.3:
            s['lam'] = [int(x) if float(x).is_integer() and rng.random() < 0.7 else x for x in s['lam']]
    # plant duplicates
    out = list(specs)
    for _ in range(rng.choice([0, 1, 1, 2, 3])):
        s = copy.deepcopy(rng.choice(specs))
        if rng.random() < 0.25 and 'lam' in s:       # near-duplicate: differs in one setting
            s['lam'] = [x + 1 for x in s['lam']]
        out.insert(rng.randint(0, len(out)), s)
    if rng.random() < 0.3:
        out.insert(rng.randint(0, len(out)), dict(kind='intercept'))
    return out


def build_expr(rng, leaves):
    """random association; returns (python object, coq expr, list of leaf objects in left-to-right order)"""
    from pygam.terms import TermList
    objs = [gen_terms.build_term(s) for s in leaves]
    items = [(o, '(ELeaf %s)' % term_coq(o)) for o in objs]
    while len(items) > 1:
        if len(items) >= 3 and rng.random() < 0.2:
            i = rng.randint(0, len(items) - 3)
            k = rng.randint(3, min(4, len(items) - i))
            grp = items[i:i + k]
            items[i:i + k] = [(TermList(*[g[0] for g in grp]), '(EList %s)' % coq_list([g[1] for g in grp]))]
        else:
            i = rng.randint(0, len(items) - 2)
            a, b = items[i], items[i + 1]
            items[i:i + 2] = [(a[0] + b[0], '(EAdd %s %s)' % (a[1], b[1]))]
    obj, ce = items[0]
    if not isinstance(obj, TermList):
        obj = TermList(obj)
        ce = '(EList [%s])' % ce
    return obj, ce, objs


def flat(v):
    from pygam.utils import flatten
    r = flatten(v)
    return r if isinstance(r, list) else [r]


def gen_value(rng, name, size, bad=0.08):
    def atom():
        r = rng.random()
        if name == 'lam':
            if r < bad / 2:
                return -1.0
            return rng.choice([rng.randint(0, 9), gen_terms.dyadic_lam(rng)])
        if name == 'n_splines':
            return rng.randint(1, 4) if r < bad else rng.randint(5, 12)
        if name == 'spline_order':
            return rng.randint(0, 3)
        if name == 'penalties':
            return 'bogus' if r < bad / 2 else rng.choice(gen_terms.PEN_NAMES)
        if name == 'constraints':
            return 'bogus' if r < bad / 2 else rng.choice(gen_terms.CON_NAMES)
        if name == 'basis':
            return rng.choice(['ps', 'cp', 'ps', 'xx'] if r < bad else ['ps', 'cp'])
        if name == 'dtype':
            return rng.choice(['numerical', 'categorical'])
        raise ValueError(name)
    r = rng.random()
    if r < 0.3:
        return atom(), 'scalar'
    n = size
    kind = 'list'
    if r < 0.45:
        n = max(0, size + rng.choice([-2, -1, 1, 2]))
        kind = 'wrong_length'
    vals = [atom() for _ in range(n)]
    if rng.random() < 0.3 and n >= 2:      # random nesting: flatten() must see through it
        i = rng.randint(0, n - 2)
        j = rng.randint(i + 1, n)
        vals = vals[:i] + [vals[i:j]] + vals[j:]
    return vals, kind


def ncat_of(X, factor_feats):
    return {j: len(np.unique(X[:, j])) for j in range(X.shape[1])}


# ----------------------------------------------------------------------------- term-list programs (CProg)
def prog_cases(res, rng, count):
    from pygam.terms import TermList
    cases, meta = [], []
    for i in range(count):
        nf = rng.randint(1, 4)
        factor_feats = tuple(j for j in range(nf) if rng.random() < 0.3)
        leaves = gen_leaves(rng, nf, factor_feats)
        try:
            tl, ce, objs = build_expr(rng, leaves)
        except Exception as e:
            res.violations.append(dict(what='building a term expression raised', finding=None, input=dict(leaves=leaves),
                                       observed='%s: %s' % (type(e).__name__, e), expected='a TermList'))
            continue
        trace = [infos_val(tl._terms)]
        ops, oplog = [], []
        X = gen_terms.gen_X(rng, 14, nf, factor_feats)
        for _ in range(rng.choice([0, 1, 2, 3, 4, 5])):
            r = rng.random()
            if r < 0.55:
                name = rng.choice(PLURAL_NAMES if rng.random() < 0.85 else ['lam', 'penalties'])
                size = len(flat(getattr(tl, name)))
                v, kind = gen_value(rng, name, size)
                ops.append('(OpSet %s %s)' % (cstr(name), val_coq(v)))
                oplog.append(dict(op='set', name=name, value=v, kind=kind))
                res.count('prog_set:%s' % kind)
                try:
                    setattr(tl, name, copy.deepcopy(v))
                    trace += [vstatus('Ok'), infos_val(tl._terms)]
                except Exception as e:
                    trace.append(vstatus(status_of(e)))
                    res.count('prog_set_status:%s' % status_of(e))
                    break
            elif r < 0.85:
                name = rng.choice(PLURAL_NAMES)
                ops.append('(OpGet %s)' % cstr(name))
                oplog.append(dict(op='get', name=name))
                trace.append(val_coq(getattr(tl, name)))
            else:
                try:
                    tl.compile(X)
                except Exception as e:
                    break
                nc = ncat_of(X, factor_feats)
                ops.append('(OpCompile %s)' % coq_list(['(%s, %s)' % (z(j), z(c)) for j, c in sorted(nc.items())]))
                oplog.append(dict(op='compile'))
                trace.append(infos_val(tl._terms))
        cases.append('(CProg %s %s %s)' % (ce, coq_list(ops), coq_list(trace)))
        meta.append(dict(kind='prog', leaves=leaves, expr=ce if len(ce) < 600 else ce[:600] + '...', ops=oplog))
        res.count('prog_terms:%d' % len(tl))
    return cases, meta


# ----------------------------------------------------------------------------- model-level programs (CGam)
def gam_cases(res, rng, count):
    from pygam import LinearGAM, GAM, PoissonGAM
    from pygam.terms import SplineTerm, TermList
    cases, meta = [], []
    for i in range(count):
        nf = rng.randint(1, 3)
        factor_feats = tuple(j for j in range(nf) if rng.random() < 0.25)
        auto = rng.random() < 0.3
        kwargs = {}
        leaves = None
        if auto:
            terms = 'auto'
            nterm_vals = nf
        else:
            leaves = gen_leaves(rng, nf, factor_feats)
            terms, _, _ = build_expr(rng, leaves)
        for name in rng.sample(['lam', 'n_splines', 'spline_order', 'penalties', 'constraints'], rng.choice([0, 0, 1, 1, 2])):
            size = nf if auto else len(flat(getattr(terms, name)))
            v, kind = gen_value(rng, name, size, bad=0.03)
            if kind == 'wrong_length' and rng.random() < 0.7:
                v, kind = gen_value(rng, name, size, bad=0.0)
            kwargs[name] = v
        fit_intercept = rng.random() < 0.8
        cls = rng.choice([LinearGAM, LinearGAM, GAM, PoissonGAM])
        try:
            g = cls(terms, fit_intercept=fit_intercept, **copy.deepcopy(kwargs))
        except Exception as e:
            res.violations.append(dict(what='model constructor raised on plural keywords', finding=None,
                                       input=dict(leaves=leaves, kwargs=kwargs), observed='%s: %s' % (type(e).__name__, e),
                                       expected='a model object'))
            continue
        pending = [(k, g.__dict__[k]) for k in g.__dict__ if k in g._plural]
        g0 = '(mkG %s %s %s)' % ('None' if auto else '(Some %s)' % coq_list([term_coq(t) for t in g.terms._terms]),
                                 coq_list(['(%s, %s)' % (cstr(k), val_coq(v)) for k, v in pending]), coq_bool(fit_intercept))
        X = gen_terms.gen_X(rng, 14, nf, factor_feats)
        ops, trace, oplog = [], [], []

        def ginfos():
            t = g.terms
            return infos_val(t._terms) if isinstance(t, TermList) else 'VNone'
        for _ in range(rng.choice([1, 2, 3, 4, 5])):
            r = rng.random()
            has_terms = isinstance(g.terms, TermList) and len(g.terms) > 0
            if r < 0.35:
                name = rng.choice(['lam', 'n_splines', 'spline_order', 'penalties', 'constraints'])
                size = len(flat(getattr(g.terms, name))) if has_terms else nf
                v, kind = gen_value(rng, name, size, bad=0.03)
                via = rng.random() < 0.5
                force = rng.random() < 0.25
                oplog.append(dict(op='set_params' if via else 'setattr', name=name, value=v, force=force))
                try:
                    if via:
                        ops.append('(GSetParams %s %s %s)' % (cstr(name), val_coq(v), coq_bool(force)))
                        g.set_params(force=force, **{name: copy.deepcopy(v)})
                    else:
                        ops.append('(GSet %s %s)' % (cstr(name), val_coq(v)))
                        setattr(g, name, copy.deepcopy(v))
                    trace += [vstatus('Ok'), ginfos()]
                except Exception as e:
                    trace.append(vstatus(status_of(e)))
                    break
            elif r < 0.7:
                name = rng.choice(['lam', 'n_splines', 'spline_order', 'penalties', 'constraints'])
                ops.append('(GGet %s)' % cstr(name))
                oplog.append(dict(op='get', name=name))
                try:
                    trace.append(val_coq(getattr(g, name)))
                except AttributeError:
                    trace.append(vstatus('EAttr'))
            else:
                autos = [SplineTerm(j, verbose=g.verbose) for j in range(nf)]
                nc = ncat_of(X, factor_feats)
                ops.append('(GFit %s %s)' % (coq_list([term_coq(t) for t in autos]),
                                            coq_list(['(%s, %s)' % (z(j), z(c)) for j, c in sorted(nc.items())])))
                oplog.append(dict(op='fit_terms'))
                try:
                    g._validate_params()
                    g._validate_data_dep_params(X)
                    trace += [vstatus('Ok'), ginfos()]
                except Exception as e:
                    trace.append(vstatus(status_of(e)))
                    res.count('gam_fit_status:%s' % status_of(e))
                    break
        cases.append('(CGam %s %s %s)' % (g0, coq_list(ops), coq_list(trace)))
        meta.append(dict(kind='gam', leaves=leaves, kwargs=kwargs, fit_intercept=fit_intercept, ops=oplog))
        res.count('gam_terms:%s' % ('auto' if auto else 'expr'))
    return cases, meta


# ----------------------------------------------------------------------------- info round trip (CInfo) + behaviour
def perturb(rng, tl, X):
    """bring a term list into one of the states the property quantifies over: custom knots come from the spec; here:
    plural assignments (may reach hidden attributes) and an earlier fit (compile on other data)"""
    hist = []
    if rng.random() < 0.35:
        name = rng.choice(['spline_order', 'basis', 'constraints', 'dtype', 'lam', 'n_splines'])
        size = len(flat(getattr(tl, name)))
        v, _ = gen_value(rng, name, size, bad=0.0)
        if isinstance(v, list) and len(flat(v)) != size:
            v = flat(v)[:1] * size if flat(v) else None
        if v is not None or name in ('penalties', 'constraints'):
            try:
                setattr(tl, name, copy.deepcopy(v))
                hist.append(dict(op='set', name=name, value=v))
            except Exception:
                # a rejected assignment leaves the terms partly modified (and possibly invalid); such states are not used here
                return None
    if rng.random() < 0.2:
        try:
            tl.compile(X)
            hist.append(dict(op='compile-on-other-data'))
        except Exception:
            pass
    return hist


def info_cases(res, rng, count):
    from pygam.terms import Term, TermList
    cases, meta = [], []
    for i in range(count):
        nf = rng.randint(2, 4)
        factor_feats = tuple(j for j in range(nf) if rng.random() < 0.3)
        specs = gen_terms.gen_termlist(rng, nf, factor_feats, dyadic=True, max_terms=3, allow_constraints=True, max_n=8)
        if nf >= 3 and rng.random() < 0.35:          # make sure tensor terms are well represented ...
            te_spec = gen_terms.gen_tensor(rng, nf, factor_feats, dyadic=True, allow_constraints=True)
            if te_spec is not None:
                specs.insert(rng.randint(0, len(specs)), te_spec)
        for s in specs:
            if s['kind'] == 's' and rng.random() < 0.25:
                a = rng.uniform(-5, 0)
                s['edge_knots'] = [a, a + rng.uniform(1, 8)]
            if s['kind'] == 'te' and s.get('by') is None and rng.random() < 0.6:      # ... and that many carry a by-variable
                used = {m['feature'] for m in s['margins']}
                rest = [j for j in range(nf) if j not in used and j not in factor_feats]
                if rest:
                    s['by'] = rng.choice(rest)
            if s['kind'] == 'te':
                res.count('info_tensor:%s' % ('by' if s.get('by') is not None else 'no-by'))
        try:
            tl = gen_terms.build_termlist(specs)
        except Exception as e:
            res.violations.append(dict(what='building a term list raised', finding=None, input=dict(specs=specs),
                                       observed='%s: %s' % (type(e).__name__, e), expected='a TermList'))
            continue
        Xa = gen_terms.gen_X(rng, 16, nf, factor_feats, scale=1.0)
        X = gen_terms.gen_X(rng, 16, nf, factor_feats, scale=1.0)
        Xq = X[rng.sample(range(16), 6)] * 1.0
        for j in range(nf):
            if j not in factor_feats:
                Xq[:, j] = X[:, j].min() + (X[:, j].max() - X[:, j].min()) * np.array([rng.random() for _ in range(6)])
        hist = perturb(rng, tl, Xa)
        if hist is None:
            res.count('info_perturbation_rejected')
            tl = gen_terms.build_termlist(specs)
            hist = []
        coef_seed = rng.randrange(1 << 30)
        # --- per term: Coq case + behaviour comparison
        for k, t in enumerate(tl._terms):
            flags = term_flags(t)
            info = t.info
            try:
                rb = Term.build_from_info(info)
                rebuilt_info = val_coq(rb.info)
            except Exception as e:
                rb, rebuilt_info = None, 'VNone'
            try:
                tc = term_coq(t)
            except ValueError:
                continue
            cases.append('(CInfo %s %s %s %s)' % (tc, val_coq(info), rebuilt_info, coq_bool(not flags)))
            meta.append(dict(kind='info', specs=specs, history=hist, term_index=k, flags=sorted(flags)))
            res.count('info_flags:%s' % ('+'.join(sorted(flags)) or 'none'))
            ref = behaviour(copy.deepcopy(t), X, Xq, coef_seed)
            variants = {'deepcopy': lambda: copy.deepcopy(t), 'pickle': lambda: pickle.loads(pickle.dumps(t))}
            if rb is not None:
                variants['build_from_info'] = lambda: rb
            for vname, mk in variants.items():
                try:
                    got = behaviour(mk(), X, Xq, coef_seed)
                except Exception as e:
                    got = [('raised', type(e).__name__)]
                same = got == ref
                res.case(('behav', i, k, vname), nontrivial=True,
                         sample=dict(variant=vname, term=repr(t), flags=sorted(flags)) if (i, k) == (3, 0) else None)
                if same:
                    continue
                diff = [a[0] for a, b in zip(ref, got) if a != b] or ['outcome']
                finding = None
                if vname == 'build_from_info':
                    finding = rebuilt_finding(flags, diff)
                res.violations.append(dict(
                    what='%s of a term does not reproduce its %s' % (vname, '/'.join(diff)), finding=finding,
                    input=dict(specs=specs, history=hist, term_index=k, info=repr(info), flags=sorted(flags)),
                    observed='different ' + '/'.join(diff), expected='identical columns, penalties and constraints'))
            if rb is None:
                res.violations.append(dict(what='Term.build_from_info(term.info) raised', finding=None,
                                           input=dict(specs=specs, history=hist, term_index=k, info=repr(info)),
                                           observed='exception', expected='a term'))
        # --- whole list: TermList.build_from_info, deepcopy, pickle
        flags = set()
        for t in tl._terms:
            flags |= term_flags(t)
        ref = behaviour(copy.deepcopy(tl), X, Xq, coef_seed)
        for vname, mk in (('deepcopy', lambda: copy.deepcopy(tl)), ('pickle', lambda: pickle.loads(pickle.dumps(tl))),
                          ('build_from_info', lambda: TermList.build_from_info(tl.info))):
            try:
                got = behaviour(mk(), X, Xq, coef_seed)
            except Exception as e:
                got = [('raised', type(e).__name__)]
            res.case(('behav-list', i, vname))
            if got != ref:
                finding = None
                if vname == 'build_from_info':
                    finding = rebuilt_finding(flags, [a[0] for a, b in zip(ref, got) if a != b] or ['outcome'])
                res.violations.append(dict(what='%s of a term list does not reproduce its columns/penalties/constraints' % vname,
                                           finding=finding, input=dict(specs=specs, history=hist, flags=sorted(flags)),
                                           observed='different', expected='identical'))
    return cases, meta


def rebuilt_finding(flags, diff):
    """which listed defect explains that an object rebuilt from info behaves differently: hidden factor attributes can change
    anything; dropped edge knots only the columns (penalties and constraints do not depend on knots)"""
    if 'hidden' in flags:
        return FINDINGS['hidden']
    if 'knots' in flags and set(diff) <= {'columns'}:
        return FINDINGS['knots']
    return None


# ----------------------------------------------------------------------------- uses interleaved with assignments
def fresh_like(t):
    """a NEW object constructed directly with the settings t has now (nothing was ever built from it)"""
    from pygam.terms import Intercept, LinearTerm, SplineTerm, FactorTerm, TensorTerm
    if t.isintercept:
        return Intercept(verbose=t.verbose)
    if t.istensor:
        return TensorTerm(*[fresh_like(m) for m in t._terms], by=t.by, verbose=t.verbose)
    if isinstance(t, LinearTerm):
        r = LinearTerm(t.feature, lam=list(t.lam), penalties=list(t.penalties), verbose=t.verbose)
        hidden = ('dtype', 'constraints')
    elif isinstance(t, FactorTerm):
        r = FactorTerm(t.feature, lam=list(t.lam), penalties=list(t.penalties), coding=t.coding, verbose=t.verbose)
        hidden = ('dtype', 'spline_order', 'by', 'n_splines', 'basis', 'constraints')
    else:
        ek = None          # knots are a setting only when the user gave them; otherwise every compile regenerates them
        if hasattr(t, 'edge_knots_') and getattr(t, '_edge_knots_given', False):
            ek = [float(x) for x in np.asarray(t.edge_knots_).ravel()]
        r = SplineTerm(t.feature, n_splines=t.n_splines, spline_order=t.spline_order, lam=list(t.lam),
                       penalties=list(t.penalties), constraints=list(t.constraints), dtype=t.dtype, basis=t.basis, by=t.by,
                       edge_knots=ek, verbose=t.verbose)
        hidden = ()
    for h in hidden:          # attributes the constructor does not take
        setattr(r, h, copy.deepcopy(getattr(t, h)))
    return r


def assemble(terms):
    """a TermList holding exactly these term objects (no de-duplication: assignments can make two terms equal)"""
    from pygam.terms import TermList
    tl = TermList()
    tl._terms = list(terms)
    return tl


def simple_terms_of(tl):
    out = []
    for t in tl._terms:
        if t.isintercept:
            continue
        out += list(t._terms) if t.istensor else [t]
    return out


def random_assignment(rng, tl, nf, factor_feats, owner=None):
    """one hyper-parameter assignment on the term list / one of its terms / the model that owns it.
    Returns (description, callable)."""
    from pygam.terms import SplineTerm, FactorTerm, LinearTerm
    target = owner if owner is not None else tl
    r = rng.random()
    if r < 0.5:
        name = rng.choice(['penalties', 'penalties', 'lam', 'constraints', 'basis', 'dtype', 'n_splines', 'spline_order'])
        size = len(flat(getattr(tl, name)))
        v, _ = gen_value(rng, name, size, bad=0.0)
        if isinstance(v, list) and len(flat(v)) != size:
            v = (flat(v)[:1] or [None])[0]
        if name == 'n_splines':
            v = 9 if not isinstance(v, list) else v
        via = rng.choice(['setattr', 'set_params'])
        who = 'model' if owner is not None else 'termlist'
        if via == 'setattr':
            return dict(on=who, via=via, name=name, value=v), (lambda: setattr(target, name, copy.deepcopy(v)))
        return dict(on=who, via=via, name=name, value=v), (lambda: target.set_params(**{name: copy.deepcopy(v)}))
    simples = simple_terms_of(tl)
    tensors = [t for t in tl._terms if t.istensor]
    if tensors and r < 0.56:
        t = rng.choice(tensors)
        rest = [j for j in range(nf) if j not in [m.feature for m in t._terms] and j not in factor_feats]
        v = rng.choice(rest + [None]) if rest else None
        return dict(on='tensor term', via='setattr', name='by', value=v, term=repr(t)), (lambda: setattr(t, 'by', v))
    if not simples:
        return dict(on='nothing'), (lambda: None)
    t = rng.choice(simples)
    names = ['penalties', 'penalties', 'lam']
    if isinstance(t, SplineTerm) and not isinstance(t, FactorTerm):
        names += ['constraints', 'basis', 'dtype', 'n_splines', 'spline_order', 'by']
    name = rng.choice(names)
    if name == 'penalties':
        v = [rng.choice(gen_terms.PEN_NAMES) for _ in t.penalties]
    elif name == 'lam':
        v = [rng.choice([rng.randint(0, 9), gen_terms.dyadic_lam(rng)]) for _ in t.lam]
    elif name == 'constraints':
        v = [rng.choice(gen_terms.CON_NAMES) for _ in t.constraints]
    elif name == 'basis':
        v = rng.choice(['ps', 'cp'])
    elif name == 'dtype':
        v = rng.choice(['numerical', 'categorical'])
    elif name == 'n_splines':
        v = rng.randint(max(5, t.spline_order + 1), 11)
    elif name == 'spline_order':
        v = rng.randint(0, min(3, t.n_splines - 1))
    else:
        rest = [j for j in range(nf) if j != t.feature and j not in factor_feats]
        v = rng.choice(rest + [None]) if rest else None
    via = rng.choice(['setattr', 'set_params'])
    d = dict(on='term', via=via, name=name, value=v, term=repr(t))
    if via == 'setattr':
        return d, (lambda: setattr(t, name, copy.deepcopy(v)))
    return d, (lambda: t.set_params(**{name: copy.deepcopy(v)}))


def use_assign_cases(res, rng, count):
    """USE (compile, build_columns / build_penalties / build_constraints, fit) -- ASSIGN -- USE ...: after every accepted
    assignment the object must behave, bitwise, like (a) fresh objects constructed with its current settings, (b) the terms rebuilt
    from their current info, (c) its deep copy and its pickle; and its penalty must be the model's penalty_now of its state."""
    from pygam import LinearGAM
    from pygam.terms import Term, TermList
    cases, meta = [], []
    for i in range(count):
        nf = rng.randint(1, 4)
        factor_feats = tuple(j for j in range(nf) if rng.random() < 0.3)
        specs = gen_terms.gen_termlist(rng, nf, factor_feats, dyadic=True, max_terms=3, allow_constraints=True, max_n=8,
                                       intercept=False)
        try:
            tl = gen_terms.build_termlist(specs)
        except Exception:
            continue
        X = gen_terms.gen_X(rng, 24, nf, factor_feats, scale=1.0)
        Xq = X[rng.sample(range(24), 6)] * 1.0
        coef_seed = rng.randrange(1 << 30)
        model_mode = rng.random() < 0.4
        hist = []
        owner = None
        if model_mode:
            y = np.random.RandomState(rng.randrange(1 << 30)).randn(24)
            owner = LinearGAM(tl, fit_intercept=rng.random() < 0.7)
            try:
                owner.fit(X, y)
                hist.append('model = LinearGAM(terms).fit(X, y)')
            except Exception as e:
                res.count('use_assign_fit_raised:%s' % type(e).__name__)
                continue
            tl = owner.terms
        first = behaviour(tl, X, Xq, coef_seed)          # first USE, on the object itself
        hist.append('compile(X); build_columns / build_penalties / build_constraints')
        if any(part[1] == 'EXC' or part[0] == 'compile' for part in first):
            res.count('use_assign_first_use_raised')
            continue
        for rnd in range(rng.randint(1, 4)):
            desc, do = random_assignment(rng, tl, nf, factor_feats, owner)
            try:
                do()
                if desc.get('via') == 'setattr' and desc.get('on') in ('term', 'tensor term'):
                    pass          # plain attribute assignment of a well-formed value: no validation needed
            except Exception as e:
                hist.append(dict(desc, raised=type(e).__name__))
                res.count('use_assign_assignment_raised:%s' % type(e).__name__)
                break
            hist.append(desc)
            res.count('use_assign:%s/%s/%s' % (desc.get('on'), desc.get('via'), desc.get('name')))
            if owner is not None and rng.random() < 0.4:
                try:
                    owner.fit(X, y)          # a refit is a use, too
                    hist.append('model.fit(X, y)')
                    tl = owner.terms
                except Exception as e:
                    res.count('use_assign_refit_raised:%s' % type(e).__name__)
                    break
            ref = behaviour(tl, X, Xq, coef_seed)      # USE after the assignment, on the object itself
            if ref and ref[0][0] == 'compile':
                break
            flags = set()
            for t in tl._terms:
                flags |= term_flags(t)
            if len({str(sorted(t.info.items())) for t in tl._terms}) < len(tl._terms):
                res.count('use_assign_terms_became_equal')
            variants = [('fresh objects constructed with the current settings', lambda: assemble([fresh_like(t) for t in tl._terms])),
                        ('deepcopy', lambda: copy.deepcopy(tl)),
                        ('pickle', lambda: pickle.loads(pickle.dumps(tl))),
                        ('terms rebuilt from their current info', lambda: assemble([Term.build_from_info(t.info) for t in tl._terms])),
                        ('terms rebuilt from their pickled info',
                         lambda: assemble([Term.build_from_info(pickle.loads(pickle.dumps(t.info))) for t in tl._terms]))]
            for vname, mk in variants:
                try:
                    got = behaviour(mk(), X, Xq, coef_seed)
                except Exception as e:
                    got = [('raised', type(e).__name__)]
                res.case(('use-assign', i, rnd, vname), nontrivial=True,
                         sample=dict(stage='use/assign', history=hist[-2:], variant=vname) if (i, rnd, vname) == (2, 0, 'deepcopy') else None)
                if got == ref:
                    continue
                diff = [a[0] for a, b in zip(ref, got) if a != b] or ['outcome']
                finding = rebuilt_finding(flags, diff) if vname.startswith('terms rebuilt') else None
                res.violations.append(dict(
                    what='after use / assignment / use, the %s of the object differ from %s' % ('/'.join(diff), vname),
                    finding=finding, input=dict(specs=specs, model_level=model_mode, history=list(hist), flags=sorted(flags)),
                    observed='different ' + '/'.join(diff), expected='bitwise identical columns, penalties and constraints'))
            # the model's penalty of the current state
            pen = [part for part in ref if part[0] == 'penalties']
            if pen and pen[0][1] != 'EXC' and pen[0][1][0] <= 70:
                try:
                    ts = coq_list([term_coq(t) for t in tl._terms])
                except ValueError:
                    continue
                M = np.frombuffer(pen[0][2], dtype=float).reshape(pen[0][1])
                cases.append('(CPenalty %s (QArith_base.Qmake 1%%Z 1000000000000%%positive) %s)' % (
                    ts, coq_list([coq_list([common.dylit(x) for x in row]) for row in M])))
                meta.append(dict(kind='penalty', specs=specs, model_level=model_mode, history=list(hist)))
    return cases, meta


# ----------------------------------------------------------------------------- get_params / set_params (CAccept)
class _Sentinel(object):
    pass


def accept_cases(res, rng, count):
    from pygam import LinearGAM, GAM
    from pygam.terms import TermList
    cases, meta = [], []
    rs = np.random.RandomState(3)
    Xf = rs.rand(20, 2)
    yf = rs.rand(20)
    fitted = LinearGAM(n_splines=5).fit(Xf, yf)
    for i in range(count):
        r = rng.random()
        if r < 0.55:
            nf = 3
            spec = rng.choice(gen_terms.gen_termlist(rng, nf, (2,), max_terms=3, allow_tensor=False, intercept=True))
            o = gen_terms.build_term(spec)
            if rng.random() < 0.3 and not o.isintercept:
                o.compile(gen_terms.gen_X(rng, 10, nf, (2,)))
            descr = repr(spec)
            plural_guard = False
        else:
            o = copy.deepcopy(fitted) if rng.random() < 0.5 else rng.choice([LinearGAM, GAM])(lam=rng.choice([1, 2.5]))
            descr = 'fitted LinearGAM' if hasattr(o, 'coef_') else 'unfitted model'
            plural_guard = True
        keys = list(o.__dict__.keys())
        pool = keys + ['foo', 'bar_', '_baz', 'compile', 'predict', 'get_params', 'coef_', 'statistics_',
                       'edge_knots_', 'terms', 'max_iter', 'zzz']
        k = rng.choice(pool)
        if k in ('deep', 'force', 'self') or (plural_guard and k in o._plural):
            continue
        deep = rng.random() < 0.25
        force = rng.random() < 0.25
        public_keys = list(o.get_params().keys())
        o2 = copy.deepcopy(o)
        sent = _Sentinel()
        try:
            o2.set_params(deep=deep, force=force, **{k: sent})
        except Exception as e:
            res.violations.append(dict(what='set_params raised', finding=None, input=dict(obj=descr, name=k, deep=deep, force=force),
                                       observed='%s: %s' % (type(e).__name__, e), expected='accept or ignore'))
            continue
        accepted = o2.__dict__.get(k) is sent
        others_same = all((kk in o2.__dict__) for kk in keys) and set(o2.__dict__) - set(keys) <= {k}
        class_names = [n for n in dir(type(o)) if n not in o.__dict__]
        cobj = '(mkO %s %s %s)' % (coq_list(['(%s, VNone)' % cstr(a) for a in keys]), coq_list([cstr(a) for a in o._exclude]),
                                   coq_list([cstr(a) for a in class_names]))
        cases.append('(CAccept %s %s %s %s %s %s)' % (cobj, coq_bool(deep), coq_bool(force), cstr(k), coq_bool(accepted),
                                                     coq_list([cstr(a) for a in public_keys])))
        m = dict(kind='accept', obj=descr, name=k, deep=deep, force=force, accepted=bool(accepted))
        meta.append(m)
        res.count('accept:%s' % ('accepted' if accepted else 'ignored'))
        # the property statement, directly: an unknown name is ignored unless forced; a forced name is set
        has = hasattr(o, k)
        if (not has and not force and accepted) or (force and not accepted) or not others_same:
            res.violations.append(dict(what='set_params: unknown name not ignored / forced name not set / other attributes touched',
                                       finding=None, input=m, observed=dict(accepted=bool(accepted)),
                                       expected='ignored unless forced'))
        # round trip of the public hyper-parameters
        o3 = copy.deepcopy(o)
        before = repr(sorted((kk, repr(vv)) for kk, vv in o3.get_params().items() if kk != 'terms' and kk != 'callbacks'))
        o3.set_params(**o3.get_params())
        after = repr(sorted((kk, repr(vv)) for kk, vv in o3.get_params().items() if kk != 'terms' and kk != 'callbacks'))
        if before != after:
            res.violations.append(dict(what='set_params(**get_params()) changed the parameters', finding=None, input=m,
                                       observed=after, expected=before))
    return cases, meta


# ----------------------------------------------------------------------------- direct probes of the property statement
def direct_probes(res, rng, count):
    from pygam import LinearGAM
    from pygam.terms import TermList, LinearTerm, TensorTerm
    for i in range(count):
        nf = rng.randint(1, 4)
        factor_feats = tuple(j for j in range(nf) if rng.random() < 0.3)
        # --- associativity, order, first-occurrence de-duplication (object identity)
        leaves = gen_leaves(rng, nf, factor_feats)
        objs = [gen_terms.build_term(s) for s in leaves]
        if len(objs) >= 3:
            c1 = rng.randint(1, len(objs) - 2)
            c2 = rng.randint(c1 + 1, len(objs) - 1)
            A, B, C = TermList(*objs[:c1]), TermList(*objs[c1:c2]), TermList(*objs[c2:])
            left, right = (A + B) + C, A + (B + C)
            expect, seen = [], []
            for o in objs:
                key = str(sorted(o.info.items()))
                if key not in seen:
                    seen.append(key)
                    expect.append(o)
            ok = (len(left) == len(right) == len(expect) and all(a is b for a, b in zip(left._terms, right._terms))
                  and all(a is b for a, b in zip(left._terms, expect)))
            res.case(('probe-assoc', i), sample=dict(probe='assoc', leaves=len(objs), kept=len(expect)) if i == 0 else None,
                     nontrivial=len(expect) < len(objs) or len(objs) >= 3)
            res.count('probe_assoc_dups:%d' % (len(objs) - len(expect)))
            if not ok:
                res.violations.append(dict(what='(a+b)+c != a+(b+c), or order / first-occurrence de-duplication broken', finding=None,
                                           input=dict(leaves=leaves, cuts=[c1, c2]),
                                           observed=dict(left=repr(left), right=repr(right)),
                                           expected=' + '.join(repr(o) for o in expect)))
        # --- plural set / get on a term list
        tl = TermList(*[gen_terms.build_term(s) for s in leaves])
        name = rng.choice(PLURAL_NAMES[:5])
        size = len(flat(getattr(tl, name)))
        v, kind = gen_value(rng, name, size, bad=0.0)
        if name == 'spline_order':
            v = 0 if not isinstance(v, list) else [0 if not isinstance(x, list) else [0] * len(x) for x in v]
        if name == 'n_splines':
            v = 12 if not isinstance(v, list) else [12 if not isinstance(x, list) else [12] * len(x) for x in v]
        simple_terms = [m for t in tl._terms if not t.isintercept for m in (t._terms if t.istensor else [t])]
        has_linear = any(isinstance(m, LinearTerm) for m in simple_terms)
        ragged = name in ('lam', 'penalties', 'constraints') and any(
            t.istensor and len({len(getattr(m, name)) for m in t._terms}) > 1 for t in tl._terms)
        before = [repr(t.info) for t in tl._terms]
        m = dict(leaves=leaves, name=name, value=v)
        res.case(('probe-plural', i, kind), nontrivial=size > 1)
        try:
            setattr(tl, name, copy.deepcopy(v))
            raised = None
        except Exception as e:
            raised = e
        if kind == 'wrong_length':
            if not isinstance(raised, ValueError) or [repr(t.info) for t in tl._terms] != before:
                res.violations.append(dict(what='plural value of wrong length not rejected with ValueError (or terms were modified)',
                                           finding=None, input=m, observed=repr(raised), expected='ValueError, terms unchanged'))
            continue
        expected = flat(v) if isinstance(v, list) else [v] * size
        if raised is not None:
            finding = None
            if isinstance(raised, AttributeError) and has_linear and name in SPLINE_ONLY:
                finding = FINDINGS['missing_attr']
            elif isinstance(raised, ValueError) and ragged and 'inhomogeneous' in str(raised):
                finding = FINDINGS['ragged']
            res.violations.append(dict(what='valid plural assignment of the right length raised', finding=finding, input=m,
                                       observed='%s: %s' % (type(raised).__name__, raised), expected='values distributed to the terms'))
            continue
        got = flat(getattr(tl, name))
        if got != expected or [type(a) for a in got] != [type(a) for a in expected]:
            res.violations.append(dict(what='plural attribute does not read back as set', finding=None, input=m,
                                       observed=got, expected=expected))
        # in order: term k holds its slice
        pos = 0
        for t in tl._terms:
            if t.isintercept:
                continue
            mine = flat(getattr(t, name))
            if mine != expected[pos:pos + len(mine)]:
                res.violations.append(dict(what='plural values not distributed to the terms in order', finding=None, input=m,
                                           observed=dict(term=repr(t), got=mine), expected=expected[pos:pos + len(mine)]))
                break
            pos += len(mine)
    # --- model level: set / read back / fit hand-over (fixed shapes, random values)
    rs = np.random.RandomState(rng.randrange(1 << 30))
    X = rs.rand(24, 2)
    y = rs.rand(24)
    for i in range(max(4, count // 10)):
        from pygam import s
        a, b = [rng.randint(1, 9), rng.randint(1, 9)], [rng.randint(10, 19), rng.randint(10, 19)]
        # no constructor keyword: assignment reads back and survives fit
        g = LinearGAM(s(0, n_splines=5) + s(1, n_splines=5))
        g.lam = list(b)
        ok1 = flat(g.lam) == b
        g.fit(X, y)
        ok2 = flat(g.lam) == b
        res.case(('probe-model-plain', i))
        if not (ok1 and ok2):
            res.violations.append(dict(what='model.lam = v does not read back / survive fit', finding=None,
                                       input=dict(terms='s(0)+s(1)', assigned=b), observed=flat(g.lam), expected=b))
        # constructor keyword then assignment
        for via in ('setattr', 'set_params'):
            g = LinearGAM(s(0, n_splines=5) + s(1, n_splines=5), lam=list(a))
            if via == 'setattr':
                g.lam = list(b)
            else:
                g.set_params(lam=list(b))
            r1 = flat(g.lam)
            g.fit(X, y)
            r2 = flat(g.lam)
            res.case(('probe-model-shadow', i, via))
            if r1 != b or r2 != b:
                res.violations.append(dict(
                    what='model-level lam assigned after construction does not read back as set (constructor keyword wins)',
                    finding=FINDINGS['shadow'], input=dict(terms='s(0)+s(1)', constructor_lam=a, assigned=b, via=via),
                    observed=dict(read_back=r1, after_fit=r2), expected=b))
        # set_params on a model with terms='auto'
        g = LinearGAM(n_splines=5)
        g.set_params(lam=b[0])
        g.fit(X, y)
        res.case(('probe-model-auto', i))
        if flat(g.lam) != [b[0], b[0]]:
            res.violations.append(dict(what="set_params(lam=v) on a model with terms='auto' is silently dropped",
                                       finding=FINDINGS['dropped'], input=dict(model='LinearGAM(n_splines=5)', lam=b[0]),
                                       observed=flat(g.lam), expected=[b[0], b[0]]))
        # constructor keywords are distributed in order, scalar broadcast, wrong length rejected
        g = LinearGAM(s(0, n_splines=5) + s(1, n_splines=6), lam=list(a), n_splines=[7, 8]).fit(X, y)
        g2 = LinearGAM(s(0, n_splines=5) + s(1, n_splines=6), lam=a[0]).fit(X, y)
        bad = None
        try:
            LinearGAM(s(0, n_splines=5) + s(1, n_splines=6), lam=[1, 2, 3]).fit(X, y)
        except ValueError:
            bad = 'VE'
        res.case(('probe-model-kwargs', i))
        if [t.lam for t in g.terms if not t.isintercept] != [[a[0]], [a[1]]] or [t.n_splines for t in g.terms if not t.isintercept] != [7, 8] \
                or flat(g2.lam) != [a[0], a[0]] or bad != 'VE':
            res.violations.append(dict(what='constructor plural keywords not distributed in order / broadcast / length-checked',
                                       finding=None, input=dict(lam=a), observed=dict(lam=g.lam, n_splines=g.n_splines, lam2=g2.lam, bad=bad),
                                       expected='in order'))
    # --- a linear term never has a non-zero constraint matrix (behav_simple ignores its hidden constraints / dtype)
    from pygam.terms import LinearTerm as LT
    for cname in gen_terms.CON_NAMES:
        t = LT(0)
        t.constraints = [cname]
        C = t.build_constraints(np.array([1.5]), 1e9, 1e-3)
        C = C.toarray() if hasattr(C, 'toarray') else np.asarray(C)
        res.case(('probe-linear-constraint', cname))
        if np.abs(C).max() != 0:
            res.obligation('correspondence:linear term constraints are void', False, kind='correspondence',
                           detail='LinearTerm with constraints=%r has a non-zero constraint matrix' % cname)


def run(res):
    rng = common.rng_for(res.seed, PROP)
    quick = res.tier == 'quick'
    res.rule = ('(a) random term programs: 2-8 leaf terms (spline/linear/factor/tensor/intercept, valid keyword settings, planted exact and '
                'near duplicates, int-vs-float lam) summed in a random association (binary + and n-ary TermList), then up to 5 '
                'plural assignments / reads / compile, executed on real pyGAM objects and on the Coq model (vm_compute): info of every '
                'term, exception kind and plural read-backs must agree exactly; (b) the same at model level (constructor keywords, '
                'attribute assignment, set_params, fit-time hand-over); (c) info/build_from_info on terms in perturbed states '
                '(custom knots, tensor terms with a by-variable, plural assignment reaching hidden attributes, earlier compile) compared with the model and, '
                'behaviourally (bitwise equal build_columns / build_penalties / build_constraints on random data), original vs '
                'rebuilt vs deepcopy vs pickle; (d) set_params accept/ignore decisions vs the model; (e) the property statement '
                'probed directly (object identity for order/de-duplication, read back as set, in order, wrong length rejected); '
                '(f) USES (compile, build_columns/penalties/constraints, fit) interleaved with ASSIGNMENTS (plural setters and set_params on '
                'term lists and fitted models, attribute assignment / set_params of penalties, lam, constraints, basis, dtype, n_splines, '
                'spline_order, by on single terms): after every accepted assignment the object is compared bitwise with fresh objects '
                'constructed with its current settings, with its terms rebuilt from their (pickled) info, with its deep copy and pickle, '
                'and its penalty matrix with the Coq penalty_now of its current state. '
                'A case is distinct by its seed-derived program; non-trivial when it has >= 2 non-intercept terms or a duplicate.')
    common.standard_prove(res, PROPS_FILE)
    n = (160, 120, 110, 220, 200, 140) if quick else (1600, 1200, 900, 2000, 2000, 1400)
    c1, m1 = prog_cases(res, rng, n[0])
    c2, m2 = gam_cases(res, rng, n[1])
    c3, m3 = info_cases(res, rng, n[2])
    c4, m4 = accept_cases(res, rng, n[3])
    direct_probes(res, rng, n[4])
    c5, m5 = use_assign_cases(res, common.rng_for(res.seed, PROP, 'use-assign'), n[5])
    cases, meta = c1 + c2 + c3 + c4 + c5, m1 + m2 + m3 + m4 + m5
    with common.CaseDir(PROP) as cd:
        failing, errors = common.run_bool_cases(cd, HEADER, cases, 'check_case', shard=60)
    for name, out in errors:
        res.obligation('correspondence-file:' + name, False, detail=out, kind='correspondence')
    for kind, label in (('prog', 'term programs (info, order, plural get/set, exception kinds)'),
                        ('gam', 'model-level plural plumbing and fit-time hand-over'),
                        ('info', 'info / build_from_info and the round-trip guard'),
                        ('accept', 'get_params keys and set_params accept/ignore'),
                        ('penalty', 'build_penalties after interleaved uses and assignments = penalty_now of the current settings')):
        bad = [i for i in failing if meta[i]['kind'] == kind]
        res.obligation('correspondence:C14 %s (model = implementation)' % label, not bad and not errors,
                       detail='failing case indices %s; first: %s' % (bad[:10], repr(meta[bad[0]])[:1500] if bad else ''),
                       kind='correspondence')
    for i, m in enumerate(meta):
        res.case(('case', i), sample=m if i in (2, len(c1) + 1, len(c1) + len(c2) + 2) else None)
    for i in failing[:20]:
        res.violations.append(dict(what='implementation disagrees with the model of terms.py / core.py plumbing (%s case)' % meta[i]['kind'],
                                   finding=None, input=meta[i], observed='trace differs from model trace',
                                   expected='see coq/Model/Terms.v, coq/Model/C14Check.v'))
    res.extra['correspondence_cases'] = len(cases)
    res.extra['tolerances'] = {'info values / plural read-backs / exception kinds': 'exact (floats as exact dyadics, int vs float kept apart)',
                               'columns / penalties / constraints of rebuilt, deep-copied, pickled terms': 'bitwise equality'}
    res.notes.append('deepcopy / pickle are Python run-time behaviour: covered by correspondence (bitwise behavioural comparison) only, '
                     'not by a theorem')
    res.trusted.append('hand-written model coq/Model/Terms.v of terms.py/core.py/pygam.py plumbing, validated by exact trace '
                       'correspondence on every run; callables as penalties/constraints, fit_linear/fit_splines/edge_knots_ as '
                       'plural names, and intercepts inside tensor terms are outside the model')


def replay(res, rp):
    run(res)
