"""C06 -- each family's variance function, deviance, log-density, scale and sampler agree."""
import math
import warnings
from fractions import Fraction

import numpy as np

import common
from common import rlit, rlit_frac

PROP = 'C06'
HEADER = """From Coq Require Import Reals Lra.
From Interval Require Import Tactic.
From PG Require Import Base.Ops Gen.Dists Model.C06Check.
Open Scope R_scope."""
REL = Fraction(1, 10 ** 11)
FAMS = ['NormalDist', 'BinomialDist', 'PoissonDist', 'GammaDist', 'InvGaussDist']


def f32(x):
    return float(np.float32(x))


def mk(fam, scale, levels):
    from pygam import distributions as PD
    if fam == 'NormalDist':
        return PD.NormalDist(scale=scale)
    if fam == 'BinomialDist':
        return PD.BinomialDist(levels=levels)
    if fam == 'PoissonDist':
        return PD.PoissonDist()
    if fam == 'GammaDist':
        return PD.GammaDist(scale=scale)
    return PD.InvGaussDist(scale=scale)


def draw_case(rng, fam):
    """(scale, levels, w, y, mu, mu2): valid (y, mu) incl. boundary responses; scale over 6 orders of magnitude"""
    scale = 1.0 if fam in ('BinomialDist', 'PoissonDist') else float(10 ** rng.uniform(-3, 3))
    if rng.random() < 0.2 and fam not in ('BinomialDist', 'PoissonDist'):
        scale = 1.0
    levels = 1.0
    w = f32(10 ** rng.uniform(-2, 2))
    if fam == 'NormalDist':
        y = rng.uniform(-1, 1) * 10 ** rng.uniform(-3, 4); mu = rng.uniform(-1, 1) * 10 ** rng.uniform(-3, 4); mu2 = mu + rng.uniform(-2, 2)
    elif fam == 'BinomialDist':
        levels = float(rng.choice([1, 1, 2, 5, 10, 40]))
        y = float(rng.choice([0, levels, rng.randint(0, int(levels))]))
        mu = levels * rng.choice([rng.uniform(0.01, 0.99), 10 ** rng.uniform(-12, -1), 1 - 10 ** rng.uniform(-9, -1)])
        mu2 = levels * rng.uniform(0.01, 0.99)
        w = float(rng.choice([1, 1, 2, 3]))
    elif fam == 'PoissonDist':
        y = float(rng.choice([0, 0, 1, 2, rng.randint(0, 50), rng.randint(0, 100000)]))
        mu = 10 ** rng.uniform(-8, 6); mu2 = 10 ** rng.uniform(-3, 4)
        w = float(rng.choice([1, 1, 2, 3]))
    else:
        y = 10 ** rng.uniform(-4, 4); mu = 10 ** rng.uniform(-4, 4); mu2 = 10 ** rng.uniform(-2, 2)
    return scale, levels, w, float(y), float(mu), float(mu2)


def goal(expr, val, extra_abs=0.0):
    tol = REL * (abs(common.frac_of_float(val)) + common.frac_of_float(extra_abs))
    if tol == 0:
        tol = Fraction(1, 10 ** 300)
    return 'Rabs (%s - %s) <= %s' % (expr, rlit(val), rlit_frac(tol))


def args(*xs):
    return ' '.join(rlit(x) for x in xs)


def probe(res, rng, n):
    """the property statement evaluated directly on the implementation (independent of the Coq definitions)"""
    for fam in FAMS:
        for _ in range(n):
            scale, L, w, y, mu, mu2 = draw_case(rng, fam)
            d = mk(fam, scale, L)
            Y, M, W1 = np.array([y]), np.array([mu]), np.array([1.0])
            with np.errstate(all='ignore'):
                dev = float(d.deviance(y=Y, mu=M, scaled=False)[0])
                dev0 = float(d.deviance(y=Y, mu=Y.copy(), scaled=False)[0]) if (fam in ('NormalDist',) or (y > 0 and (fam != 'BinomialDist' or y < L))) else 0.0
                devw = float(d.deviance(y=Y, mu=M, weights=np.array([w]), scaled=False)[0])
                devs = float(d.deviance(y=Y, mu=M, scaled=True)[0])
                V = float(d.V(mu=M)[0]); Vw = float(d.V(mu=M, weights=np.array([w]))[0])
                h = abs(mu) * 1e-6 if fam != 'BinomialDist' else min(mu, L - mu) * 1e-6
                num = (float(d.deviance(y=Y, mu=M + h, scaled=False)[0]) - float(d.deviance(y=Y, mu=M - h, scaled=False)[0])) / (2 * h)
                ana = -2 * (y - mu) / V
                sat = Y.copy()
                gap_ok = True
                if fam == 'NormalDist' or (y > 0 and (fam != 'BinomialDist' or y < L)):
                    gap = 2 * scale * float(d.log_pdf(Y, sat, W1)[0] - d.log_pdf(Y, M, W1)[0])
                    gap_ok = math.isclose(gap, dev, rel_tol=1e-7, abs_tol=1e-9 * (1 + abs(dev)))
                else:
                    gap = None
            bad = []
            if not (dev >= 0):
                bad.append('deviance negative')
            if abs(dev0) > 1e-12:
                bad.append('deviance at y = mu is not zero')
            if not math.isclose(devw, w * dev, rel_tol=1e-12, abs_tol=0) or not math.isclose(Vw, V / w, rel_tol=1e-12):
                bad.append('weights do not multiply the deviance / divide V')
            if not math.isclose(devs, dev / scale, rel_tol=1e-12, abs_tol=0):
                bad.append('scaled deviance is not deviance / scale')
            if (fam != 'BinomialDist' or 1e-4 * L < mu < L * (1 - 1e-4)) and abs(ana) > 1e-6 and not math.isclose(num, ana, rel_tol=1e-3):
                if abs(y - mu) > 1e-3 * abs(mu):
                    bad.append('d deviance / d mu differs from -2 (y - mu) / V(mu)')
            if not gap_ok:
                bad.append('deviance differs from 2 * scale * (logpdf(y; y) - logpdf(y; mu))')
            res.case(('probe', fam, scale, L, y, mu))
            if bad:
                res.violations.append(dict(what='; '.join(bad), finding=None,
                                           input=dict(family=fam, scale=scale, levels=L, y=y, mu=mu, weight=w),
                                           observed=dict(deviance=dev, deviance_w=devw, V=V, numeric_derivative=num, loglik_gap=gap),
                                           expected=dict(derivative=ana, loglik_gap=dev)))
    # scale estimate on a re-used distribution object: after a fit the estimate is stored in dist.scale; a later phi() on other data must
    # still be the Pearson statistic of THAT data (the user did not supply a scale)
    for fam in ('NormalDist', 'GammaDist', 'InvGaussDist'):
        d = mk(fam, None, 1.0)
        for rep in range(2):
            k = rng.randint(4, 9)
            ws = np.array([f32(10 ** rng.uniform(-1, 1)) for _ in range(k)])
            ys = np.array([10 ** rng.uniform(-1, 1) for _ in range(k)])
            mus = np.array([10 ** rng.uniform(-1, 1) for _ in range(k)])
            edof = rng.uniform(0.5, 2.5)
            got = float(d.phi(y=ys, mu=mus, edof=edof, weights=ws))
            want = float(np.sum(ws * (ys - mus) ** 2 / d.V(mu=mus)) / (k - edof))
            res.case(('phi-reuse', fam, rep))
            if not math.isclose(got, want, rel_tol=1e-12):
                res.violations.append(dict(what='scale estimate of a re-used distribution object is not the weighted Pearson statistic / (n - edof) of the data at hand',
                                           finding=None, input=dict(family=fam, call=rep + 1, y=ys.tolist(), mu=mus.tolist(), weights=ws.tolist(), edof=edof,
                                                                    stored_scale_before_call=None if d.scale is None else float(d.scale)),
                                           observed=got, expected=want))
            d.scale = got       # what _estimate_model_statistics does after every fit
    # tiny positive targets (rates y / exposure with a huge exposure, ~1e-9 and below) are not zeros: the unit deviance keeps its y log(y / mu) term
    for fam in ('PoissonDist', 'BinomialDist'):
        for rep in range(8):
            L = float(rng.choice([1, 4])) if fam == 'BinomialDist' else 1.0
            d = mk(fam, 1.0, L)
            yt = 10 ** rng.uniform(-14, -8)
            mut = yt * 10 ** rng.uniform(-1.5, 1.5)
            wt = f32(10 ** rng.uniform(6, 10))
            with np.errstate(all='ignore'):
                got = float(d.deviance(y=np.array([yt]), mu=np.array([mut]), weights=np.array([wt]), scaled=False)[0])
                zero = float(d.deviance(y=np.array([yt]), mu=np.array([yt]), weights=np.array([wt]), scaled=False)[0])
            want = 2 * wt * (yt * math.log(yt / mut) - (yt - mut)) if fam == 'PoissonDist' else \
                2 * wt * (yt * math.log(yt / mut) + (L - yt) * math.log((L - yt) / (L - mut)))
            res.case(('tiny-targets', fam, rep))
            # binary64 floor of the formula as coded: the binomial term (L - y) log((L - y) / (L - mu)) is evaluated with absolute error eps * L
            floor = 1e-12 * wt * (yt + mut) + (16 * 2.3e-16 * wt * L if fam == 'BinomialDist' else 0.0)
            if not (math.isclose(got, want, rel_tol=1e-6, abs_tol=floor) and abs(zero) <= floor and got >= -floor):
                res.violations.append(dict(what='unit deviance of a tiny positive target is not 2 w [y log(y/mu) - (y - mu)] (binomial: + (L-y) log((L-y)/(L-mu))): '
                                                'the target was treated as an exact zero, or the deviance is negative / non-zero at y = mu', finding=None,
                                           input=dict(family=fam, levels=L, y=yt, mu=mut, weight=wt), observed=dict(deviance=got, deviance_at_y_eq_mu=zero), expected=want))
    # integer-typed targets (counts straight from np.random.poisson / a label array) must give the deviance of the same numbers as floats
    for fam in FAMS:
        for rep in range(6):
            L = float(rng.choice([1, 3, 10])) if fam == 'BinomialDist' else 1.0
            d = mk(fam, 1.0 if fam in ('BinomialDist', 'PoissonDist') else float(10 ** rng.uniform(-1, 1)), L)
            k = rng.randint(3, 8)
            hi = int(L) if fam == 'BinomialDist' else 40
            yi = np.array([rng.randint(0 if fam in ('BinomialDist', 'PoissonDist') else 1, hi) for _ in range(k)], dtype=rng.choice(['int64', 'int32']))
            mus = np.array([L * rng.uniform(0.05, 0.95) if fam == 'BinomialDist' else 10 ** rng.uniform(-0.5, 1.5) for _ in range(k)])
            ws = np.array([f32(10 ** rng.uniform(-1, 1)) for _ in range(k)])
            with np.errstate(all='ignore'):
                di = np.asarray(d.deviance(y=yi.copy(), mu=mus.copy(), weights=ws, scaled=True), dtype=float)
                df = np.asarray(d.deviance(y=yi.astype(float), mu=mus.copy(), weights=ws, scaled=True), dtype=float)
            res.case(('int-targets', fam, rep))
            if not np.allclose(di, df, rtol=1e-12, atol=0):
                res.violations.append(dict(what='deviance of integer-typed targets differs from the deviance of the same targets as floats', finding=None,
                                           input=dict(family=fam, levels=L, scale=None if d.scale is None else float(d.scale), y=yi.tolist(), dtype=str(yi.dtype),
                                                      mu=mus.tolist(), weights=ws.tolist()),
                                           observed=di.tolist(), expected=df.tolist()))
    # the scale of a MODEL whose family has an unknown scale is re-estimated by every fit of the same object (generic GAM keeps its
    # distribution object between fits), and a user-supplied scale is kept
    import pygam
    nprs2 = np.random.RandomState(rng.randrange(1 << 30))
    for dname, lname in (('normal', 'identity'), ('gamma', 'log'), ('inv_gauss', 'log')):
        for supplied in (None, 0.7):
            kw = {} if supplied is None else dict(scale=supplied)
            dist = pygam.pygam.DISTRIBUTIONS[dname](**kw) if hasattr(pygam.pygam, 'DISTRIBUTIONS') else dname
            gam = pygam.GAM(pygam.s(0, n_splines=6), distribution=dist, link=lname)
            for rep, noise in enumerate((0.05, 0.6, 0.2)):
                n = 40 + 7 * rep
                X = nprs2.rand(n, 1)
                eta = np.sin(3 * X[:, 0])
                y = eta + noise * nprs2.randn(n) if dname == 'normal' else np.exp(eta) * nprs2.gamma(1 / noise, noise, size=n)
                wts = np.asarray(10 ** nprs2.uniform(-0.5, 0.5, size=n), dtype=np.float32).astype(float)
                with np.errstate(all='ignore'):
                    import warnings as _w
                    with _w.catch_warnings():
                        _w.simplefilter('ignore')
                        gam.fit(X, y, weights=wts)
                    mu = gam.predict_mu(X)
                    pearson = float(np.sum(wts * (y - mu) ** 2 / gam.distribution.V(mu=mu)) / (n - gam.statistics_['edof']))
                want = supplied if supplied is not None else pearson
                got = float(gam.statistics_['scale'])
                res.case(('model-scale', dname, supplied, rep))
                if not (math.isclose(got, want, rel_tol=1e-6) and math.isclose(float(gam.distribution.scale), want, rel_tol=1e-6)):
                    res.violations.append(dict(what='scale of fit number %d of the same generic GAM object is not %s' % (rep + 1, 'the user-supplied scale' if supplied is not None else
                                                    'the weighted Pearson statistic / (n - edof) of that fit'), finding=None,
                                               input=dict(model="GAM(s(0, n_splines=6), distribution='%s', link='%s'%s)" % (dname, lname, '' if supplied is None else ', scale=%r' % supplied),
                                                          fit_number=rep + 1, X=X[:, 0].tolist(), y=y.tolist(), weights=wts.tolist()),
                                               observed=dict(statistics_scale=got, distribution_scale=float(gam.distribution.scale)), expected=want))
    # sampler moments: supporting statistical test (not a proof): 40000 draws, 7-sigma bounds on mean and variance (exact fourth central moment)
    nprs = np.random.RandomState(rng.randrange(1 << 30))
    state = np.random.get_state()
    try:
        for fam in FAMS:
            for rep in range(3):
                scale = 1.0 if fam in ('BinomialDist', 'PoissonDist') else float(10 ** rng.uniform(-1, 0.7))
                L = float(rng.choice([1, 5, 20])) if fam == 'BinomialDist' else 1.0
                mu = L * rng.uniform(0.2, 0.8) if fam == 'BinomialDist' else rng.uniform(0.5, 3.0)
                d = mk(fam, scale, L)
                np.random.seed(nprs.randint(1 << 30))
                N = 40000
                draws = np.asarray(d.sample(np.full(N, mu)), dtype=float)
                V = float(d.V(mu=np.array([mu]))[0])
                var = scale * V
                m_err = abs(draws.mean() - mu) / math.sqrt(var / N)
                # standard error of the sample variance from the exact fourth central moment of the family (skewed families: far from sqrt(2/N))
                if fam == 'NormalDist':
                    mu4 = 3 * var ** 2
                elif fam == 'PoissonDist':
                    mu4 = mu + 3 * mu ** 2
                elif fam == 'BinomialDist':
                    pq = (mu / L) * (1 - mu / L)
                    mu4 = L * pq * (1 + 3 * (L - 2) * pq)
                elif fam == 'GammaDist':
                    k_, th_ = 1.0 / scale, mu * scale
                    mu4 = 3 * k_ * (k_ + 2) * th_ ** 4
                else:
                    mu4 = var ** 2 * (3 + 15 * mu * scale)
                v_err = abs(draws.var() - var) / (math.sqrt(max(mu4 - var ** 2, 0.0) / N) + var / N)
                res.case(('sample-moments', fam, scale, L, mu))
                if m_err > 7 or v_err > 7:
                    res.violations.append(dict(what='sampler moments differ from mean mu / variance scale * V(mu) (statistical test, 40000 draws)', finding=None,
                                               input=dict(family=fam, scale=scale, levels=L, mu=mu),
                                               observed=dict(mean=float(draws.mean()), var=float(draws.var())), expected=dict(mean=mu, var=var)))
    finally:
        np.random.set_state(state)


def sample_args(fam, d, mu):
    """arguments handed to the NumPy primitive, captured by wrapping np.random.*"""
    captured = {}
    names = {'NormalDist': 'normal', 'BinomialDist': 'binomial', 'PoissonDist': 'poisson', 'GammaDist': 'gamma', 'InvGaussDist': 'wald'}
    prim = names[fam]
    orig = getattr(np.random, prim)

    def rec(*a, **k):
        captured['a'] = a
        captured['k'] = k
        return np.zeros_like(mu)
    setattr(np.random, prim, rec)
    try:
        d.sample(mu)
    finally:
        setattr(np.random, prim, orig)
    order = {'normal': ['loc', 'scale'], 'binomial': ['n', 'p'], 'poisson': ['lam'], 'gamma': ['shape', 'scale'], 'wald': ['mean', 'scale']}[prim]
    vals = {}
    for i, v in enumerate(captured.get('a', ())):
        vals[order[i]] = v
    for k, v in captured.get('k', {}).items():
        if k != 'size':
            vals[k] = v
    return [float(np.asarray(vals[k]).ravel()[0]) for k in order]


def run(res):
    rng = common.rng_for(res.seed, PROP)
    n = 12 if res.tier == 'quick' else 150
    res.rule = ('per family: seeded (scale, levels, weight, y, mu) with scale over 6 orders of magnitude (and exactly 1), boundary responses '
                '(y = 0, y = levels), float32-representable weights; V, deviance (scaled / unscaled, weighted), log_pdf (full value for '
                'Normal and InvGauss, differences at fixed y for the others so that mean-free normalisers cancel) and the arguments handed to '
                'the NumPy sampler are written as exact binary64 values into goals |Gen_f(...) - value| <= 1e-11 relative proved by `interval`; '
                'plus the property statement evaluated directly on the implementation and a 40000-draw moment test (statistical, not a proof).')
    common.standard_prove(res, 'Props/C06.v', gen_targets=['dists'], extra=['Model/C06Check.vo'])
    warnings.simplefilter('ignore')
    goals, meta = [], []
    with np.errstate(all='ignore'):
        for fam in FAMS:
            for _ in range(n):
                scale, L, w, y, mu, mu2 = draw_case(rng, fam)
                d = mk(fam, scale, L)
                Y, M, M2, W = np.array([y]), np.array([mu]), np.array([mu2]), np.array([w])
                base = dict(family=fam, scale=scale, levels=L, w=w, y=y, mu=mu)
                v = float(d.V(mu=M, weights=W)[0])
                goals.append(goal('Gen_%s_V %s' % (fam, args(L, w, mu)), v, abs(mu) / w * 1e-4)); meta.append(dict(base, what='V', value=v))
                for scaled in (False, True):
                    v = float(d.deviance(y=Y, mu=M, weights=W, scaled=scaled)[0])
                    if not math.isfinite(v):
                        res.violations.append(dict(what='deviance non-finite on valid (y, mu)', finding=None, input=base, observed=v, expected='finite'))
                        continue
                    # cancellation scale of the deviance formula (terms that cancel when y ~ mu)
                    canc = {'NormalDist': 0.0, 'BinomialDist': 2 * (abs(y) + L) * 40, 'PoissonDist': 2 * (abs(y) * 40 + abs(y - mu)),
                            'GammaDist': 2 * (abs((y - mu) / mu) + abs(math.log(y / mu))) if fam == 'GammaDist' else 0.0, 'InvGaussDist': 0.0}[fam]
                    canc = canc * w / (scale if scaled else 1.0)
                    goals.append(goal('Gen_%s_deviance %s %s' % (fam, 'true' if scaled else 'false', args(scale, L, w, y, mu)), v, canc * 1e-4))
                    meta.append(dict(base, what='deviance scaled=%s' % scaled, value=v))
                # log densities
                if fam in ('NormalDist', 'InvGaussDist'):
                    v = float(d.log_pdf(Y, M, W)[0])
                    if math.isfinite(v):
                        goals.append(goal('Gen_%s_log_pdf %s' % (fam, args(scale, L, w, y, mu)), v, 50.0))
                        meta.append(dict(base, what='log_pdf', value=v))
                else:
                    a, b = float(d.log_pdf(Y, M, W)[0]), float(d.log_pdf(Y, M2, W)[0])
                    if math.isfinite(a) and math.isfinite(b):
                        # binomial: the code passes p = mu / levels rounded to binary64; ln(1 - p) then carries eps * p / (1 - p) (saturated means)
                        sat = 0.0
                        if fam == 'BinomialDist':
                            sat = sum(4 * 2.3e-16 / float(REL) * w * L * (1.0 / (1.0 - m_ / L) + 1.0) for m_ in (mu, mu2))
                        goals.append(goal('(Gen_%s_log_pdf %s - Gen_%s_log_pdf %s)' % (fam, args(scale, L, w, y, mu), fam, args(scale, L, w, y, mu2)), a - b,
                                          abs(a) + abs(b) + sat))
                        meta.append(dict(base, what='log_pdf difference', mu2=mu2, value=a - b))
                # sampler arguments
                got = sample_args(fam, d, M)
                if len(got) == 2:
                    for k, proj in enumerate(('fst', 'snd')):
                        goals.append(goal('%s (Gen_%s_sample_args %s)' % (proj, fam, args(scale, L, mu)), got[k]))
                        meta.append(dict(base, what='sample argument %d' % k, value=got[k]))
                else:
                    goals.append(goal('Gen_%s_sample_args %s' % (fam, args(scale, L, mu)), got[0]))
                    meta.append(dict(base, what='sample argument 0', value=got[0]))
        # phi
        from pygam import distributions as PD
        for _ in range(max(3, n // 3)):
            k = rng.randint(3, 8)
            ws = [f32(10 ** rng.uniform(-1, 1)) for _ in range(k)]
            ys = [10 ** rng.uniform(-1, 1) for _ in range(k)]
            mus = [10 ** rng.uniform(-1, 1) for _ in range(k)]
            edof = rng.uniform(0.5, 2.5)
            for fam in ('NormalDist', 'GammaDist', 'InvGaussDist'):
                d = mk(fam, None, 1.0)
                v = float(d.phi(y=np.array(ys), mu=np.array(mus), edof=edof, weights=np.array(ws)))
                lst = lambda xs: '(' + ' :: '.join(rlit(x) for x in xs) + ' :: nil)'
                goals.append(goal('Gen_phi false 0 (Gen_%s_V0 1) %s %s %s %s' % (fam, rlit(edof), lst(ws), lst(ys), lst(mus)), v))
                meta.append(dict(family=fam, what='phi', n=k, edof=edof, value=v))
                dk = mk(fam, 2.5, 1.0)
                vk = float(dk.phi(y=np.array(ys), mu=np.array(mus), edof=edof, weights=np.array(ws)))
                if vk != 2.5:
                    res.violations.append(dict(what='phi does not return the user-supplied scale', finding=None, input=dict(family=fam, scale=2.5), observed=vk, expected=2.5))
    header = HEADER
    with common.CaseDir(PROP) as cd:
        failing, errors = common.run_interval_goals(cd, header, goals, tactic='c06', shard=50)
    for name, out in errors:
        res.obligation('correspondence-file:' + name, False, detail=out, kind='correspondence')
    res.obligation('correspondence:generated family formulas = implementation (interval-certified)', not failing and not errors,
                   detail='failing goals %s' % [meta[i] for i in failing[:5]], kind='correspondence')
    for i, m in enumerate(meta):
        res.case(repr(sorted(m.items())), sample=m if i % 61 == 0 else None)
        res.count('%s:%s' % (m['family'], m['what'].split(' ')[0]))
    for i in failing:
        res.violations.append(dict(what='implementation value differs from the formula generated from the source (%s)' % meta[i]['what'],
                                   finding=None, input=meta[i], observed=meta[i]['value'], expected='see coq/Gen/Dists.v'))
    probe(res, rng, 25 if res.tier == 'quick' else 400)
    res.extra['interval_goals'] = len(goals)
    res.trusted.append('Spec_* specification functions of scipy.stats log densities and documented NumPy sampler moments (coq/Gen/Dists.v prelude); '
                       'the log densities are exercised against SciPy by the interval goals')


def replay(res, rp):
    run(res)
