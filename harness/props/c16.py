"""C16 -- each term contributes exactly its documented model-matrix columns.

 (1) theorems of coq/Props/C16.v re-checked;
 (2) correspondence: TermList.build_columns(X_pred) of seeded term lists compiled on a different X_train, every entry
     against coq/Model/Columns.v evaluated on exact rationals (tolerance 1e-8 * max(1,|entry|)); n_coefs and
     get_coef_indices compared exactly; FactorTerm.compile (levels, edge knots) compared exactly;
 (3) the property statement evaluated directly on the implementation, independent of the Coq model.
"""
import warnings

import numpy as np
import scipy.sparse

import common
from common import dylit, coq_list, qlit, coq_bool
import gen_terms
from props import c03

PROP = 'C16'
PROPS_FILE = 'Props/C16.v'
TOL = c03.TOL

HEADER = """From Coq Require Import List ZArith QArith Bool.
From PG Require Import Base.Ops Base.Vec Model.BSpline Model.C03Check Model.Columns Model.C16Check.
Import ListNotations.
Close Scope Q_scope.
"""


def qof(x):
    return '(Qof %s)' % dylit(x)


def opt_nat(v):
    return 'None' if v is None else '(Some %d)' % int(v)


def simple_coq(t):
    from pygam.terms import SplineTerm, LinearTerm, FactorTerm
    if isinstance(t, FactorTerm):
        ek = t.edge_knots_
        return '(SFactor %d %s %s %d %s)' % (t.feature, qof(ek[0]), qof(ek[1]), int(t.n_splines), coq_bool(t.coding == 'dummy'))
    if isinstance(t, LinearTerm):
        return '(SLinear %d)' % t.feature
    if isinstance(t, SplineTerm):
        ek = t.edge_knots_
        return '(SSpline %d %s %s %d %d %s %s)' % (t.feature, qof(ek[0]), qof(ek[1]), int(t.n_splines), int(t.spline_order),
                                                  coq_bool(t.basis in ['cp']), opt_nat(t.by))
    raise ValueError('unsupported term %r' % t)


def term_coq(t):
    if t.isintercept:
        return 'CIntercept'
    if t.istensor:
        return '(CTensor %s %s)' % (coq_list([simple_coq(m) for m in t._terms]), opt_nat(t.by))
    return '(CSimple %s)' % simple_coq(t)


def spline_like(t):
    """(feature, edge knots, n, k, periodic) of every b_spline_basis call made by the term"""
    from pygam.terms import SplineTerm, LinearTerm
    if t.isintercept:
        return []
    if t.istensor:
        return [s for m in t._terms for s in spline_like(m)]
    if isinstance(t, LinearTerm):
        return []
    if isinstance(t, SplineTerm):
        return [(t.feature, tuple(float(v) for v in t.edge_knots_), int(t.n_splines), int(t.spline_order), t.basis in ['cp'])]
    return []


def gen_pred_X(rng, Xtr, factor_feats, n):
    """prediction-time X: numeric columns partly outside the training range (any sign), factor columns inside the levels"""
    m = Xtr.shape[1]
    X = np.zeros((n, m))
    for j in range(m):
        lo, hi = Xtr[:, j].min(), Xtr[:, j].max()
        if j in factor_feats:
            X[:, j] = [float(rng.randint(int(lo), int(hi))) for _ in range(n)]
        else:
            w = (hi - lo) or 1.0
            X[:, j] = [lo + (rng.random() * 1.8 - 0.4) * w for _ in range(n)]
            if n >= 3:
                X[0, j], X[1, j] = lo, hi
    return X


def dense(M):
    return np.asarray(M.toarray() if scipy.sparse.issparse(M) else M, dtype=float)


# ----------------------------------------------------------------------------- direct probe
def rowwise_kron(a, b):
    return (a[:, :, None] * b[:, None, :]).reshape(a.shape[0], -1)


def expected_block(t, X, Xtr):
    """the documented content of a term's columns, from numpy and b_spline_basis only"""
    from pygam.terms import SplineTerm, LinearTerm, FactorTerm
    from pygam.utils import b_spline_basis
    if t.isintercept:
        return np.ones((len(X), 1))
    if t.istensor:
        out = expected_block(t._terms[0], X, Xtr)
        for m in t._terms[1:]:
            out = rowwise_kron(out, expected_block(m, X, Xtr))
        if t.by is not None:
            out = out * X[:, t.by][:, None]
        return out
    if isinstance(t, FactorTerm):
        lo = float(Xtr[:, t.feature].min())           # consecutive integer codes lo .. lo+L-1 of the data of the last compile
        L = len(np.unique(Xtr[:, t.feature]))
        out = np.array([[1.0 if x == lo + j else 0.0 for j in range(L)] for x in X[:, t.feature]])
        return out[:, 1:] if t.coding == 'dummy' else out
    if isinstance(t, LinearTerm):
        return X[:, t.feature][:, None].astype(float)
    if isinstance(t, SplineTerm):
        with warnings.catch_warnings():
            warnings.simplefilter('ignore')
            out = b_spline_basis(X[:, t.feature], t.edge_knots_, n_splines=t.n_splines, spline_order=t.spline_order,
                                 sparse=False, periodic=t.basis in ['cp'], verbose=False).astype(float)
        if t.by is not None:
            out = out * X[:, t.by][:, None]
        return out
    raise ValueError(t)


def probe_termlist(res, tl, specs, Xtr, X):
    inp = dict(specs=specs, X_train=Xtr.tolist(), X=X.tolist())

    def viol(what, observed, expected):
        res.violations.append(dict(what=what, finding=None, input=inp, observed=observed, expected=expected))
    full = dense(tl.build_columns(X))
    if full.shape != (len(X), int(tl.n_coefs)):
        viol('model matrix shape is not (samples, n_coefs)', list(full.shape), [len(X), int(tl.n_coefs)])
        return
    covered = []
    for i, t in enumerate(tl._terms):
        idx = tl.get_coef_indices(i)
        covered += list(idx)
        own = dense(tl.build_columns(X, term=i))
        own2 = dense(t.build_columns(X))
        if len(idx) != int(t.n_coefs) or not np.array_equal(full[:, idx], own) or not np.array_equal(own, own2):
            viol('coefficient indices of term %d do not address its own columns' % i,
                 dict(indices=list(map(int, idx)), n_coefs=int(t.n_coefs)), 'full[:, idx] == term.build_columns(X)')
        want = expected_block(t, X, Xtr)
        if want.shape != own.shape or np.max(np.abs(want - own) - 1e-12 * np.maximum(1.0, np.abs(want)), initial=-1.0) > 0:
            viol('columns of term %d (%s) differ from their documented content' % (i, type(t).__name__),
                 own.tolist(), want.tolist())
    if covered != list(range(int(tl.n_coefs))):
        viol('coefficient indices are not a partition of range(n_coefs) in term order', covered, list(range(int(tl.n_coefs))))


# ----------------------------------------------------------------------------- cases
def spline_terms(tl):
    """every SplineTerm object (not factor / linear) of the term list, marginals of tensor terms included"""
    from pygam.terms import SplineTerm, FactorTerm
    out = []
    for t in tl._terms:
        for m in (t._terms if t.istensor else [t]):
            if isinstance(m, SplineTerm) and not isinstance(m, FactorTerm) and not m.istensor:
                out.append(m)
    return out


def spline_compile_cases(res, tl, specs, user, X0, Xtr):
    """edge_knots_ of every spline term after the history of compiles: direct probe ((min, max) of the LAST data unless given)
    and a Coq case (compile_spline of coq/Model/Columns.v)"""
    cases, meta = [], []
    for m in spline_terms(tl):
        f = int(m.feature)
        cat = m.dtype == 'categorical'
        hist = ([X0[:, f]] if X0 is not None else []) + [Xtr[:, f]]
        u = user.get(f)
        ek = tuple(float(v) for v in m.edge_knots_)
        lo, hi = float(Xtr[:, f].min()), float(Xtr[:, f].max())
        want = u if u is not None else ((lo - 0.5, hi + 0.5) if cat else (lo, hi))
        inp = dict(specs=specs, feature=f, edge_knots_given=u, X_earlier=None if X0 is None else X0.tolist(), X_train=Xtr.tolist())
        if ek != tuple(want):
            res.violations.append(dict(what='edge knots of a spline term after compile are not (min, max) of the data it was last compiled on '
                                            '(or the knots given by the user)', finding=None, input=inp, observed=list(ek), expected=list(want)))
        cases.append('(CSplineCompile %s %s %s (%s,%s))' % (
            coq_list([coq_list([dylit(v) for v in h]) for h in hist]),
            'None' if u is None else '(Some (%s,%s))' % (dylit(u[0]), dylit(u[1])), coq_bool(cat), dylit(ek[0]), dylit(ek[1])))
        meta.append(dict(inp, kind='SplineTerm.compile'))
        res.case(('spline-compile', repr(hist), u, cat), nontrivial=True)
        res.count('spline compile: ' + ('user knots' if u is not None else 'default knots') + (' after earlier compile' if X0 is not None else ''))
    from pygam.terms import FactorTerm
    for t in tl._terms:
        for m in (t._terms if t.istensor else [t]):
            if isinstance(m, FactorTerm):
                col = Xtr[:, int(m.feature)]
                cases.append('(CFactorCompile %s %s (%s,%s) %d)' % (coq_list([dylit(v) for v in col]), coq_bool(m.coding == 'dummy'),
                                                                  dylit(m.edge_knots_[0]), dylit(m.edge_knots_[1]), int(m.n_splines)))
                meta.append(dict(kind='FactorTerm.compile', column=col.tolist(), dummy=m.coding == 'dummy', specs=specs,
                                 X_earlier=None if X0 is None else X0.tolist(), X_train=Xtr.tolist()))
                res.case(('factor-compile-in-list', repr(col.tolist()), m.coding), nontrivial=True)
    return cases, meta


def gam_modelmat_cases(res, rng, tier):
    """GAM._modelmat (the observation point of the property on a fitted model): the matrix is a function of the X it is given --
    the same array object is queried again after in-place edits of interior rows (first and last row untouched)"""
    from pygam import LinearGAM
    count = 24 if tier == 'quick' else 200
    cases, meta = [], []
    tries = 0
    while len(meta) < 2 * count and tries < 4 * count:
        tries += 1
        nf = rng.randint(2, 4)
        factor_feats = tuple(j for j in range(nf) if rng.random() < 0.25)
        specs = gen_terms.gen_termlist(rng, nf, factor_feats, dyadic=True, max_terms=3, max_n=8, intercept=False, allow_cat=False)
        Xtr = gen_terms.gen_X(rng, 40, nf, factor_feats)
        for j in factor_feats:
            Xtr[:, j] += rng.choice([0, 1, 3, -2])
        y = np.array([rng.gauss(0, 1) for _ in range(len(Xtr))])
        try:
            with warnings.catch_warnings():
                warnings.simplefilter('ignore')
                gam = LinearGAM(terms=gen_terms.build_termlist(specs)).fit(Xtr, y)
                tl = gam.terms
                if tl.n_coefs > 300:
                    continue
        except Exception as e:
            res.count('gam fit failed (%s): case not used' % type(e).__name__)
            continue
        sl = [s_ for t in tl._terms for s_ in spline_like(t)]
        X = gen_pred_X(rng, Xtr, factor_feats, rng.randint(4, 7))
        Xnew = gen_pred_X(rng, Xtr, factor_feats, len(X))
        if any(c03.alternatives(A[r, f], ek, n, k, per) for A in (X, Xnew) for r in range(len(A)) for (f, ek, n, k, per) in sl):
            res.count('gam case skipped (rounding-adjacent row)')
            continue
        inp = dict(specs=specs, X_train=Xtr.tolist(), X_first=X.tolist())
        try:
            with warnings.catch_warnings():
                warnings.simplefilter('ignore')
                Xb = X.copy()
                M1 = dense(gam._modelmat(X))
                X[1:-1, :] = Xnew[1:-1, :]                  # in place, same object, first and last row unchanged
                M2 = dense(gam._modelmat(X))
                ti = rng.randrange(len(tl._terms))
                M3 = dense(gam._modelmat(X, term=ti))
                want1 = np.hstack([expected_block(t, Xb, Xtr) for t in tl._terms])
                want2 = np.hstack([expected_block(t, X, Xtr) for t in tl._terms])
                want3 = expected_block(tl._terms[ti], X, Xtr)
        except Exception as e:
            res.violations.append(dict(what='GAM._modelmat raised on valid prediction-time data', finding=None, input=inp,
                                       observed='%s: %s' % (type(e).__name__, e), expected='model matrix'))
            continue
        inp['X_second_same_object_edited_in_place'] = X.tolist()
        for tag, got, want in (('first query', M1, want1),
                               ('second query of the same array object after in-place edits of interior rows', M2, want2),
                               ('single-term query after the edits (term %d)' % ti, M3, want3)):
            if got.shape != want.shape or np.max(np.abs(want - got) - 1e-12 * np.maximum(1.0, np.abs(want)), initial=-1.0) > 0:
                res.violations.append(dict(what='GAM._modelmat(X) is not the documented model matrix of the X it was given: ' + tag,
                                           finding=None, input=inp, observed=got.tolist(), expected=want.tolist()))
        idx = [tl.get_coef_indices(i) for i in range(len(tl._terms))]
        idxs = coq_list(['(%d, %d)' % ((int(ix[0]) if len(ix) else 0), len(ix)) for ix in idx])
        for A, M in ((Xb, M1), (X, M2)):
            rows = coq_list(['(%s, Some %s)' % (coq_list([dylit(v) for v in A[r]]), coq_list([dylit(v) for v in M[r]]))
                             for r in range(len(A))])
            cases.append('(CCols %s %s%%Q %s %s %d)' % (coq_list([term_coq(t) for t in tl._terms]), qlit(TOL), rows, idxs, int(tl.n_coefs)))
            meta.append(dict(inp, kind='GAM._modelmat'))
        res.case(('gam-modelmat', repr(specs), repr(X.tolist())), nontrivial=True)
        res.count('GAM._modelmat: same array queried again after in-place edits')
    return cases, meta


def make_cases(res, rng, tier):
    count = 160 if tier == 'quick' else 1600
    cases, meta = [], []
    tries = 0
    ncols = 0
    while ncols < count and tries < count * 3:
        tries += 1
        nf = rng.randint(1, 5)
        factor_feats = tuple(j for j in range(nf) if rng.random() < 0.3)
        specs = gen_terms.gen_termlist(rng, nf, factor_feats, dyadic=True, max_terms=4, max_n=12)
        ntr = rng.randint(6, 14)
        Xtr = gen_terms.gen_X(rng, ntr, nf, factor_feats)
        # knots given by the user (per feature, so that every spline term on that feature can be recognised), and an earlier
        # compile of the same term objects on other data (an earlier fit): the columns must depend on the LAST compile only
        user = {}
        for j in range(nf):
            if j not in factor_feats and rng.random() < 0.15:
                lo_, hi_ = Xtr[:, j].min(), Xtr[:, j].max()
                user[j] = (float(lo_ - rng.random() * (hi_ - lo_)), float(hi_ + rng.random() * (hi_ - lo_)))
        for sp in specs:
            for m in ([sp] if sp['kind'] == 's' else sp.get('margins', []) if sp['kind'] == 'te' else []):
                if m['kind'] == 's' and m['feature'] in user:
                    m['edge_knots'] = list(user[m['feature']])
        X0 = gen_terms.gen_X(rng, rng.randint(4, 12), nf, factor_feats) if rng.random() < 0.4 else None
        for j in factor_feats:                              # consecutive integer codes that do not start at 0
            o = rng.choice([0, 0, 1, 3, 7, -2, -5])
            Xtr[:, j] += o
            if X0 is not None:
                X0[:, j] += rng.choice([o, o, 0, 2])
            if o:
                res.count('factor codes starting at %d' % o)
        for sp in specs:                                    # by-variable = 0/1 indicator that is 0 on the rows holding the extremes
            if sp.get('by') is not None and sp['by'] not in factor_feats and rng.random() < 0.6:
                feats = [sp['feature']] if sp['kind'] == 's' else [m['feature'] for m in sp.get('margins', [])]
                for A in ([Xtr] if X0 is None else [Xtr, X0]):
                    b = np.array([float(rng.random() < 0.6) for _ in range(len(A))])
                    for fj in feats:
                        b[(A[:, fj] == A[:, fj].min()) | (A[:, fj] == A[:, fj].max())] = 0.0
                    if rng.random() < 0.15:
                        b[:] = 0.0
                    A[:, sp['by']] = b
                res.count('by-variable is a 0/1 indicator with zeros on the extremes')
        try:
            with warnings.catch_warnings():
                warnings.simplefilter('ignore')
                tl = gen_terms.build_termlist(specs)
                if X0 is not None:
                    tl.compile(X0)
                    res.count('term list compiled after an earlier compile on other data')
                tl.compile(Xtr)
        except Exception as e:
            res.violations.append(dict(what='TermList.compile raised on a valid term list', finding=None,
                                       input=dict(specs=specs, X_train=Xtr.tolist()), observed='%s: %s' % (type(e).__name__, e),
                                       expected='compiled terms'))
            continue
        if tl.n_coefs > 400:
            continue
        sc_cases, sc_meta = spline_compile_cases(res, tl, specs, user, X0, Xtr)
        cases += sc_cases
        meta += sc_meta
        X = gen_pred_X(rng, Xtr, factor_feats, rng.randint(3, 7))
        # rows that sit within 1e-12 of a jump of an order-0 / periodic basis: not compared (counted)
        sl = [s for t in tl._terms for s in spline_like(t)]
        keep = []
        for r in range(len(X)):
            amb = any(c03.alternatives(X[r, f], ek, n, k, per) for (f, ek, n, k, per) in sl)
            if amb:
                res.count('rows_skipped(rounding-adjacent)')
            else:
                keep.append(r)
        X = X[keep]
        if len(X) == 0:
            continue
        try:
            with warnings.catch_warnings():
                warnings.simplefilter('ignore')
                probe_termlist(res, tl, specs, Xtr, X)
        except Exception as e:
            res.violations.append(dict(what='evaluating the property statement on the implementation raised', finding=None,
                                       input=dict(specs=specs, X_train=Xtr.tolist(), X=X.tolist()),
                                       observed='%s: %s' % (type(e).__name__, e), expected='columns addressed by valid indices'))
        try:
            with warnings.catch_warnings():
                warnings.simplefilter('ignore')
                full = dense(tl.build_columns(X))
                idx = [tl.get_coef_indices(i) for i in range(len(tl._terms))]
        except Exception as e:
            res.violations.append(dict(what='TermList.build_columns raised on valid data', finding=None,
                                       input=dict(specs=specs, X_train=Xtr.tolist(), X=X.tolist()),
                                       observed='%s: %s' % (type(e).__name__, e), expected='model matrix'))
            continue
        rows = coq_list(['(%s, Some %s)' % (coq_list([dylit(v) for v in X[r]]), coq_list([dylit(v) for v in full[r]]))
                         for r in range(len(X))])
        idxs = coq_list(['(%d, %d)' % ((int(ix[0]) if len(ix) else 0), len(ix)) for ix in idx])
        ncols += 1
        cases.append('(CCols %s %s%%Q %s %s %d)' % (coq_list([term_coq(t) for t in tl._terms]), qlit(TOL), rows, idxs, int(tl.n_coefs)))
        meta.append(dict(specs=specs, X_train=Xtr.tolist(), X=X.tolist()))
        for s in specs:
            res.count('term:' + s['kind'])
            if s['kind'] == 'te':
                res.count('tensor_arity:%d' % len(s['margins']))
                res.count('tensor_margins:' + '+'.join(sorted(m['kind'] for m in s['margins'])))
            if s.get('by') is not None:
                res.count('by-variable')
            if s.get('coding') == 'dummy':
                res.count('dummy-coding')
        res.case(repr(specs) + repr(X.tolist()), nontrivial=any(s['kind'] != 'intercept' for s in specs),
                 sample=dict(specs=specs) if len(cases) in (2, 17) else None)
        res.count('rows', len(X))
    # FactorTerm.compile: number of levels and edge knots
    from pygam.terms import FactorTerm
    for i in range(30 if tier == 'quick' else 300):
        L = rng.randint(1, 9)
        off = rng.choice([0, 0, 0, 1, -3, 10])
        col = np.array([float(off + rng.randrange(L)) for _ in range(rng.randint(1, 15))])
        dummy = rng.random() < 0.5
        t = FactorTerm(0, coding='dummy' if dummy else 'one-hot')
        recompiled = rng.random() < 0.5
        if recompiled:
            # the same term object was compiled before on a column with other levels (an earlier fit of the same estimator):
            # the documented columns depend on the data of the LAST compile only
            L0 = rng.randint(1, 9)
            off0 = rng.choice([0, 0, 2, -1, 7])
            col0 = np.array([float(off0 + rng.randrange(L0)) for _ in range(rng.randint(1, 15))])
            t.compile(col0[:, None])
            res.count('factor compile after an earlier compile')
        t.compile(col[:, None])
        cases.append('(CFactorCompile %s %s (%s,%s) %d)' % (coq_list([dylit(v) for v in col]), coq_bool(dummy),
                                                          dylit(t.edge_knots_[0]), dylit(t.edge_knots_[1]), int(t.n_splines)))
        meta.append(dict(kind='FactorTerm.compile', column=col.tolist(), dummy=dummy))
        res.case(('factor-compile', i), nontrivial=len(set(col)) > 1)
    return cases, meta


def run(res):
    rng = common.rng_for(res.seed, PROP)
    res.rule = ('seeded term lists from harness/gen_terms.py (spline ps/cp of order 0..4, categorical splines, linear, factor one-hot / '
                'dummy, tensor terms with 2..4 marginals of mixed kinds, by-variables, intercept anywhere), compiled on a training X (40% of them after an earlier compile on other data; 15% of the numeric features with user-given edge knots) '
                'and evaluated on a different prediction-time X (numeric columns reach 40% outside the training range on both sides, '
                'any sign; boundary values included). A case is one (term list, X); non-trivial unless it only holds an intercept. '
                'Rows within 1e-12 of a jump of an order-0 / periodic basis are not compared (counted).')
    common.standard_prove(res, PROPS_FILE)
    cases, meta = make_cases(res, rng, res.tier)
    gc, gm = gam_modelmat_cases(res, rng, res.tier)
    cases, meta = cases + gc, meta + gm
    with common.CaseDir(PROP) as cd:
        failing, errors = common.run_bool_cases(cd, HEADER, cases, 'check_case', shard=max(1, len(cases) // (common.NPROC * 2)))
    for name, out in errors:
        res.obligation('correspondence-file:' + name, False, detail=out, kind='correspondence')
    res.obligation('correspondence:C16 TermList.build_columns / n_coefs / get_coef_indices / FactorTerm.compile / SplineTerm.compile (model = implementation)',
                   not failing and not errors, detail='failing case indices %s' % failing[:20], kind='correspondence')
    for i in failing:
        res.violations.append(dict(what='model-matrix columns / coefficient indices differ from the model (coq/Model/Columns.v)',
                                   finding=None, input=meta[i], observed='implementation != model', expected='see coq/Model/Columns.v'))
    res.extra['correspondence_cases'] = len(cases)
    res.extra['tolerances'] = {'column entries': '|impl - model| <= 1e-8 * max(1, |model|), exact rational arithmetic in Coq',
                               'indices, counts, factor levels, factor edge knots': 'exact', 'spline edge knots after compile': '1e-12 relative (binary64 rounding of min - 0.5 for categorical splines on non-integer data); exact in the direct probe',
                               'direct probe': 'exact for linear/factor/intercept/indices, 1e-12 relative for products'}


def replay(res, rp):
    for v in rp.get('failing_inputs', []):
        inp = v.get('input', {})
        if 'specs' in inp and 'X' in inp and 'X_train' in inp:
            with warnings.catch_warnings():
                warnings.simplefilter('ignore')
                tl = gen_terms.build_termlist(inp['specs'])
                tl.compile(np.array(inp['X_train']))
                probe_termlist(res, tl, inp['specs'], np.array(inp['X_train']), np.array(inp['X']))
    run(res)
