"""C15 -- models are isolated: queries are pure, fit depends only on settings and data."""
import contextlib
import copy
import io
import pickle

import numpy as np

import common
from common import coq_list, coq_bool

PROP = 'C15'
PROPS_FILE = 'Props/C15.v'

HEADER = """From Coq Require Import ZArith Bool List.
From PG Require Import Model.Heap Model.C15Check.
Import ListNotations.
"""

FINDINGS = {
    # S6a-refit-keeps-knots and S6c-keep-best-aliasing are repaired in /repo ("fix: a spline term kept the knots of the first data set
    # it was compiled on", "fix: gridsearch(keep_best=True) left the model sharing objects with a returned candidate"): their former
    # witnesses are regression probes below and anything like them is an untagged violation.
    'shared': 'S6b-shared-term-objects',              # a SPLINE term object shared by two models is recompiled by the other model's fit
    'shared_overwrite': 'S6d-shared-term-overwritten',  # the same for factor / linear terms
    # coef_ doubles as the PIRLS starting value: a fitted model refitted on other data can diverge where a fresh model fits
    'warm_start': 'S6e-warm-start-diverges',
}


class HistoryEnds(Exception):
    pass
KINDS = {'s': 'KSpline', 'f': 'KFactor', 'l': 'KLinear'}
NDATA = 3


# ----------------------------------------------------------------------------- data
def make_data(seed):
    """data sets 1..NDATA: col0 / col2 numeric with data-set specific ranges, col1 a 3-level factor with data-set specific codes"""
    data = {}
    for d in range(1, NDATA + 1):
        rs = np.random.RandomState(seed * 10 + d)
        n = 30 + d
        X = np.zeros((n, 3))
        X[:, 0] = d + rs.rand(n)
        X[:, 1] = 10 * d + rs.randint(0, 3, n)
        X[:3, 1] = 10 * d + np.arange(3)
        X[:, 2] = -d + 0.5 * rs.rand(n)
        y = np.sin(3 * X[:, 0]) + 0.3 * (X[:, 1] % 10) + X[:, 2] + 0.1 * rs.randn(n)
        w = (1 + rs.randint(0, 4, n)).astype(float) / 2.0          # exactly representable in float32
        data[d] = (X, y, w)
    return data


CLASSES = ['LinearGAM', 'LogisticGAM', 'PoissonGAM', 'GammaGAM', 'InvGaussGAM', 'ExpectileGAM',
           # the generic class keeps the distribution / link OBJECTS it was given across fits and copies (the named classes rebuild them):
           # unknown-scale families, and binomial / poisson as controls
           'GAM:normal:identity', 'GAM:gamma:log', 'GAM:inv_gauss:log', 'GAM:binomial:logit', 'GAM:poisson:log']
TARGET_OF = {'GAM:normal:identity': 'LinearGAM', 'GAM:gamma:log': 'GammaGAM', 'GAM:inv_gauss:log': 'InvGaussGAM',
             'GAM:binomial:logit': 'LogisticGAM', 'GAM:poisson:log': 'PoissonGAM'}
FIT_TOL, FIT_MAX_ITER = 1e-7, 200      # tight enough that a warm-started refit and a fresh fit agree to ~1e-8 when both converge


def make_targets(data, seed):
    """class-appropriate targets per data set (0/1, counts, positive reals) and an exposure vector exactly representable in float32"""
    targets, expo = {}, {}
    for d, (X, y, w) in data.items():
        rs = np.random.RandomState(seed * 10 + d + 5000)
        eta = 0.5 * np.sin(3 * X[:, 0]) + 0.2 * (X[:, 1] % 10) + (X[:, 2] + d) + 0.6
        pos = np.exp(eta) * rs.gamma(8.0, 1 / 8.0, size=len(y))
        targets[d] = {
            'LinearGAM': y, 'ExpectileGAM': y.copy(),
            # a weak signal: with ~30 rows a strong one is often (quasi-)separable and a cold-start fit diverges
            'LogisticGAM': (rs.rand(len(y)) < 1 / (1 + np.exp(-0.8 * np.sin(3 * X[:, 0]) - 0.3 * (X[:, 1] % 10) + 0.3))).astype(float),
            'PoissonGAM': rs.poisson(np.exp(eta)).astype(float),
            'GammaGAM': pos, 'InvGaussGAM': pos.copy(),
        }
        expo[d] = (1 + rs.randint(0, 4, len(y))).astype(float) / 2.0
    return targets, expo


def new_model(cls, terms, like=None):
    import pygam
    kw = dict(tol=FIT_TOL, max_iter=FIT_MAX_ITER)
    if cls == 'ExpectileGAM' and like is not None:
        kw['expectile'] = like.expectile          # fit_quantile changes this setting
    if cls.startswith('GAM:'):
        _, dist, link = cls.split(':')
        return pygam.GAM(terms, distribution=dist, link=link, **kw)
    return getattr(pygam, cls)(terms, **kw)


def terms_snap(model):
    """hyper-parameters and data-dependent state of the model's term objects (a query must not touch them)"""
    out = []
    for t in model.terms._terms:
        subs = list(t._terms) if t.istensor else [t]
        for x in subs:
            ek = getattr(x, 'edge_knots_', None)
            out.append((type(x).__name__, id(x), repr(getattr(x, 'lam', None)), getattr(x, 'n_splines', None),
                        None if ek is None else np.asarray(ek, dtype=float).tobytes(), repr(getattr(x, 'penalties', None))))
    return out


def summary_stats(model, X):
    """identifiable fit summaries (se / cov entries are not compared: the default models are unidentifiable)"""
    st = model.statistics_
    out = {'scale': float(st['scale']), 'edof': float(st['edof']), 'loglikelihood': float(st['loglikelihood']), 'AIC': float(st['AIC']),
           'ci90': np.asarray(model.confidence_intervals(X, width=0.9), dtype=float)}
    return out


def loglik_magnitude(model, cls, X, y, w, e, fa):
    """n + sum of the absolute per-observation log-likelihood terms: the scale on which the (possibly nearly cancelling) total is
    sensitive to a relative perturbation of mu and of the estimated scale"""
    yy = np.asarray(y, dtype=float)
    ww = np.array(w).astype('f').ravel().astype(float) if fa['w'] else np.ones_like(yy)
    n = len(yy)
    try:
        if cls == 'PoissonGAM' and fa['e']:
            yy, ww = model._exposure_to_weights(yy, e, ww if fa['w'] else None)
        with warnings_off():
            terms = np.asarray(model.distribution.log_pdf(y=yy, mu=model.predict_mu(X), weights=ww), dtype=float)
        tot = float(np.abs(terms[np.isfinite(terms)]).sum())
    except Exception:
        tot = float(n) * max(1.0, abs(float(model.statistics_['loglikelihood'])))
    return n + tot


def stats_mismatch(a, b, mag):
    """which summaries of two fits with equal predictions (rtol 1e-5) differ beyond what that equality allows.
    scale, edof: relative 1e-5.  loglikelihood: a sum of n terms, absolute 1e-5 * (n + sum |terms|)  (d loglik ~ (n/2) d scale / scale for an
    estimated scale).  AIC = -2 loglik + 2 (edof + ...): twice that plus 1e-5 * (2 edof + 2).  Confidence interval: 1e-5 relative to the
    interval width + |bound|, per row."""
    bad = []
    for k in ('scale', 'edof'):
        if not np.allclose(a[k], b[k], rtol=1e-5, atol=1e-7):
            bad.append(k)
    tol_ll = 1e-5 * mag
    if not abs(a['loglikelihood'] - b['loglikelihood']) <= tol_ll:
        bad.append('loglikelihood')
    if not abs(a['AIC'] - b['AIC']) <= 2 * tol_ll + 1e-5 * (2 * abs(b['edof']) + 2):
        bad.append('AIC')
    ca, cb = a['ci90'], b['ci90']
    if ca.shape != cb.shape:
        bad.append('ci90')
    else:
        width = np.abs(cb[:, 1] - cb[:, 0])[:, None]
        if not np.all(np.abs(ca - cb) <= 1e-5 * (width + np.abs(cb)) + 1e-7):
            bad.append('ci90')
    return bad


def converged(model):
    try:
        return bool(model.logs_['diffs'][-1] < model.tol)
    except Exception:
        return False


def knots_source(t, data):
    from pygam.utils import gen_edge_knots
    if not hasattr(t, 'edge_knots_'):
        return None
    ek = np.asarray(t.edge_knots_, dtype=float)
    for d, (X, y, w) in data.items():
        ref = np.asarray(gen_edge_knots(X[:, t.feature], t.dtype, verbose=False), dtype=float)
        if ref.shape == ek.shape and (ref == ek).all():
            return d
    return 0


def new_term(kind, feature, lam, n_splines=5):
    from pygam import s, f, l
    if kind == 's':
        return s(feature, n_splines=n_splines, lam=lam)
    if kind == 'f':
        return f(feature, lam=lam)
    return l(feature, lam=lam)


def snap(arrs):
    return [None if a is None else (a.shape, a.dtype.str, a.tobytes()) for a in arrs]


def stats_snap(m):
    out = {}
    for k, v in m.statistics_.items():
        if isinstance(v, np.ndarray):
            out[k] = v.tobytes()
        elif isinstance(v, dict):
            out[k] = repr(sorted((kk, np.asarray(vv).tobytes()) for kk, vv in v.items()))
        else:
            out[k] = repr(v)
    return out


def user_terms(m):
    from pygam.terms import TermList
    t = m.terms
    return [x for x in t._terms if not x.isintercept]


# ----------------------------------------------------------------------------- one random history
class Hist(object):
    def __init__(self, res, rng, data, hid, cls='LinearGAM', targets=None, expo=None):
        self.res, self.rng, self.data, self.hid = res, rng, data, hid
        self.cls, self.targets, self.expo = cls, targets, expo
        self.fitargs = []     # id -> dict(w=bool, e=bool): how the model's current coefficients were obtained
        self.terms = []       # id -> object
        self.specs = []       # id -> (kind, feature, lam)
        self.models = []      # id -> object
        self.fitdata = []     # id -> data id or 0
        self.first_compile = {}   # term id -> (model id, data id)
        self.ops = []         # coq ops
        self.log = []

    def tid(self, obj):
        for i, o in enumerate(self.terms):
            if o is obj:
                return i
        return None

    def xyw(self, d):
        X, y, w = self.data[d]
        if self.targets is not None:
            y = self.targets[d][TARGET_OF.get(self.cls, self.cls)]
        e = self.expo[d] if self.expo is not None else None
        return X, y, w, e

    def guarded(self, what, m, d, fn, query):
        """run a public call; caller arrays must be untouched; a query must leave predictions and statistics untouched"""
        X, y, w, e = self.xyw(d)
        before = snap([X, y, w, e])
        model = self.models[m]
        fitted = hasattr(model, 'coef_')
        Xref = self.data[self.fitdata[m]][0] if (fitted and self.fitdata[m]) else None
        pre = None
        if query and fitted and Xref is not None:
            try:
                pre = (model.predict_mu(Xref).tobytes(), stats_snap(model), model.coef_.tobytes(), terms_snap(model))
            except Exception:
                pre = None
        try:
            with contextlib.redirect_stdout(io.StringIO()), contextlib.redirect_stderr(io.StringIO()), warnings_off():
                out = fn(model, X, y, w, e)
        except Exception as ex:
            out = ex
        if snap([X, y, w, e]) != before:
            self.res.violations.append(dict(what='%s modified the caller\'s X / y / weights / exposure arrays' % what, finding=None,
                                            input=dict(cls=self.cls, history=self.log, call=what, model=m, data=d),
                                            observed='array bytes changed', expected='bitwise unchanged'))
        if pre is not None:
            try:
                post = (model.predict_mu(Xref).tobytes(), stats_snap(model), model.coef_.tobytes(), terms_snap(model))
            except Exception as ex:
                post = ('raised', type(ex).__name__)
            self.res.case(('purity', self.hid, len(self.log), what))
            if post != pre:
                self.res.violations.append(dict(what='query %s changed the fitted model\'s predictions / statistics_ / coef_ / term hyper-parameters (lam, n_splines, edge knots)' % what,
                                                finding=None, input=dict(cls=self.cls, history=self.log, call=what, model=m, data=d),
                                                observed='snapshot differs', expected='bitwise unchanged'))
        return out

    PERMITTED = ('OptimizationError', 'NotPositiveDefiniteError')     # ValueError subclasses: a permitted outcome of fit on valid data (C11)

    def others_snapshot(self, m):
        """predictions of every OTHER fitted model on its own fit data"""
        out = {}
        for j, g in enumerate(self.models):
            if j != m and hasattr(g, 'coef_') and self.fitdata[j]:
                try:
                    with warnings_off():
                        out[j] = g.predict_mu(self.data[self.fitdata[j]][0]).tobytes()
                except Exception as ex:
                    out[j] = 'raised ' + type(ex).__name__
        return out

    def failed_call(self, what, m, d, call, out, others_pre):
        """fit / gridsearch / fit_quantile raised an optimisation failure.  Permitted if a fresh model of the same class, settings,
        weights and exposure fails on that data too; the known warm-start finding if the fresh model fits; the history ends either way.
        The failed call must not have changed the predictions of models that share no term object with this one."""
        from pygam.terms import TermList
        model = self.models[m]
        fitted_before = bool(self.fitdata[m]) or hasattr(model, 'coef_')
        ts = user_terms(model)
        others_post = self.others_snapshot(m)
        for j in others_pre:
            if others_post.get(j) != others_pre[j]:
                shared = [t for t in ts if any(t is u for u in user_terms(self.models[j]))]
                finding = None
                if shared:          # compile ran before PIRLS failed: shared term objects were recompiled in place
                    finding = FINDINGS['shared' if any(type(t).__name__ == 'SplineTerm' for t in shared) else 'shared_overwrite']
                self.res.violations.append(dict(what='a call on one model that ended in %s changed another model\'s predictions' % type(out).__name__,
                                                finding=finding, input=dict(cls=self.cls, history=list(self.log), model=m, other=j, data=d),
                                                observed='m%d predictions changed' % j, expected='unchanged'))
        try:
            fresh = new_model(self.cls, TermList(*[new_term(self.specs[self.tid(t)][0], self.specs[self.tid(t)][1], list(t.lam),
                                                            self.specs[self.tid(t)][3]) for t in ts]), like=model)
            X, y, w, e = self.xyw(d)
            with contextlib.redirect_stdout(io.StringIO()), contextlib.redirect_stderr(io.StringIO()), warnings_off():
                call(fresh, X, y, w, e)
            fresh_out = None
        except Exception as ex:
            fresh_out = ex
        if fresh_out is not None and type(fresh_out).__name__ in self.PERMITTED:
            self.res.count('%s ended in %s, a fresh model too (permitted outcome): %s' % (what, type(out).__name__, self.cls))
        elif fresh_out is None and fitted_before:
            self.res.count('refit diverged:%s:fresh fits' % self.cls)
            self.res.violations.append(dict(
                what='%s on data%d raised %s for a model fitted before, while a fresh model with the same settings handles the same data '
                     '(the old coef_ is the starting value)' % (what, d, type(out).__name__), finding=FINDINGS['warm_start'],
                input=dict(cls=self.cls, history=list(self.log), model=m, data=d), observed=str(out)[:200],
                expected='the same outcome as a fresh model'))
        else:
            self.res.violations.append(dict(
                what='%s on data%d raised %s but a fresh model with the same settings %s' % (
                    what, d, type(out).__name__, 'does not' if fresh_out is None else 'raised %s' % type(fresh_out).__name__),
                finding=None, input=dict(cls=self.cls, history=list(self.log), model=m, data=d), observed=str(out)[:200],
                expected='the same outcome as a fresh model'))
        raise HistoryEnds()

    def step(self):
        rng = self.rng
        r = rng.random()
        nm, nt = len(self.models), len(self.terms)
        if nt == 0 or (r < 0.15 and nt < 5):
            kind = rng.choice(['s', 's', 'f', 'l'])
            feature = {'s': rng.choice([0, 2]), 'f': 1, 'l': rng.choice([0, 2])}[kind]
            lam = float(1 + nt)
            nspl = 5 + (nt % 4)
            self.terms.append(new_term(kind, feature, lam, nspl))
            self.specs.append((kind, feature, lam, nspl))
            self.ops.append('(NewTerm %s false)' % KINDS[kind])
            self.log.append('t%d = %s(%d, lam=%g)' % (nt, kind, feature, lam))
            return
        if nm == 0 or (r < 0.32 and nm < 4):
            from pygam import LinearGAM
            from pygam.terms import TermList
            ids, sigs = [], set()
            for i in rng.sample(range(nt), nt):       # distinct (kind, feature, n_splines): never de-duplicated, whatever lam becomes
                sig = (self.specs[i][0], self.specs[i][1], self.specs[i][3] if self.specs[i][0] == 's' else 0)
                if sig not in sigs and len(ids) < 3:
                    sigs.add(sig)
                    ids.append(i)
            ids = sorted(ids[:rng.randint(1, len(ids))])
            self.models.append(new_model(self.cls, TermList(*[self.terms[i] for i in ids])))
            self.fitdata.append(0)
            self.fitargs.append(dict(w=False, e=False))
            self.ops.append('(NewModel %s)' % coq_list([str(i) for i in ids]))
            self.log.append('m%d = %s(%s, tol=%g, max_iter=%d)' % (nm, self.cls, ' + '.join('t%d' % i for i in ids), FIT_TOL, FIT_MAX_ITER))
            return
        m = rng.randrange(nm)
        model = self.models[m]
        d = rng.randint(1, NDATA)
        fitted = hasattr(model, 'coef_')
        if r < 0.55:
            use_w = rng.random() < 0.5
            use_e = self.cls == 'PoissonGAM' and rng.random() < 0.5
            # fit_quantile is "a fit on this data" only for an unfitted model: on a fitted one it starts from the existing fit (validates X
            # against the old model, keeps it if its quantile ratio is already within tol) -- not used on fitted models here
            quant = rng.choice([0.3, 0.4, 0.6, 0.7]) if (self.cls == 'ExpectileGAM' and not fitted and rng.random() < 0.6) else None
            if quant is not None:
                call = lambda g, X, y, w, e: g.fit_quantile(X, y, quantile=quant, max_iter=8, tol=0.05, weights=w if use_w else None)
            elif self.cls == 'PoissonGAM':
                call = lambda g, X, y, w, e: g.fit(X, y, exposure=e if use_e else None, weights=w if use_w else None)
            else:
                call = lambda g, X, y, w, e: g.fit(X, y, weights=w if use_w else None)
            others_pre = self.others_snapshot(m)
            out = self.guarded('fit', m, d, call, query=False)
            if isinstance(out, Exception):
                self.log.append('m%d.%s(data%d%s%s) raised %s' % (m, 'fit_quantile' if quant is not None else 'fit', d,
                                                                 ', weights' if use_w else '', ', exposure' if use_e else '', type(out).__name__))
                if type(out).__name__ in self.PERMITTED:
                    self.failed_call('fit_quantile' if quant is not None else 'fit', m, d, call, out, others_pre)
                raise RuntimeError('fit raised: %r' % out)
            self.fitdata[m] = d
            self.fitargs[m] = dict(w=use_w, e=use_e)
            for t in user_terms(model):
                if self.tid(t) is not None:
                    self.first_compile.setdefault(self.tid(t), (m, d))
            self.ops.append(('(FitQuantile %d %d)' if quant is not None else '(Fit %d %d)') % (m, d))
            self.log.append('m%d.%s(data%d%s%s%s)' % (m, 'fit_quantile' if quant is not None else 'fit', d,
                                                     ', quantile=%g' % quant if quant is not None else '',
                                                     ', weights' if use_w else '', ', exposure' if use_e else ''))
            self.res.count('fit:%s%s%s' % ('fit_quantile' if quant is not None else 'fit', '+weights' if use_w else '', '+exposure' if use_e else ''))
            return
        if r < 0.80:
            if not fitted:
                return
            dq = self.fitdata[m]
            pois = self.cls == 'PoissonGAM'
            calls = {
                'predict': ('(Predict %d)', lambda g, X, y, w, e: g.predict(X)),
                'predict_mu': ('(Predict %d)', lambda g, X, y, w, e: g.predict_mu(X)),
                'intervals': ('(Intervals %d)', lambda g, X, y, w, e: g.confidence_intervals(X)),
                'partial_dependence': ('(PartialDependence %d)', lambda g, X, y, w, e: g.partial_dependence(term=0, X=X, width=0.9)),
                'summary': ('(Summary %d)', lambda g, X, y, w, e: g.summary()),
                'sample': ('(Sample %d)', lambda g, X, y, w, e: g.sample(X, y, quantity=rng.choice(['y', 'mu', 'coef']), n_draws=2,
                                                                       n_bootstraps=1, weights=w)),
                # n_bootstraps > 1 refits copies with a random lam search: the model itself must stay untouched
                'sample_bootstraps': ('(Sample %d)', lambda g, X, y, w, e: g.sample(X, y, quantity=rng.choice(['mu', 'coef']), n_draws=2,
                                                                                   n_bootstraps=rng.choice([2, 3]),
                                                                                   weights=w if rng.random() < 0.5 else None)),
                'loglik': ('(Loglik %d)', (lambda g, X, y, w, e: g.loglikelihood(X, y, exposure=e, weights=w)) if pois
                           else (lambda g, X, y, w, e: g.loglikelihood(X, y, weights=w))),
                'residuals': ('(Residuals %d)', lambda g, X, y, w, e: g.deviance_residuals(X, y, weights=w, scaled=rng.random() < 0.5)),
                'score': ('(Score %d)', (lambda g, X, y, w, e: g.score(X, y)) if self.cls == 'LogisticGAM'
                          else (lambda g, X, y, w, e: g.score(X, y, weights=w))),
                'gridsearch_nokeep': ('(GridsearchNoKeep %d ' + str(dq) + ')',
                                      (lambda g, X, y, w, e: g.gridsearch(X, y, exposure=e, weights=w, lam=np.array([0.5, 5.0]), keep_best=False,
                                                                          progress=False)) if pois
                                      else (lambda g, X, y, w, e: g.gridsearch(X, y, lam=np.array([0.5, 5.0]), keep_best=False, progress=False))),
            }
            if self.cls == 'LinearGAM':
                calls['prediction_intervals'] = ('(Intervals %d)', lambda g, X, y, w, e: g.prediction_intervals(X))
            if self.cls == 'LogisticGAM':
                calls['predict_proba'] = ('(PredictProba %d)', lambda g, X, y, w, e: g.predict_proba(X))
                calls['accuracy'] = ('(Accuracy %d)', lambda g, X, y, w, e: g.accuracy(X, y))
            if pois:
                calls['predict_exposure'] = ('(Predict %d)', lambda g, X, y, w, e: g.predict(X, exposure=e))
            q = rng.choice(sorted(calls) + ['sample_bootstraps'])
            np.random.seed(rng.randrange(1 << 30))
            fmt, fn = calls[q]
            dcall = dq
            if q.startswith('sample') and rng.random() < 0.4:      # sampling at another data set than the one the model was fitted on
                dcall = rng.choice([x for x in range(1, NDATA + 1) if x != dq])
            qout = self.guarded(q, m, dcall, fn, query=True)       # the purity snapshot is checked whether or not the call raised
            if isinstance(qout, Exception):
                self.res.count('query raised:%s.%s:%s%s' % (self.cls, q, type(qout).__name__,
                                                           ' (permitted: a bootstrap / candidate refit failed)' if type(qout).__name__ in self.PERMITTED else ''))
            self.ops.append(fmt % m)
            self.log.append('m%d.%s(data%d)' % (m, q, dcall))
            self.res.count('query:%s.%s' % (self.cls, q))
            return
        if r < 0.90:
            ids_before = [id(t) for t in user_terms(model)]
            coef_before = model.coef_.copy() if fitted else None
            others_pre_g = self.others_snapshot(m)
            out = self.guarded('gridsearch(keep_best=True)', m, d,
                               lambda g, X, y, w, e: g.gridsearch(X, y, lam=np.array([0.5, 5.0]), keep_best=True, progress=False),
                               query=False)
            if isinstance(out, Exception):
                self.log.append('m%d.gridsearch(data%d, keep_best=True) raised %s' % (m, d, type(out).__name__))
                if type(out).__name__ in self.PERMITTED:
                    self.failed_call('gridsearch(keep_best=True)', m, d,
                                     lambda g, X, y, w, e: g.gridsearch(X, y, lam=np.array([0.5, 5.0]), keep_best=True, progress=False),
                                     out, others_pre_g)
                raise RuntimeError('gridsearch raised: %r' % out)
            new = user_terms(model)
            # the already fitted self stayed best iff its coefficients are (bitwise) the ones it had
            self_best = bool(fitted and coef_before.shape == model.coef_.shape and (coef_before == model.coef_).all())
            if not fitted:          # self's own term objects were compiled first (by _validate_data_dep_params)
                for x in ids_before:
                    self.first_compile.setdefault(self.tid_by_pyid(x), (m, d))
            # either way the model now holds deep copies of the winner's term objects
            old_ids = [self.tid_by_pyid(x) for x in ids_before]
            if any(id(t) in ids_before for t in new):
                self.res.violations.append(dict(what='gridsearch(keep_best=True) left the model holding term objects that existed before '
                                                     '(shared with the caller / other models / candidates)', finding=None,
                                                input=dict(history=self.log + ['m%d.gridsearch(data%d, keep_best=True)' % (m, d)]),
                                                observed='same objects', expected='copies'))
            for t, oi in zip(new, old_ids):
                self.terms.append(t)
                self.specs.append(self.specs[oi])
                self.first_compile[len(self.terms) - 1] = (m, d if not self_best else self.fitdata[m])
            if not self_best:
                self.fitdata[m] = d
                self.fitargs[m] = dict(w=False, e=False)
            self.ops.append('(GridsearchKeep %d %d %s)' % (m, d, coq_bool(self_best)))
            self.log.append('m%d.gridsearch(data%d, keep_best=True)%s' % (m, d, ' [self stayed best]' if self_best else ''))
            return
        if r < 0.97 and nm < 5:
            via = rng.choice(['deepcopy', 'pickle'])
            c = copy.deepcopy(model) if via == 'deepcopy' else pickle.loads(pickle.dumps(model))
            old_ids = [self.tid(t) for t in user_terms(model)]
            self.models.append(c)
            self.fitdata.append(self.fitdata[m])
            self.fitargs.append(dict(self.fitargs[m]))
            for t, oi in zip(user_terms(c), old_ids):
                self.terms.append(t)
                self.specs.append(self.specs[oi])
                if oi in self.first_compile:
                    self.first_compile[len(self.terms) - 1] = (len(self.models) - 1, self.first_compile[oi][1])
            self.ops.append('(DeepCopy %d)' % m)
            self.log.append('m%d = %s(m%d)' % (len(self.models) - 1, via, m))
            return
        model.set_params(max_iter=FIT_MAX_ITER, tol=FIT_TOL, verbose=False)
        self.ops.append('(SetParams %d)' % m)
        self.log.append('m%d.set_params(max_iter=%d, tol=%g, verbose=False)' % (m, FIT_MAX_ITER, FIT_TOL))

    def tid_by_pyid(self, pyid):
        for i, o in enumerate(self.terms):
            if id(o) == pyid:
                return i
        return None


def history_cases(res, rng, count, data, targets=None, expo=None):
    cases, meta = [], []
    for hid in range(count):
        cls = CLASSES[hid % len(CLASSES)]          # the histories are distributed evenly over the six model classes
        h = Hist(res, rng, data, hid, cls, targets, expo)
        res.count('history_class:%s' % cls)
        nsteps = rng.randint(6, 14)
        try:
            for _ in range(nsteps):
                h.step()
        except HistoryEnds:
            res.count('history_ended_early:%s' % cls)
            continue
        except Exception as e:
            res.violations.append(dict(what='public call raised in a valid history', finding=None, input=dict(cls=cls, history=h.log),
                                       observed='%s: %s' % (type(e).__name__, e), expected='no exception'))
            continue
        try:
            obs = observe_with_weights(h)
            if any(i is None for o in obs for i in o[0]):
                raise RuntimeError('a model holds term objects that are neither the caller\'s nor copies made by deepcopy/gridsearch')
        except Exception as e:
            res.violations.append(dict(what='observing the models after a valid history failed (the implementation left the behaviour '
                                            'described by coq/Model/Heap.v)', finding=None, input=dict(history=h.log),
                                       observed='%s: %s' % (type(e).__name__, e), expected='see coq/Model/Heap.v'))
            continue
        cobs = coq_list(['(mkObs %s %s %d %s)' % (coq_list([str(i) for i in ids]),
                                                  coq_list(['None' if k is None else '(Some %d)' % k for k in kn]), d,
                                                  'None' if fe is None else '(Some %s)' % coq_bool(fe))
                         for ids, kn, d, fe in obs])
        cases.append('(CHist %s %s)' % (coq_list(h.ops), cobs))
        meta.append(dict(cls=cls, history=h.log, observed=[dict(model=m, term_ids=o[0], knots_from=o[1], fitted_on=o[2], equals_fresh=o[3])
                                                   for m, o in enumerate(obs)]))
        res.count('history_models:%d' % len(h.models))
        # history dependence seen on the implementation: report, tagged by the shape of the history
        for m, (ids, kn, d, fe) in enumerate(obs):
            if d and fe is False:
                reasons = set()
                for i, k in zip(ids, kn):
                    if h.specs[i][0] == 'l' or k == d:
                        continue
                    # the model's own fit always regenerates the data-dependent state of its terms (user-given knots are not
                    # generated here): a mismatch is another model's compile of a shared object
                    reasons.add('shared' if h.specs[i][0] == 's' else 'shared_overwrite')
                finding = None
                for key in ('shared', 'shared_overwrite'):
                    if key in reasons:
                        finding = FINDINGS[key]
                        break
                res.violations.append(dict(what='a model fitted on data%d does not predict like a fresh model fitted on data%d' % (d, d),
                                           finding=finding, input=dict(cls=cls, history=h.log, model=m, reasons=sorted(reasons)),
                                           observed=dict(knots_from=kn), expected='all term state derived from data%d' % d))
        # row-wise-ness of predictions
        for m, model in enumerate(h.models):
            if not hasattr(model, 'coef_') or not h.fitdata[m]:
                continue
            Xq = data[h.fitdata[m]][0].copy()
            if rng.random() < 0.7:
                # rows below AND above the training range in the same query matrix (numeric columns 0 and 2): the continuation of the
                # basis outside the edge knots must be decided per row, not per batch
                k = max(1, len(Xq) // 5)
                for col in (0, 2):
                    lo, hi = Xq[:, col].min(), Xq[:, col].max()
                    rows = rng.sample(range(len(Xq)), 2 * k)
                    for r_ in rows[:k]:
                        Xq[r_, col] = lo - (hi - lo) * rng.uniform(0.01, 0.6)
                    for r_ in rows[k:]:
                        Xq[r_, col] = hi + (hi - lo) * rng.uniform(0.01, 0.6)
                res.count('rowwise query: mixed extrapolation')
            else:
                res.count('rowwise query: training rows')
            idx = [rng.randrange(len(Xq)) for _ in range(rng.randint(1, 9))] if rng.random() < 0.5 else rng.sample(range(len(Xq)), len(Xq))
            eq = expo[h.fitdata[m]] if expo is not None else None

            def outputs(g, Q, rows=None):
                out = [np.asarray(g.predict_mu(Q), dtype=float), np.asarray(g.confidence_intervals(Q), dtype=float),
                       np.asarray(g.predict(Q), dtype=float)]
                if cls == 'LinearGAM':
                    out.append(np.asarray(g.prediction_intervals(Q), dtype=float))
                if cls == 'LogisticGAM':
                    out.append(np.asarray(g.predict_proba(Q), dtype=float))
                if cls == 'PoissonGAM' and eq is not None:
                    out.append(np.asarray(g.predict(Q, exposure=eq if rows is None else eq[rows]), dtype=float))
                return out
            try:
                with warnings_off():
                    full = outputs(model, Xq)
            except Exception:
                continue
            try:
                with warnings_off():
                    part = outputs(model, Xq[idx], idx)
            except Exception as e:
                res.violations.append(dict(what='predict on a row subset raised although the full matrix was accepted', finding=None,
                                           input=dict(cls=cls, history=h.log, model=m, rows=idx), observed=repr(e), expected='rows of the full prediction'))
                continue
            res.case(('rowwise', hid, m))
            if not all(np.allclose(b, a[idx], rtol=1e-10, atol=1e-12, equal_nan=True) for a, b in zip(full, part)):
                res.violations.append(dict(what='predictions are not row-wise', finding=None,
                                           input=dict(cls=cls, history=h.log, model=m, rows=idx),
                                           observed=dict(max_abs_diff=float(max(np.nanmax(np.abs(b - a[idx])) for a, b in zip(full, part)))),
                                           expected='rows of the full prediction'))
    return cases, meta


def pirls_state(model, cls, X, y, w, e, fa):
    """the PIRLS quantities at the model's final coefficients on its fit data, exactly as _pirls forms them:
    returns (number of rows _mask drops, linear predictor after ONE exact unmasked-row PIRLS step from there)"""
    import scipy.sparse
    from pygam.utils import check_X, check_y
    yy = np.asarray(y, dtype=float)
    ww = np.array(w).astype('f').ravel().astype(float) if fa['w'] else np.ones_like(yy)
    if cls == 'PoissonGAM' and fa['e']:
        yy, ww = model._exposure_to_weights(yy, e, ww if fa['w'] else None)
    B = model._modelmat(X)
    lp = model._linear_predictor(modelmat=B)
    mu = model.link.mu(lp, model.distribution)
    Wd = np.asarray(model._W(mu, ww, yy).diagonal(), dtype=float)
    mask = (np.abs(Wd) >= np.sqrt(np.finfo(float).eps)) * np.isfinite(Wd)
    n_masked = int((~mask).sum())
    Bm = np.asarray(B.todense())[mask]
    z = np.asarray(model._pseudo_data(yy[mask], lp[mask], mu[mask]), dtype=float)
    W2 = Wd[mask] ** 2
    P = np.asarray(model._P().todense()) if scipy.sparse.issparse(model._P()) else np.asarray(model._P())
    M = Bm.T @ (W2[:, None] * Bm) + P + np.sqrt(np.finfo(float).eps) * np.eye(Bm.shape[1])
    beta = np.linalg.solve(M, Bm.T @ (W2 * z))
    return n_masked, np.asarray(B.todense()) @ beta


def explain_mismatch(model, fresh, cls, X, y, w, e, fa):
    """why do a model and a fresh model fitted the same way on the same data predict differently although every term state comes from
    that data?  'masked': _mask dropped rows at the end point of at least one of the two fits (the warm start -- coef_ doubles as the PIRLS
    starting value -- froze the iteration on a subset of the rows); 'stopped-early': one exact PIRLS step from either end point leads to the
    same linear predictor, i.e. both fits stopped by the relative-change rule within one Newton step of the same optimum of a flat
    criterion; None: neither."""
    try:
        with warnings_off():
            m1, eta1 = pirls_state(model, cls, X, y, w, e, fa)
            m2, eta2 = pirls_state(fresh, cls, X, y, w, e, fa)
    except Exception:
        return None, {}
    info = dict(rows_masked_model=m1, rows_masked_fresh=m2)
    if m1 > 0 or m2 > 0:
        return 'masked', info
    if np.all(np.isfinite(eta1)) and np.all(np.isfinite(eta2)) and np.allclose(eta1, eta2, rtol=1e-6, atol=1e-8):
        return 'stopped-early', info
    return None, info


def observe_with_weights(h):
    """abstract observation of every model; the fresh model is of the same class, has the settings the model has NOW (a keep_best grid
    search changes lam, fit_quantile the expectile), fresh term objects, and is fitted the way the model was last fitted (same weights /
    exposure).  The flag is None (not compared) unless both fits report convergence."""
    from pygam.terms import TermList
    obs = []
    for m, model in enumerate(h.models):
        ts = user_terms(model)
        ids = [h.tid(t) for t in ts]
        kn = [knots_source(t, h.data) for t in ts]
        d = h.fitdata[m]
        fe = False
        if d and hasattr(model, 'coef_'):
            X, y, w, e = h.xyw(d)
            if any(i is None for i in ids):
                obs.append((ids, kn, d, False))
                continue
            fresh = new_model(h.cls, TermList(*[new_term(h.specs[i][0], h.specs[i][1], list(t.lam), h.specs[i][3]) for i, t in zip(ids, ts)]),
                              like=model)
            fa = h.fitargs[m]
            try:
                with warnings_off():
                    if h.cls == 'PoissonGAM':
                        fresh.fit(X, y, exposure=e if fa['e'] else None, weights=w if fa['w'] else None)
                    else:
                        fresh.fit(X, y, weights=w if fa['w'] else None)
            except Exception as ex:
                if type(ex).__name__ not in Hist.PERMITTED:
                    raise
                h.res.count('fresh_equal:%s:not compared (the fresh fit ended in %s)' % (h.cls, type(ex).__name__))
                obs.append((ids, kn, d, None))
                continue
            if not (converged(model) and converged(fresh)):
                fe = None
                h.res.count('fresh_equal:%s:not compared (no convergence reported)' % h.cls)
            else:
                try:
                    with warnings_off():
                        fe = bool(np.allclose(model.predict_mu(X), fresh.predict_mu(X), rtol=1e-5, atol=1e-8))
                        # same predictions must come with the same statistics and intervals (scale, edof, log-likelihood, AIC, a 90% CI)
                        if fe:
                            a, b = summary_stats(model, X), summary_stats(fresh, X)
                            bad = stats_mismatch(a, b, loglik_magnitude(fresh, h.cls, X, y, w, e, fa))
                            h.res.case(('fresh-stats', h.hid, m))
                            if bad:
                                h.res.violations.append(dict(
                                    what='a model predicts like a fresh model fitted the same way but its %s differ: the fit is not a function '
                                         'of settings and data' % ' / '.join(bad), finding=None,
                                    input=dict(cls=h.cls, history=h.log, model=m, data=d),
                                    observed={k: (a[k] if k != 'ci90' else float(np.abs(a[k] - b[k]).max())) for k in bad},
                                    expected={k: (b[k] if k != 'ci90' else 'equal intervals') for k in bad}))
                except Exception:
                    fe = False
                own_state = all(h.specs[i][0] == 'l' or k == d for i, k in zip(ids, kn))     # no term recompiled by another model
                if fe is False and own_state:
                    why, info = explain_mismatch(model, fresh, h.cls, X, y, w, e, fa)
                    if why == 'masked':
                        # known: the old coef_ is the PIRLS starting value; with saturated means _mask drops rows and the refit ends elsewhere
                        h.res.violations.append(dict(
                            what='a model fitted before ends at a different point than a fresh model fitted the same way on data%d: rows are '
                                 'dropped by _mask at the end point (saturated working weights after the warm start)' % d,
                            finding=FINDINGS['warm_start'], input=dict(cls=h.cls, history=h.log, model=m, data=d), observed=info,
                            expected='the same fit as a fresh model'))
                        h.res.count('fresh_equal:%s:not asserted (masked rows after warm start)' % h.cls)
                        fe = None
                    elif why == 'stopped-early':
                        h.res.count('fresh_equal:%s:True after one exact PIRLS step from both end points' % h.cls)
                        fe = True
                h.res.case(('fresh-equal', h.hid, m))
                h.res.count('fresh_equal:%s:%s' % (h.cls, fe))
        obs.append((ids, kn, d, fe))
    return obs


@contextlib.contextmanager
def quiet_fd2():
    """silence file descriptor 2 (the progress bar library keeps its own reference to the original stderr stream)"""
    import os
    import sys
    sys.stderr.flush()
    saved = os.dup(2)
    devnull = os.open(os.devnull, os.O_WRONLY)
    try:
        os.dup2(devnull, 2)
        yield
    finally:
        sys.stderr.flush()
        os.dup2(saved, 2)
        os.close(saved)
        os.close(devnull)


@contextlib.contextmanager
def warnings_off():
    import warnings
    with warnings.catch_warnings(), np.errstate(all='ignore'):
        warnings.simplefilter('ignore')
        yield


# ----------------------------------------------------------------------------- fixed-shape probes of the property statement
def direct_probes(res, data):
    from pygam import LinearGAM, s, f, l
    (XA, yA, wA), (XB, yB, wB) = data[1], data[2]

    def differs(a, b):
        return not np.allclose(a, b, rtol=1e-6, atol=1e-8)
    # (a) refit on other data: regression probe of the repaired S6a
    fresh = LinearGAM(s(0, n_splines=5)).fit(XB, yB).predict(XB)
    g = LinearGAM(s(0, n_splines=5)).fit(XA, yA).fit(XB, yB)
    res.case(('probe', 'refit'))
    if differs(g.predict(XB), fresh):
        res.violations.append(dict(what='fit(A) then fit(B) differs from a fresh fit(B)', finding=None,
                                   input=dict(model='LinearGAM(s(0, n_splines=5))', history=['fit(data1)', 'fit(data2)']),
                                   observed=dict(edge_knots=[float(x) for x in g.terms[0].edge_knots_],
                                                 max_abs_diff=float(np.abs(g.predict(XB) - fresh).max())),
                                   expected='same predictions as a fresh model'))
    # ... also for a deep copy / pickle of a fitted model, and with user-given knots kept
    g = LinearGAM(s(0, n_splines=5)).fit(XA, yA)
    for via, c in (('deepcopy', copy.deepcopy(g)), ('pickle', pickle.loads(pickle.dumps(g)))):
        c.fit(XB, yB)
        res.case(('probe', 'refit-' + via))
        if differs(c.predict(XB), fresh):
            res.violations.append(dict(what='%s of a model fitted on A, fitted on B, differs from a fresh fit(B)' % via, finding=None,
                                       input=dict(model='LinearGAM(s(0, n_splines=5))', history=['fit(data1)', via, 'fit(data2)']),
                                       observed='different', expected='same predictions as a fresh model'))
    ek = [float(XB[:, 0].min()) - 0.5, float(XB[:, 0].max()) + 0.5]
    fresh_k = LinearGAM(s(0, n_splines=5, edge_knots=list(ek))).fit(XB, yB)
    gk = LinearGAM(s(0, n_splines=5, edge_knots=list(ek))).fit(XA, yA).fit(XB, yB)
    res.case(('probe', 'refit-given-knots'))
    if differs(gk.predict(XB), fresh_k.predict(XB)) or [float(x) for x in gk.terms[0].edge_knots_] != ek:
        res.violations.append(dict(what='user-given edge_knots are not kept across fits (or the refit differs from a fresh fit)', finding=None,
                                   input=dict(model='LinearGAM(s(0, n_splines=5, edge_knots=%r))' % ek, history=['fit(data1)', 'fit(data2)']),
                                   observed=dict(edge_knots=[float(x) for x in gk.terms[0].edge_knots_]), expected=ek))
    # same data twice is fine
    g = LinearGAM(s(0, n_splines=5)).fit(XB, yB).fit(XB, yB)
    res.case(('probe', 'refit-same'))
    if differs(g.predict(XB), fresh):
        res.violations.append(dict(what='fit(B) twice differs from a fresh fit(B)', finding=None, input=dict(history=['fit(data2)'] * 2),
                                   observed='different', expected='same'))
    # deep copy of an unfitted model behaves like a fresh one
    g0 = LinearGAM(s(0, n_splines=5))
    gc = copy.deepcopy(g0).fit(XB, yB)
    res.case(('probe', 'deepcopy-unfitted'))
    if differs(gc.predict(XB), fresh):
        res.violations.append(dict(what='deep copy of an unfitted model fitted on B differs from a fresh fit(B)', finding=None,
                                   input=dict(history=['deepcopy', 'fit(data2)']), observed='different', expected='same'))
    # (b) one term expression, two models: the second model's own fit is that of a fresh model (regression probe), but the term
    # objects are shared, so fitting the second model recompiles the first model's terms
    for expr, mk, key in (('t = s(0, n_splines=5)', lambda: s(0, n_splines=5), 'shared'), ('t = f(1)', lambda: f(1), 'shared_overwrite'),
                          ('t = s(0, n_splines=5) + l(2)', lambda: s(0, n_splines=5) + l(2), 'shared')):
        fresh_e = LinearGAM(mk()).fit(XB, yB).predict(XB)
        t = mk()
        g1, g2 = LinearGAM(t), LinearGAM(t)
        g1.fit(XA, yA)
        pA = g1.predict(XA)
        g2.fit(XB, yB)
        res.case(('probe', 'shared', expr))
        if differs(g2.predict(XB), fresh_e):
            res.violations.append(dict(what='a model built from a term expression already used by a fitted model differs from a fresh fit',
                                       finding=None, input=dict(expr=expr, history=['LinearGAM(t).fit(data1)', 'LinearGAM(t).fit(data2)']),
                                       observed='different', expected='same predictions as a fresh model'))
        try:
            changed = differs(g1.predict(XA), pA)
        except Exception as e:
            changed = True
        if changed:
            res.violations.append(dict(what='fitting one model changed another model\'s predictions (term objects of one term expression are '
                                            'shared and recompiled in place)', finding=FINDINGS[key],
                                       input=dict(expr=expr, history=['g1 = LinearGAM(t).fit(data1)', 'g2 = LinearGAM(t).fit(data2)', 'g1.predict(X1)']),
                                       observed='g1 predictions changed', expected='unchanged'))
    # (c) regression probe of the repaired S6c: after keep_best the model shares nothing with a returned candidate (nor with the
    # caller's term expression), so refitting it leaves every candidate's predictions alone
    t = f(1) + s(0, n_splines=5)
    g = LinearGAM(t)
    scores = g.gridsearch(XA, yA, lam=np.array([0.5, 5.0]), keep_best=True, return_scores=True, progress=False)
    cands = [c for c in scores.keys() if c is not g]
    mine = {id(x) for x in g.terms._terms}
    alias = [c for c in cands if c.terms is g.terms or mine & {id(x) for x in c.terms._terms} or c.statistics_ is g.statistics_]
    pcs = [c.predict(XA) for c in cands]
    g.fit(XB, yB)
    res.case(('probe', 'keep-best-alias'))
    changed = False
    for c, pc in zip(cands, pcs):
        try:
            changed = changed or differs(c.predict(XA), pc)
        except Exception:
            changed = True
    if alias or changed or (mine & {id(x) for x in t._terms}):
        res.violations.append(dict(what='gridsearch(keep_best=True) leaves self sharing objects with a returned candidate or with the caller\'s '
                                        'term expression (refitting self changes a candidate\'s predictions)', finding=None,
                                   input=dict(model='LinearGAM(f(1) + s(0, n_splines=5))',
                                              history=['gridsearch(data1, keep_best=True, return_scores=True)', 'fit(data2)']),
                                   observed=dict(aliased=bool(alias), candidate_predictions_changed=bool(changed)), expected='nothing shared'))
    # row-wise predictions when one query matrix holds rows on both sides of the training range
    g = LinearGAM(s(0, n_splines=6) + l(2)).fit(XA, yA)
    lo0, hi0 = XA[:, 0].min(), XA[:, 0].max()
    lo2, hi2 = XA[:, 2].min(), XA[:, 2].max()
    Q = np.array([[lo0 - 0.3, 11.0, lo2 - 0.1], [hi0 + 0.3, 11.0, hi2 + 0.1], [0.5 * (lo0 + hi0), 11.0, 0.5 * (lo2 + hi2)],
                  [hi0 + 1.7, 11.0, lo2 - 0.4], [lo0 - 2.0, 11.0, hi2 + 0.2]])
    full = g.predict(Q)
    fullci = g.confidence_intervals(Q)
    res.case(('probe', 'rowwise-mixed-extrapolation'))
    for i in range(len(Q)):
        one = g.predict(Q[i:i + 1])
        oneci = g.confidence_intervals(Q[i:i + 1])
        if not (np.allclose(one, full[i:i + 1], rtol=1e-12, atol=1e-12) and np.allclose(oneci, fullci[i:i + 1], rtol=1e-10, atol=1e-10)):
            res.violations.append(dict(what='predictions are not row-wise: a row predicted alone differs from the same row predicted in a matrix that '
                                            'also holds rows on the other side of the training range', finding=None,
                                       input=dict(model='LinearGAM(s(0, n_splines=6) + l(2)).fit(data1)', query=Q.tolist(), row=i),
                                       observed=dict(alone=float(one[0]), in_matrix=float(full[i])), expected='equal'))
            break
    # fit depends only on settings and data, for the non-Gaussian classes too: a fresh fit, a second fit of the same object on the same
    # data, a fitted deep copy of the unfitted model and a fit on the same targets with another dtype / container all give the same model
    import pygam
    rsq = np.random.RandomState(7)
    for cls, yy in (('LogisticGAM', (rsq.rand(len(yA)) < 1 / (1 + np.exp(-2 * np.sin(3 * XA[:, 0])))).astype(float)),
                    ('PoissonGAM', rsq.poisson(np.exp(0.3 + np.sin(3 * XA[:, 0]))).astype(float)),
                    ('GammaGAM', np.exp(np.sin(3 * XA[:, 0])) * rsq.gamma(8.0, 1 / 8.0, size=len(yA)))):
        mk = lambda: getattr(pygam, cls)(s(0, n_splines=6) + l(2), tol=1e-10, max_iter=300)
        with warnings_off():
            ref = mk().fit(XA, yy.copy()).predict_mu(XA)
            variants = {'second fit of the same object on the same data': mk().fit(XA, yy.copy()).fit(XA, yy.copy()).predict_mu(XA),
                        'deep copy of the unfitted model': copy.deepcopy(mk()).fit(XA, yy.copy()).predict_mu(XA),
                        'targets given as a list': mk().fit(XA, yy.tolist()).predict_mu(XA)}
            if cls != 'GammaGAM':
                variants['targets given as an integer array'] = mk().fit(XA, yy.astype(int)).predict_mu(XA)
                variants['targets given as float32'] = mk().fit(XA, yy.astype(np.float32)).predict_mu(XA)
        for name, pv in variants.items():
            res.case(('probe', 'fit-function-of-data', cls, name))
            if not np.allclose(pv, ref, rtol=1e-5, atol=1e-7):
                res.violations.append(dict(what='%s: fit is not a function of settings and data: %s differs from a fresh fit on the same float64 targets' % (cls, name),
                                           finding=None, input=dict(model='%s(s(0, n_splines=6) + l(2), tol=1e-10, max_iter=300)' % cls, X='data1 X',
                                                                    y=yy.tolist(), variant=name),
                                           observed=dict(max_abs_diff=float(np.abs(pv - ref).max())), expected='same fitted means (rtol 1e-5)'))
    # caller arrays: integer / float32 / list inputs are not written to
    Xi = (XA * 4).astype(int)
    yi = (yA * 4).astype(int)
    b = snap([Xi, yi])
    gi = LinearGAM(s(0, n_splines=5) + l(2)).fit(Xi, yi)
    gi.predict(Xi)
    res.case(('probe', 'int-arrays'))
    if snap([Xi, yi]) != b:
        res.violations.append(dict(what='fit/predict modified integer caller arrays', finding=None, input=dict(dtype='int'),
                                   observed='changed', expected='unchanged'))


def run(res):
    rng = common.rng_for(res.seed, PROP)
    quick = res.tier == 'quick'
    res.rule = ('random call histories (6-14 steps), distributed evenly over the six named model classes LinearGAM, LogisticGAM, PoissonGAM, GammaGAM, '
                'InvGaussGAM, ExpectileGAM and the generic GAM with normal/identity, gamma/log, inv_gauss/log, binomial/logit, poisson/log (class-appropriate targets per data set: reals, 0/1, counts, positive reals; tol=1e-7, max_iter=200), '
                'over up to 5 term objects (spline / factor / linear) and up to 5 models built from overlapping subsets of the SAME term '
                'objects, three data sets with distinct ranges / category codes: fit (with or without weights; PoissonGAM with or without '
                'exposure; ExpectileGAM also fit_quantile), predict, predict_mu, confidence intervals, partial_dependence, summary, sample, '
                'loglikelihood (with exposure for PoissonGAM), deviance_residuals, score, class-specific queries (prediction_intervals, '
                'predict_proba, accuracy, predict with exposure), gridsearch keep_best on/off, deepcopy, pickle, set_params -- executed on real '
                'models and on the Coq heap machine; compared per model: identity graph of term objects, which data set each term\'s edge '
                'knots / categories come from, fitted data set, "predicts like a fresh model of the same class and current settings fitted the '
                'same way" (rtol 1e-5, only when both fits report convergence; the rest is counted) and then also has its scale, edof (rtol 1e-5), log-likelihood (abs 1e-5 * (n + sum of |per-observation terms|)), AIC (twice that + 1e-5 * (2 edof + 2)) and a 90% confidence interval (1e-5 of width + |bound|); sample is called with n_bootstraps 1, 2, 3 at the training data and at another data set. Around every call the caller\'s '
                'X / y / weights / exposure are compared bitwise; around every query predict_mu(X_ref), statistics_, coef_ and the term objects\' lam / n_splines / edge knots are compared '
                'bitwise; predictions / intervals / class-specific predictions on random row subsets and permutations must equal the rows of '
                'the full result. A history is non-trivial when it contains a fit; all generated histories do.')
    common.standard_prove(res, PROPS_FILE)
    data = make_data(res.seed % 1000)
    try:
        direct_probes(res, data)
    except Exception as e:
        import traceback
        res.violations.append(dict(what='a fixed-shape isolation probe raised (fit of a second model built from a term expression that '
                                        'another model was fitted with, refit on other data, or keep_best grid search)', finding=None,
                                   input=dict(probe='harness/props/c15.py direct_probes', trace=traceback.format_exc()[-600:]),
                                   observed='%s: %s' % (type(e).__name__, e), expected='no exception'))
    targets, expo = make_targets(data, res.seed % 1000)
    # progress bars of inner grid searches (bootstrap sampling) go to stderr: keep the check's output to its own lines
    with quiet_fd2():
        cases, meta = history_cases(res, rng, 396 if quick else 4004, data, targets, expo)
    with common.CaseDir(PROP) as cd:
        failing, errors = common.run_bool_cases(cd, HEADER, cases, 'check_case', shard=60)
    for name, out in errors:
        res.obligation('correspondence-file:' + name, False, detail=out, kind='correspondence')
    res.obligation('correspondence:C15 heap machine = implementation (sharing graph, knots provenance, fresh-equality flags)',
                   not failing and not errors,
                   detail='failing case indices %s; first: %s' % (failing[:10], repr(meta[failing[0]])[:2500] if failing else ''),
                   kind='correspondence')
    for i, m in enumerate(meta):
        res.case(('history', i), sample=m if i in (1, 7) else None)
    for i in failing[:20]:
        res.violations.append(dict(what='implementation disagrees with the heap machine', finding=None, input=meta[i],
                                   observed='observation differs', expected='see coq/Model/Heap.v'))
    res.extra['correspondence_cases'] = len(cases)
    res.extra['tolerances'] = {'caller arrays, predict_mu / statistics_ / coef_ around queries': 'bitwise',
                               'prediction equals fresh model': 'rtol 1e-5, atol 1e-8, compared only when the model and the fresh model report convergence (tol 1e-7); a mismatch with all term state from the fit data is re-examined: rows dropped by _mask at an end point = known finding S6e (flag not asserted); one exact PIRLS step from both end points giving the same linear predictor (rtol 1e-6) = both stopped by the relative-change rule near the same optimum (counted equal); anything else is a violation',
                               'row-wise predictions': 'rtol 1e-10, atol 1e-12'}
    res.trusted.append('hand-written heap machine coq/Model/Heap.v (term objects by reference, compile in place), validated by '
                       'correspondence on random histories of all six model classes (the machine does not inspect the family); pickle / deepcopy are '
                       'modelled as copies')


def replay(res, rp):
    run(res)
