"""C13 -- lam trades fidelity for smoothness monotonically and with the right limits."""
import copy
import math
import warnings

import numpy as np

import common
import gen_models
import gen_terms
from props import c01

PROP = 'C13'
SQRT_EPS = float(np.sqrt(np.finfo(np.float64).eps))
LAMS = [1e-6, 1e-4, 1e-2, 1.0, 1e2, 1e4, 1e6, 1e8]
S12 = 'S12-rss-not-monotone-per-lam'


def one_penalty(specs):
    """every tensor marginal gets exactly one penalty, every other non-intercept term one or two, so that every lam value <-> one matrix"""
    out = []
    for s in specs:
        s = copy.deepcopy(s)
        if s['kind'] == 'te':
            for m in s['margins']:
                m['lam'] = m['lam'][:1]; m['penalties'] = m['penalties'][:1]
        elif s['kind'] != 'intercept':
            s['lam'] = s['lam'][:2]; s['penalties'] = s['penalties'][:2]
        out.append(s)
    return out


def lam_slots(specs):
    """addresses of the individual lam values: (term index, marginal index or None, penalty index)"""
    slots = []
    for i, s in enumerate(specs):
        if s['kind'] == 'te':
            slots += [(i, j, 0) for j in range(len(s['margins']))]
        elif s['kind'] != 'intercept':
            slots += [(i, None, p) for p in range(len(s['lam']))]
    return slots


def with_lams(specs, values):
    out = copy.deepcopy(specs)
    for (i, j, p), v in zip(lam_slots(out), values):
        if j is None:
            out[i]['lam'][p] = float(v)
        else:
            out[i]['margins'][j]['lam'] = [float(v)]
    return out


def nested_lams(specs, values):
    """the lam vector in the shape the model-level attribute `gam.lam` has: one list per non-intercept term, one list per tensor marginal"""
    out = []
    it = iter(values)
    for s in specs:
        if s['kind'] == 'te':
            out.append([[float(next(it))] for _ in s['margins']])
        elif s['kind'] != 'intercept':
            out.append([float(next(it)) for _ in s['lam']])
    return out


def unit_penalties(specs, X):
    """P_k for every lam slot, embedded in the full coefficient space, built by the implementation.  The penalty is linear in the
    lam vector, so P_k = (P(v + v_k e_k) - P(v)) / v_k; v_k = 3^k keeps all lam vectors free of repeated values (a TermList drops a
    term that is equal -- lam included -- to an earlier one, which a 0/1 lam vector would trigger for otherwise identical terms)"""
    slots = lam_slots(specs)
    v = [3.0 ** k for k in range(len(slots))]

    def pen(vals):
        tl = gen_terms.build_termlist(with_lams(specs, vals))
        tl.compile(X.copy())
        return tl.build_penalties().toarray()
    P0 = pen(v)
    Ps = []
    for k in range(len(slots)):
        vals = list(v)
        vals[k] = 2 * v[k]
        Ps.append((pen(vals) - P0) / v[k])
    return Ps


def fit(scn, specs, route='constructor', vals=None, base_specs=None):
    """route 'constructor': the lam values are written into the term constructors; 'attribute': the model is built with other lam values
    and the lam vector is assigned through the model-level attribute (the plural setter of the term list), as gridsearch does"""
    if route == 'constructor':
        s2 = dict(scn, specs=specs)
        gam, its, out = gen_models.fit_captured(s2, tol=1e-12, max_iter=50)
        return gam, its
    s2 = dict(scn, specs=base_specs)
    orig = gen_models.build_gam

    def build(scn_, callbacks=None, **over):
        g = orig(scn_, callbacks=callbacks, **over)
        g.lam = nested_lams(base_specs, vals)
        return g
    gen_models.build_gam = build
    try:
        gam, its, out = gen_models.fit_captured(s2, tol=1e-12, max_iter=50)
    finally:
        gen_models.build_gam = orig
    return gam, its


def s12_witness(res):
    """the mathematical counter-example of C13_rss_monotone_each_refuted replayed on pyGAM: two penalised terms on the same feature;
    raising the first lam from 1e-4 to 1e-2 lowers the residual sum of squares"""
    from pygam import LinearGAM, s
    r = np.random.RandomState(10)
    n = 20
    x0 = r.rand(n); x1 = r.rand(n)
    X = np.c_[x0, x1]
    y = np.sin(4 * x0) * np.cos(3 * x1) + 0.2 * r.randn(n)
    rss = []
    for a in (1e-4, 1e-2):
        g = LinearGAM(s(0, n_splines=5, lam=a, penalties='l2') + s(0, n_splines=7, lam=0.01), fit_intercept=False).fit(X, y)
        rss.append(float(((y - g.predict(X)) ** 2).sum()))
    res.case(('s12-witness',))
    if rss[1] < rss[0] * (1 - 1e-4):
        res.violations.append(dict(what='weighted RSS decreased when one lam increased while other penalised terms are present', finding=S12,
                                   input=dict(model="LinearGAM(s(0, n_splines=5, lam=a, penalties='l2') + s(0, n_splines=7, lam=0.01), fit_intercept=False)",
                                              data='RandomState(10): n=20, X=rand(n,2), y=sin(4 x0) cos(3 x1) + 0.2 randn', lam=[1e-4, 1e-2]),
                                   observed=dict(rss=rss), expected='property text: never decreases'))


def run(res):
    rng = common.rng_for(res.seed, PROP)
    nscn = 10 if res.tier == 'quick' else 80
    res.rule = ('seeded unconstrained LinearGAM problems (spline / linear / factor / tensor terms, weights, intercept on/off), one penalty per lam; each lam '
                'separately and all jointly run through %s; a sample of the fits is certified in Coq against the exact normal equations '
                '(C01 checker); on the fitted values: edof non-increasing, g_i = b\'P_i b non-increasing and H = wRSS + other penalties + ridge non-decreasing '
                '(the proved trade-off), RSS non-decreasing for single-penalty models and joint scaling, the lam -> infinity bounds against the weighted '
                'least-squares fit in the penalty null space, lam = 0 against an unpenalised solve. Per-lam RSS decreases with other penalised terms present '
                'are counted under known finding S12. Distinct by (scenario, varied slot).' % LAMS)
    common.standard_prove(res, ['Props/C13.v', 'Props/C13Alg.v'], extra=['Model/C01Check.vo'])
    warnings.simplefilter('ignore')
    cert_cases, cert_meta = [], []
    for si in range(nscn):
        scn = gen_models.gen_scenario(rng, cls='LinearGAM', regime=rng.choice(['n>m', 'n>m', 'n=m', 'n<m']), max_n=45, max_m=16, allow_cp=False)
        scn['kw'].pop('scale', None)
        scn['kw']['fit_intercept'] = rng.random() < 0.5
        specs = one_penalty([s for s in scn['specs'] if s['kind'] != 'intercept'])
        # penalties that are identically zero make lam meaningless: replace 'none'/None by 'auto'
        for s in specs:
            for t in (s['margins'] if s['kind'] == 'te' else [s]):
                t['penalties'] = ['auto' if q in (None, 'none') else q for q in t['penalties']]
        scn['specs'] = specs
        X, y = scn['X'], scn['y']
        n = len(y)
        w = np.ones(n) if scn['w'] is None else np.asarray(scn['w'], dtype=np.float32).astype(float)
        slots = lam_slots(specs)
        if not slots:
            continue
        base = [10 ** rng.uniform(-3, 3) for _ in slots]
        try:
            Ps = unit_penalties(specs, X)
        except Exception as e:
            res.count('setup error %s' % type(e).__name__)
            continue
        if scn['kw']['fit_intercept']:
            Ps = [np.pad(P, ((0, 1), (0, 1))) for P in Ps]
        d0 = gen_models.describe(scn)
        for vary in list(range(len(slots))) + ['joint']:
            traj = []
            for lam in LAMS:
                vals = [b * lam for b in base] if vary == 'joint' else [lam if k == vary else base[k] for k in range(len(slots))]
                route = 'attribute' if rng.random() < 0.5 else 'constructor'
                res.count('lam set through: %s' % route)
                try:
                    gam, its = fit(scn, with_lams(specs, vals), route=route, vals=vals, base_specs=with_lams(specs, [3.0 ** k for k in range(len(slots))]))
                except ValueError as e:
                    res.count('fit raised %s' % type(e).__name__)
                    traj = None
                    break
                if its[-1]['l2'] != 1e-3:
                    res.count('cholesky escalation')
                    traj = None
                    break
                B = gam._modelmat(X).toarray()
                beta = gam.coef_
                # every lam value multiplies its own penalty matrix, whichever way it was set
                Pimpl = gam.terms.build_penalties().toarray()
                Pexp = sum(v * Pk for v, Pk in zip(vals, Ps))
                if Pimpl.shape != Pexp.shape or not np.allclose(Pimpl, Pexp, rtol=1e-9, atol=1e-12 * max(1.0, np.abs(Pexp).max())):
                    res.violations.append(dict(what='the penalty of the fitted model is not sum_k lam_k P_k: a lam value multiplies the wrong penalty matrix',
                                               finding=None, input=dict(d0, lam_values=vals, lam_set_through=route, nested=nested_lams(specs, vals)),
                                               observed=dict(model_lam=repr(gam.lam)), expected='lam vector %r in slot order' % (vals,)))
                    traj = None
                    break
                fitted = B @ beta
                wr = float(np.sum(w * (y - fitted) ** 2))
                gs = [float(beta @ P @ beta) for P in Ps]
                # accuracy of edof in binary64: the code factors S + P by Cholesky; its backward error m eps |S + P| acts like an extra ridge, which moves
                # edof by at most m * (m eps |S + P|) / lambda_min(B'WB + S + P)  (first-order perturbation of trace((A + R)^-1 A))
                Mtot = B.T @ (w[:, None] * B) + Pimpl + SQRT_EPS * np.eye(B.shape[1])
                mm = B.shape[1]
                edof_acc = 8 * mm * mm * 2.3e-16 * float(np.linalg.norm(Pimpl, 2) + SQRT_EPS) / max(float(np.linalg.eigvalsh(Mtot)[0]), 1e-300)
                traj.append(dict(lam=lam, vals=vals, edof=float(gam.statistics_['edof']), rss=wr, gs=gs, ridge=SQRT_EPS * float(beta @ beta),
                                 fitted=fitted, beta=beta, B=B, edof_acc=edof_acc, Ptot=Pimpl))
                if rng.random() < (0.06 if res.tier == 'quick' else 0.02):
                    cert_cases.append(c01.case_of(dict(scn, specs=with_lams(specs, vals)), its[0]))
                    cert_meta.append(dict(d0, lam_values=vals))
            if traj is None:
                continue
            key = (si, str(vary))
            res.case(key, sample=dict(d0, varied=str(vary), lams=LAMS, edof=[t['edof'] for t in traj], rss=[t['rss'] for t in traj]) if si < 2 and vary in (0, 'joint') else None)
            res.count('varied:%s' % ('joint' if vary == 'joint' else 'single'))
            single_pen = len(slots) == 1
            inp = dict(d0, varied=str(vary), base_lams=base, X=X.tolist(), y=y.tolist(), weights=None if scn['w'] is None else scn['w'].tolist())
            for a, b in zip(traj[:-1], traj[1:]):
                scale_e = 1e-7 * max(1.0, a['edof']) + a['edof_acc'] + b['edof_acc']
                if a['edof_acc'] + b['edof_acc'] > 1e-3:
                    res.count('edof comparison not meaningful in binary64 (Cholesky backward error / lambda_min > 1e-3)')
                if b['edof'] > a['edof'] + scale_e:
                    res.violations.append(dict(what='effective degrees of freedom increased when lam increased', finding=None, input=inp,
                                               observed=dict(lam=[a['lam'], b['lam']], edof=[a['edof'], b['edof']]), expected='non-increasing'))
                if vary == 'joint':
                    ga = sum(bl * g for bl, g in zip(base, a['gs'])); gb = sum(bl * g for bl, g in zip(base, b['gs']))
                    Ha, Hb = a['rss'] + a['ridge'], b['rss'] + b['ridge']
                else:
                    ga, gb = a['gs'][vary], b['gs'][vary]
                    Ha = a['rss'] + a['ridge'] + sum(base[k] * a['gs'][k] for k in range(len(slots)) if k != vary)
                    Hb = b['rss'] + b['ridge'] + sum(base[k] * b['gs'][k] for k in range(len(slots)) if k != vary)
                tolH = 1e-7 * (abs(Ha) + abs(Hb)) + 1e-9 * float(np.sum(w * y * y))
                if gb > ga + 1e-7 * (abs(ga) + abs(gb)) + 1e-12 * float(np.sum(y * y)) or Hb < Ha - tolH:
                    res.violations.append(dict(what='proved trade-off violated: roughness g increased or H = wRSS + other penalties + ridge decreased when lam increased',
                                               finding=None, input=inp, observed=dict(lam=[a['lam'], b['lam']], g=[ga, gb], H=[Ha, Hb]), expected='g non-increasing, H non-decreasing'))
                tolR = 1e-7 * (a['rss'] + b['rss']) + 2 * (a['ridge'] + b['ridge']) + 1e-9 * float(np.sum(w * y * y))
                if b['rss'] < a['rss'] - tolR:
                    if vary != 'joint' and not single_pen:
                        res.count('S12 instances (per-lam RSS decrease with other penalties present)')
                        res.violations.append(dict(what='weighted RSS decreased when one lam increased while other penalised terms are present', finding=S12,
                                                   input=inp, observed=dict(lam=[a['lam'], b['lam']], rss=[a['rss'], b['rss']]), expected='property text: never decreases'))
                    else:
                        res.violations.append(dict(what='weighted RSS decreased when lam increased (single penalty / joint scaling)', finding=None, input=inp,
                                                   observed=dict(lam=[a['lam'], b['lam']], rss=[a['rss'], b['rss']]), expected='non-decreasing'))
            # ---- limit lam -> infinity and lam = 0 (for the varied penalty)
            t_hi = traj[-1]
            P = sum(bl * Pk for bl, Pk in zip(base, Ps)) if vary == 'joint' else Ps[vary]
            B = t_hi['B']
            m = B.shape[1]
            S0 = SQRT_EPS * np.eye(m) + (0 if vary == 'joint' else sum(base[k] * Ps[k] for k in range(len(slots)) if k != vary))
            ev, evec = np.linalg.eigh(P)
            N = evec[:, ev <= 1e-10 * max(1.0, ev.max())]
            if N.shape[1] > 0:
                Bn = B @ N
                A = np.vstack([np.sqrt(w)[:, None] * Bn, np.linalg.cholesky(N.T @ S0 @ N + 1e-300 * np.eye(N.shape[1])).T])
                rhs = np.concatenate([np.sqrt(w) * y, np.zeros(N.shape[1])])
                c0 = np.linalg.lstsq(A, rhs, rcond=None)[0]
                b0 = N @ c0
                H0 = float(np.sum(w * (y - B @ b0) ** 2) + b0 @ S0 @ b0)
                lam_hi = LAMS[-1]
                beta = t_hi['beta']
                Hl = float(np.sum(w * (y - B @ beta) ** 2) + beta @ S0 @ beta)
                gl = float(beta @ P @ beta)
                res.case(('limit', si, str(vary)))
                # binary64: the code's Cholesky of S + P has backward error ~ m eps |S + P|, which acts like an extra ridge of that size on the
                # null space at lam = 1e8; it can raise H(b_lam) by about that ridge times |b|^2
                chol_ridge = 8 * m * 2.3e-16 * float(np.linalg.norm(t_hi['Ptot'], 2)) * float(beta @ beta) if 'Ptot' in t_hi else 0.0
                if Hl > H0 * (1 + 1e-6) + 1e-9 * float(np.sum(w * y * y)) + chol_ridge or gl > H0 / lam_hi * (1 + 1e-3) + 1e-12 * float(np.sum(y * y)):
                    res.violations.append(dict(what='lam -> infinity bounds violated: H(b_lam) <= H(b0), g(b_lam) <= H(b0)/lam for the null-space least-squares fit b0',
                                               finding=None, input=inp, observed=dict(H_lam=Hl, H0=H0, g_lam=gl, bound=H0 / lam_hi), expected='within bounds'))
                # the proved rate (C13_limit_rate): with P u = A'z - M b0 (M = B'WB + S0), (b_l - b0)' M (b_l - b0) <= u'Pu / (2 l) and
                # b_l' P b_l <= u'Pu / l^2 for every l > 0.  u is computed here (least squares on the symmetric P; the hypothesis is satisfiable
                # exactly when the residual is at rounding level) and the bounds are evaluated along the whole lam path of the implementation
                Mm = B.T @ (w[:, None] * B) + S0
                rho = B.T @ (w * y) - Mm @ b0
                u_ = np.linalg.lstsq(P, rho, rcond=None)[0]
                hyp = float(np.linalg.norm(P @ u_ - rho)) / (float(np.linalg.norm(rho)) + 1e-300)
                if float(np.linalg.norm(rho)) <= 1e-9 * float(np.linalg.norm(B.T @ (w * y)) + 1e-300) or hyp <= 1e-7:
                    uPu = float(u_ @ P @ u_)
                    swy = float(np.sum(w * y * y))
                    for tp in traj:
                        lam_eff = tp['lam']
                        if lam_eff > 1e4:
                            continue        # beyond: the Cholesky backward error of the code acts like an extra ridge (see edof_acc above)
                        r_ = tp['beta'] - b0
                        lhs_m = float(r_ @ Mm @ r_)
                        lhs_p = float(tp['beta'] @ P @ tp['beta'])
                        res.case(('rate', si, str(vary), lam_eff))
                        if lhs_m > uPu / (2 * lam_eff) * (1 + 1e-6) + 1e-7 * swy or lhs_p > uPu / lam_eff ** 2 * (1 + 1e-6) + 1e-7 * swy / max(lam_eff, 1e-300):
                            res.violations.append(dict(what='proved rate violated: (b_l - b0)\'M(b_l - b0) <= u\'Pu / (2 l) or b_l\'P b_l <= u\'Pu / l^2 fails for the null-space fit b0',
                                                       finding=None, input=inp, observed=dict(lam=lam_eff, dist_M=lhs_m, g=lhs_p, uPu=uPu), expected='within the bounds'))
                            break
                    res.count('rate bound evaluated along the path')
                else:
                    res.count('rate bound: hypothesis P u = A\'z - M b0 not met numerically (relative residual > 1e-7), skipped')
                gap = float(np.max(np.abs(B @ beta - B @ b0)) / (np.max(np.abs(y)) + 1e-300))
                # the closeness check only makes sense where lam has reached the limit regime: by the proved bound the component of b_lam outside the
                # null space has squared norm <= H0 / (lam * smallest positive eigenvalue of P); compare the fits only when that is negligible
                lam_pos = float(ev[ev > 1e-10 * max(1.0, ev.max())].min()) if (ev > 1e-10 * max(1.0, ev.max())).any() else float('inf')
                out_of_null = math.sqrt(max(H0, 0.0) / (lam_hi * lam_pos)) * float(np.linalg.norm(B, axis=1).max()) / (float(np.max(np.abs(y))) + 1e-300)
                if out_of_null > 1e-3:
                    res.count('limit closeness not compared: lam = 1e8 has not reached the limit regime (bound on the non-null component > 1e-3)')
                elif n <= N.shape[1] or n <= m:
                    # with no more rows than coefficients the fit within the null space is determined by the sqrt(eps) ridge, and at lam = 1e8 the
                    # Cholesky backward error of the code is a ridge of comparable or larger size: the heuristic comparison is meaningless there
                    # (the proved rate bound above is what is evaluated, up to lam = 1e4)
                    res.count('limit closeness not compared: n <= m (ridge-determined null-space fit)')
                elif gap > 2e-2:
                    res.violations.append(dict(what='fit at lam = 1e8 is not close to the weighted least-squares fit within the unpenalised space (checked, not proved)',
                                               finding=None, input=inp, observed=dict(max_relative_gap=gap), expected='<= 2e-2'))
            # lam = 0
            vals0 = [0.0 for _ in base] if vary == 'joint' else [0.0 if k == vary else base[k] for k in range(len(slots))]
            try:
                gam0, its0 = fit(scn, with_lams(specs, vals0))
                B0 = gam0._modelmat(X).toarray()
                S00 = SQRT_EPS * np.eye(m) + (0 if vary == 'joint' else sum(base[k] * Ps[k] for k in range(len(slots)) if k != vary))
                A = np.vstack([np.sqrt(w)[:, None] * B0, np.linalg.cholesky(S00).T])
                rhs = np.concatenate([np.sqrt(w) * y, np.zeros(m)])
                bref = np.linalg.lstsq(A, rhs, rcond=None)[0]
                err = float(np.max(np.abs(B0 @ bref - gam0.predict_mu(X))) / (np.max(np.abs(y)) + 1e-300))
                res.case(('lam0', si, str(vary)))
                if err > 1e-6:
                    res.violations.append(dict(what='fit at lam = 0 differs from unpenalised weighted least squares on the basis', finding=None, input=inp,
                                               observed=dict(max_relative_difference=err), expected='<= 1e-6'))
            except ValueError as e:
                res.count('lam=0 fit raised %s' % type(e).__name__)
    s12_witness(res)
    with common.CaseDir(PROP) as cd:
        failing, errors = common.run_bool_cases(cd, c01.HEADER, cert_cases, 'check_case', shard=6)
    for name, out in errors:
        res.obligation('correspondence-file:' + name, False, detail=out, kind='correspondence')
    res.obligation('correspondence:sampled fits along the lam paths satisfy the exact normal equations (C01 checker)', not failing and not errors,
                   detail='failing %s' % failing[:10], kind='correspondence')
    for i in failing:
        res.violations.append(dict(what='fit on the lam path does not satisfy the penalised normal equations', finding=None, input=cert_meta[i], observed='check_case = false', expected='true'))
    res.extra['certified_fits'] = len(cert_cases)


def replay(res, rp):
    run(res)
