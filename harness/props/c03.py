"""C03 -- the spline basis is the uniform-knot Cox-de Boor B-spline basis with linear / periodic continuation.

Three parts:
 (1) theorems of coq/Props/C03.v re-checked;
 (2) correspondence: b_spline_basis (dense; the sparse result must be identical) and SplineTerm.build_columns against
     coq/Model/BSpline.v evaluated on exact rationals by vm_compute, every entry, tolerance 1e-8 * max(1,|entry|);
 (3) the property statement evaluated directly on the implementation (row sums, signs, support width, linear
     continuation, continuity, periodicity, affine invariance, edge knots = (min, max)), independent of the Coq model.
"""
import math
import warnings
from fractions import Fraction

import numpy as np

import common
from common import zlit, dylit, coq_list, qlit, coq_bool

PROP = 'C03'
PROPS_FILE = 'Props/C03.v'

HEADER = """From Coq Require Import List ZArith QArith Bool.
From PG Require Import Base.Ops Base.Vec Model.BSpline Model.C03Check.
Import ListNotations.
Open Scope Q_scope.
"""
TOL = Fraction(1, 10 ** 8)
P_EXACT = 1 + Fraction(1, 10 ** 9)
P_FLOAT = 1 + 1e-9
ADJ = 1e-12          # relative distance to a discontinuity below which either side is accepted


# ----------------------------------------------------------------------------- implementation side
def impl_rows(x, ek, n, k, periodic, sparse=False):
    """list of outcomes, one per x: np row | ('VE', msg) | ('ERR', name, msg).  Batch first, per point on failure."""
    from pygam.utils import b_spline_basis
    x = np.asarray(x, dtype=float)

    def call(xx):
        with warnings.catch_warnings():
            warnings.simplefilter('ignore')
            r = b_spline_basis(xx, np.array(ek, dtype=float), n_splines=n, spline_order=k, sparse=sparse,
                               periodic=periodic, verbose=False)
        if sparse:
            r = r.toarray()
        return np.asarray(r, dtype=float)
    try:
        r = call(x)
        return [r[i] for i in range(len(x))]
    except Exception:
        out = []
        for xi in x:
            try:
                out.append(call(np.array([xi]))[0])
            except ValueError as e:
                out.append(('VE', str(e)))
            except Exception as e:  # noqa
                out.append(('ERR', type(e).__name__, str(e)))
        return out


def scaled(x, ek, periodic):
    """(xs_raw_float, xs_float as the code computes it, xs_raw_exact, xs_exact as the model computes it, exact scale)"""
    lo_f, hi_f = sorted([float(ek[0]), float(ek[1])])
    sc_f = hi_f - lo_f
    if sc_f == 0:
        sc_f = 1.0
    raw_f = (float(x) - lo_f) / sc_f
    mod_f = float(np.float64(raw_f) % np.float64(P_FLOAT)) if periodic else raw_f
    xs_f = min(mod_f, 1.0) if periodic else raw_f            # np.minimum(x % (1+1e-9), 1.0)  (repair of S10)
    sc_e = Fraction(hi_f) - Fraction(lo_f)
    if sc_e == 0:
        sc_e = Fraction(1)
    raw_e = (Fraction(float(x)) - Fraction(lo_f)) / sc_e
    mod_e = raw_e - P_EXACT * math.floor(raw_e / P_EXACT) if periodic else raw_e
    xs_e = min(mod_e, Fraction(1)) if periodic else raw_e
    return raw_f, xs_f, raw_e, xs_e, sc_e


def wrapped(x, ek):
    """(float, exact) value of x_scaled % (1+1e-9) before the clip to 1"""
    lo_f, hi_f = sorted([float(ek[0]), float(ek[1])])
    sc_f = (hi_f - lo_f) or 1.0
    raw_f = (float(x) - lo_f) / sc_f
    sc_e = (Fraction(hi_f) - Fraction(lo_f)) or Fraction(1)
    raw_e = (Fraction(float(x)) - Fraction(lo_f)) / sc_e
    return float(np.float64(raw_f) % np.float64(P_FLOAT)), raw_e - P_EXACT * math.floor(raw_e / P_EXACT)


def discontinuities(n, k, periodic):
    """points of the scaled axis where the model (as a function of x) jumps"""
    n2 = n + k * (1 if periodic else 0)
    D = []
    if k == 0:
        D += [Fraction(i, n2) for i in range(n2)] + [P_EXACT]
    if periodic:
        D += [Fraction(0), P_EXACT]       # the wrap; the clip at 1 is continuous (the row on [1, 1+1e-9) is the row at 1)
    return D


def alternatives(x, ek, n, k, periodic):
    """[] unless x is within ADJ (relative) of a discontinuity of the model; then the two positions 2*ADJ away"""
    raw_f, xs_f, raw_e, xs_e, sc_e = scaled(x, ek, periodic)
    thr = Fraction(ADJ) * max(1, abs(raw_e))
    D = discontinuities(n, k, periodic)
    adj = any(abs(xs_e - d) <= thr or abs(Fraction(xs_f) - d) <= thr for d in D)
    if periodic:
        mod_f, mod_e = wrapped(x, ek)
        if any(abs(mod_e - d) <= thr or abs(Fraction(mod_f) - d) <= thr for d in D) or abs(Fraction(xs_f) - xs_e) > thr:
            adj = True
    if not adj:
        return []
    fx = Fraction(float(x))
    return [fx - 2 * thr * sc_e, fx + 2 * thr * sc_e]


def in_sliver(x, ek, periodic):
    """periodic and the code's scaled, wrapped x lies in (1, 1+1e-9] (the former S10 gap, now clipped to the right edge)"""
    if not periodic:
        return False
    mod_f = wrapped(x, ek)[0]
    return 1.0 < mod_f <= P_FLOAT


# ----------------------------------------------------------------------------- generators
def gen_ek(rng):
    kind = rng.choice(['unit', 'mag', 'mag', 'mag', 'equal', 'offset', 'reversed', 'int'])
    if kind == 'unit':
        return kind, (0.0, 1.0)
    if kind == 'equal':
        v = rng.choice([0.0, 3.0, -2.5, 10 ** rng.uniform(-6, 6)])
        return kind, (v, v)
    if kind == 'int':
        lo = float(rng.randint(-5, 5))
        return kind, (lo, lo + rng.randint(1, 9))
    sc = 10 ** rng.uniform(-6, 6)
    if kind == 'offset':
        lo = rng.choice([-1, 1]) * 10 ** rng.uniform(0, 6)
        sc = abs(lo) * 10 ** rng.uniform(-5, 0)
    else:
        lo = rng.uniform(-3, 3) * sc
    if kind == 'reversed':
        return kind, (lo + sc, lo)
    return kind, (lo, lo + sc)


def gen_points(rng, ek, n, k, periodic, count):
    """x values: on knots, on the boundary, +-1 ulp around them, interior, outside near and far, periodic wrap points"""
    lo, hi = sorted(ek)
    sc = (hi - lo) or 1.0
    n2 = n + k * (1 if periodic else 0)
    N = n2 - k
    xs = []
    tags = []

    def add(v, tag):
        v = float(v)
        if np.isfinite(v):
            xs.append(v)
            tags.append(tag)
    add(lo, 'boundary')
    add(lo + sc, 'boundary')
    for b in (lo, lo + sc):
        add(np.nextafter(b, -np.inf), 'boundary+-ulp')
        add(np.nextafter(b, np.inf), 'boundary+-ulp')
    for _ in range(3):
        i = rng.randint(0, N)
        kn = lo + (i / N) * sc
        add(kn, 'knot')
        add(np.nextafter(kn, -np.inf), 'knot+-ulp')
        add(np.nextafter(kn, np.inf), 'knot+-ulp')
    for _ in range(max(3, count - 19)):
        add(lo + rng.random() * sc, 'interior')
    add(lo - rng.random() * 2 * sc, 'outside-near')
    add(lo + sc + rng.random() * 2 * sc, 'outside-near')
    add(lo - 10 ** rng.uniform(0, 4) * sc, 'outside-far')
    add(lo + 10 ** rng.uniform(0, 4) * sc, 'outside-far')
    if periodic:
        add(lo + (1 + 5e-10) * sc, 'periodic-former-gap')
        add(lo + P_FLOAT * sc, 'periodic-wrap')
        add(lo + rng.randint(-3, 3) * P_FLOAT * sc, 'periodic-wrap')
        add(lo - 1e-20 * sc if lo == 0 else np.nextafter(lo, -np.inf), 'periodic-wrap')
    return xs, tags


def point_coq(x, alts, by, outcome):
    if isinstance(outcome, tuple):
        impl = 'None'
    else:
        impl = '(Some %s)' % coq_list([dylit(v) for v in outcome])
    return '(mk_pt %s %s %s %s)' % (dylit(x), coq_list([qlit(a) for a in alts]), dylit(by), impl)


# ----------------------------------------------------------------------------- direct probe of the property statement
def support_ok(row, k, cyclic):
    """non-zero entries fit in a window of k+1 consecutive (cyclically consecutive for the periodic basis) columns"""
    nz = [i for i, v in enumerate(row) if abs(v) > 1e-13]
    if not nz:
        return True
    n = len(row)
    if nz[-1] - nz[0] <= k:
        return True
    if cyclic:
        for s in nz:
            if all(((i - s) % n) <= k for i in nz):
                return True
    return False


def probe_config(res, rng, ek, n, k, periodic, xs, tags, rows):
    """property statement on the implementation's rows of one configuration"""
    lo, hi = sorted(ek)
    sc = (hi - lo) or 1.0
    cfg = dict(edge_knots=list(ek), n_splines=n, spline_order=k, periodic=periodic)

    def viol(what, x, observed, expected, finding=None):
        res.violations.append(dict(what=what, finding=finding, input=dict(cfg, x=float(x)), observed=observed,
                                   expected=expected))
    for x, tag, row in zip(xs, tags, rows):
        raw_f, xs_f, raw_e, xs_e, sc_e = scaled(x, ek, periodic)
        if isinstance(row, tuple):
            viol('b_spline_basis raised on valid input' + (' (periodic, wrapped x in (1, 1+1e-9])' if in_sliver(x, ek, periodic) else ''),
                 x, repr(row), 'a basis row')
            continue
        if len(row) != n:
            viol('wrong number of basis functions', x, len(row), n)
            continue
        s = float(np.sum(row))
        inside = periodic or (0.0 <= raw_f <= 1.0)
        mag = max(1.0, float(np.max(np.abs(row))))
        if inside:
            bad = None
            if min(row) < -1e-12:
                bad = 'negative entry inside the range'
            elif abs(s - 1) > 1e-8:
                bad = 'row does not sum to one inside the range'
            elif not support_ok(row, k, periodic):
                bad = 'more than order+1 consecutive non-zero functions'
            if bad:
                viol(bad, x, dict(row=[float(v) for v in row], row_sum=s), 'non-negative, sum 1, support width <= %d' % (k + 1))
        elif k >= 1:
            if abs(s - 1) > 1e-8 * mag * n:
                viol('extrapolated row does not sum to one', x, dict(row_sum=s), 1.0)
    # linear continuation, continuity and slope (non-periodic, order >= 1)
    if (not periodic) and k >= 1:
        for side in (0, 1):
            b = lo if side == 0 else lo + sc
            sgn = -1.0 if side == 0 else 1.0
            d = [sgn * sc * t for t in (0.0, 0.5, 1.0, 1.5, 3.0)]
            pts = [b + t for t in d]
            h = 2.0 ** -20 * sc
            pts += [b - sgn * h]          # just inside, for the slope
            r = impl_rows(pts, ek, n, k, False)
            if any(isinstance(v, tuple) for v in r):
                viol('b_spline_basis raised on valid input', pts[0], repr(r), 'rows')
                continue
            r = np.array(r)
            slope = (r[2] - r[1]) / (0.5)            # per unit of scaled x, signed by sgn below
            lin = r[0] + np.outer(np.array([0.5, 1.0, 1.5, 3.0]), slope)
            if np.max(np.abs(lin - r[1:5])) > 1e-8 * max(1.0, np.max(np.abs(r[:5]))) * n:
                viol('extrapolation is not affine in x / not continuous at the boundary', pts[1],
                     dict(rows=r[:5].tolist()), 'boundary row + slope * distance')
            # slope equals the one-sided derivative of the interior polynomial piece (finite difference, loose)
            fd = (r[0] - r[5]) / (2.0 ** -20)
            if np.max(np.abs(fd - slope)) > 1e-3 * (1 + np.max(np.abs(slope))):
                viol('extrapolation slope differs from the one-sided derivative at the boundary', pts[0],
                     dict(slope=slope.tolist(), finite_difference=fd.tolist()), 'equal up to O(h)')
    # periodicity (period = the code's (1+1e-9)*range; equal to the knot range up to a relative 1e-9)
    if periodic:
        D = discontinuities(n, k, True)
        good = []
        for _ in range(6):
            x = lo + rng.random() * sc
            _, xs_f, _, xs_e, _ = scaled(x, ek, True)
            if all(abs(xs_e - d) > 1e-6 for d in D):
                good.append(x)
        if good:
            m = rng.choice([-2, -1, 1, 2, 3])
            r0 = impl_rows(good, ek, n, k, True)
            r1 = impl_rows([x + m * sc * P_FLOAT for x in good], ek, n, k, True)
            r2 = impl_rows([x + m * sc for x in good], ek, n, k, True)
            for x, a, b_, c in zip(good, r0, r1, r2):
                if isinstance(a, tuple) or isinstance(b_, tuple) or isinstance(c, tuple):
                    viol('b_spline_basis raised on valid input', x, repr((a, b_, c)), 'rows')
                    continue
                if np.max(np.abs(a - b_)) > 1e-8:
                    viol('periodic basis does not repeat with period (1+1e-9)*range', x,
                         dict(row=a.tolist(), shifted=b_.tolist(), periods=m), 'equal rows')
                if np.max(np.abs(a - c)) > 1e-8 + abs(m) * 1e-9 * n:      # C03_periodic_shift_bound: n * 1e-9 per range (k >= 1); 1e-8 float slack
                    viol('periodic basis does not repeat with period = knot range (up to the 1e-9 bump)', x,
                         dict(row=a.tolist(), shifted=c.tolist(), periods=m), 'equal rows up to |m| * n_splines * 1e-9 (theorem C03_periodic_shift_bound) + 1e-8')
    # affine invariance (away from the jumps of the order-0 / wrapped basis)
    if sc != 1.0 or lo != hi:
        D = discontinuities(n, k, periodic)
        good = []
        for _ in range(4):
            x = lo + (rng.random() * 3 - 1) * sc
            raw_f, xs_f, raw_e, xs_e, _ = scaled(x, ek, periodic)
            if all(abs(xs_e - d) > 1e-6 for d in D) and (k >= 1 or periodic or (0 < raw_f < 1)):
                good.append(x)
        if good and lo != hi:
            a_ = 2.0 ** rng.randint(-8, 8) * rng.choice([1.0, 1.0, 3.0, 0.7])
            b_ = rng.choice([0.0, rng.uniform(-2, 2) * sc * a_])
            r0 = impl_rows(good, ek, n, k, periodic)
            r1 = impl_rows([a_ * x + b_ for x in good], (a_ * ek[0] + b_, a_ * ek[1] + b_), n, k, periodic)
            for x, u, v in zip(good, r0, r1):
                if isinstance(u, tuple) or isinstance(v, tuple):
                    viol('b_spline_basis raised on valid input', x, repr((u, v)), 'rows')
                    continue
                if np.max(np.abs(u - v)) > 1e-7 * max(1.0, np.max(np.abs(u))):
                    viol('basis is not invariant under x -> a*x+b applied to x and the edge knots', x,
                         dict(a=a_, b=b_, row=u.tolist(), transformed=v.tolist()), 'equal rows')


def probe_sliver_config(res, ek, n, k):
    """points of (hi, lo + (1+1e-9)*range] of a periodic basis give the right-edge row (and never raise)"""
    lo, hi = sorted(ek)
    sc = (hi - lo) or 1.0
    right = lo + sc
    cand = [float(np.nextafter(right, np.inf)), lo + (1 + 2.5e-10) * sc, lo + (1 + 5e-10) * sc, lo + (1 + 9.9e-10) * sc,
            lo + P_FLOAT * sc - (lo + P_FLOAT * sc - right) * 2.0 ** -10]
    pts = [x for x in cand if in_sliver(x, ek, True)]
    if not pts:
        return 0
    ref = impl_rows([right], ek, n, k, True)[0]
    rows = impl_rows(pts, ek, n, k, True)
    for x, r in zip(pts, rows):
        bad = isinstance(r, tuple) or isinstance(ref, tuple) or np.max(np.abs(np.asarray(r) - np.asarray(ref))) > 1e-12
        if bad:
            res.violations.append(dict(
                what='periodic basis: a point that wraps into (1, 1+1e-9] does not get the row of the right edge', finding=None,
                input=dict(edge_knots=list(ek), n_splines=n, spline_order=k, periodic=True, x=float(x)),
                observed=repr(r) if isinstance(r, tuple) else dict(row=[float(v) for v in r]),
                expected=repr(ref) if isinstance(ref, tuple) else dict(row_at_right_edge=[float(v) for v in ref])))
        res.case(('sliver', ek, n, k, float(x)))
    return len(pts)


def probe_sliver(res):
    """deterministic former witnesses of S10 (independent of the random stream), incl. the float artefact x % p == p"""
    cfgs = [((0.0, 1.0), 6, 3), ((0.0, 1.0), 4, 1), ((2.0, 4.0), 5, 2), ((0.0, 1.0), 6, 0), ((-3.0, 5.0), 40, 5), ((0.5, 0.75), 1, 0)]
    tot = 0
    for ek, n, k in cfgs:
        tot += probe_sliver_config(res, ek, n, k)
    r = impl_rows([-1e-20, 1.0], (0.0, 1.0), 6, 0, True)       # float modulo returns the divisor itself
    if isinstance(r[0], tuple) or isinstance(r[1], tuple) or not np.array_equal(r[0], r[1]):
        res.violations.append(dict(what='periodic basis: x % (1+1e-9) == 1+1e-9 (tiny negative x) does not get the right-edge row',
                                   finding=None, input=dict(edge_knots=[0.0, 1.0], n_splines=6, spline_order=0, periodic=True, x=-1e-20),
                                   observed=repr(r[0]), expected=repr(r[1])))
    res.case(('sliver-float-artefact',))
    res.count('probe:former-gap points give the right-edge row', tot + 1)


def probe_edge_knots(res, rng, count):
    from pygam.utils import gen_edge_knots
    for i in range(count):
        m = rng.randint(1, 12)
        col = np.array([rng.choice([rng.uniform(-5, 5), float(rng.randint(-3, 3)), 10 ** rng.uniform(-5, 5)]) for _ in range(m)])
        for dtype in ('numerical', 'categorical'):
            with warnings.catch_warnings():
                warnings.simplefilter('ignore')
                ek = gen_edge_knots(col, dtype, verbose=False)
            want = (col.min(), col.max()) if dtype == 'numerical' else (col.min() - 0.5, col.max() + 0.5)
            if tuple(float(v) for v in ek) != tuple(float(v) for v in want):
                res.violations.append(dict(what='gen_edge_knots is not (min, max)', finding=None,
                                           input=dict(data=col.tolist(), dtype=dtype), observed=[float(v) for v in ek],
                                           expected=list(map(float, want))))
            res.case(('edge', i, dtype), nontrivial=m > 1)


# ----------------------------------------------------------------------------- correspondence cases
def basis_cases(res, rng, tier):
    nconf = 110 if tier == 'quick' else 1500
    per = 20 if tier == 'quick' else 26
    cases, meta = [], []
    confs = []
    for k in range(0, 6):                      # every order, smallest / largest size, both modes: always present
        for periodic in (False, True):
            confs.append((k, k + 1, periodic))
            confs.append((k, 40, periodic))
    while len(confs) < nconf:
        k = rng.randint(0, 5)
        confs.append((k, rng.randint(k + 1, 40), rng.random() < 0.45))
    for (k, n, periodic) in confs:
        kind, ek = gen_ek(rng)
        xs, tags = gen_points(rng, ek, n, k, periodic, per)
        rows = impl_rows(xs, ek, n, k, periodic, sparse=False)
        rows_sp = impl_rows(xs, ek, n, k, periodic, sparse=True)
        for x, a, b in zip(xs, rows, rows_sp):
            same = (isinstance(a, tuple) and isinstance(b, tuple) and a[0] == b[0]) or \
                   (not isinstance(a, tuple) and not isinstance(b, tuple) and np.array_equal(a, b))
            if not same:
                res.violations.append(dict(what='sparse and dense b_spline_basis differ', finding=None,
                                           input=dict(edge_knots=list(ek), n_splines=n, spline_order=k, periodic=periodic, x=x),
                                           observed=repr((a, b)), expected='identical'))
        probe_config(res, rng, ek, n, k, periodic, xs, tags, rows)
        if periodic:
            res.count('probe:sliver points of random configurations', probe_sliver_config(res, ek, n, k))
        pts = []
        nadj = 0
        for x, tag, row in zip(xs, tags, rows):
            if isinstance(row, tuple) and row[0] == 'ERR':
                continue
            alts = alternatives(x, ek, n, k, periodic)
            nadj += 1 if alts else 0
            pts.append(point_coq(x, alts, 1.0, row))
            res.count('x:' + tag)
            res.case(('basis', k, n, periodic, ek, x), nontrivial=True,
                     sample=dict(edge_knots=list(ek), n_splines=n, spline_order=k, periodic=periodic, x=x,
                                 row=None if isinstance(row, tuple) else [float(v) for v in row]) if len(cases) in (3, 40) and tag == 'interior' else None)
        res.count('rounding_adjacent_points(either side accepted)', nadj)
        res.count('order:%d' % k, len(pts))
        res.count('periodic' if periodic else 'non-periodic', len(pts))
        res.count('edge_knots:' + kind, len(pts))
        cases.append('(CBasis %s %s %d %d %s %s %s)' % (dylit(ek[0]), dylit(ek[1]), n, k, coq_bool(periodic), qlit(TOL), coq_list(pts)))
        meta.append(dict(kind='b_spline_basis', edge_knots=list(ek), n_splines=n, spline_order=k, periodic=periodic, xs=xs))
    return cases, meta


def term_cases(res, rng, tier):
    from pygam.terms import SplineTerm
    nconf = 40 if tier == 'quick' else 500
    cases, meta = [], []
    for c in range(nconf):
        k = rng.randint(0, 5)
        n = rng.randint(k + 1, 30)
        periodic = rng.random() < 0.4
        cat = rng.random() < 0.2
        nrow = rng.randint(1, 14)
        sc = 10 ** rng.uniform(-3, 3)
        off = rng.uniform(-3, 3) * sc
        if cat:
            train = np.array([float(rng.randint(0, 6)) for _ in range(nrow)])
        elif rng.random() < 0.1:
            train = np.full(nrow, off)                     # constant feature: equal edge knots
        else:
            train = np.array([off + sc * rng.random() for _ in range(nrow)])
        lo, hi = train.min(), train.max()
        w = (hi - lo) or 1.0
        test = np.array([lo + (rng.random() * 2 - 0.5) * w for _ in range(10)] + [lo, hi])
        # history of compiles of the one term object (an earlier fit / a shared term), and knots given by the user
        hist = []
        if rng.random() < 0.5:
            for _ in range(rng.choice([1, 1, 2])):
                sc0 = 10 ** rng.uniform(-3, 3)
                hist.append(np.array([rng.uniform(-3, 3) * sc0 + sc0 * rng.random() for _ in range(rng.randint(1, 9))]) if not cat
                            else np.array([float(rng.randint(-2, 9)) for _ in range(rng.randint(1, 9))]))
            res.count('spline compile after earlier compiles')
        if rng.random() < 0.1:
            hist.append(train.copy())                       # compiled twice on the same data
        hist.append(train)
        user = None
        if rng.random() < 0.25:
            user = (float(lo - rng.random() * w), float(hi + rng.random() * w))
            if rng.random() < 0.3:
                user = (user[1], user[0])
            res.count('spline with user edge_knots')
        # a by-variable with EXACT zeros (a 0/1 indicator), the extremes of the feature sitting on rows where it is 0:
        # the edge knots are (min, max) of the WHOLE feature column, whatever the by-variable is
        use_by = rng.random() < 0.4

        def by_for(col):
            if rng.random() < 0.15:
                return np.zeros(len(col))                   # all-zero by column
            b = np.array([float(rng.random() < 0.6) for _ in col])
            b[(col == col.min()) | (col == col.max())] = 0.0
            inner = np.flatnonzero((col != col.min()) & (col != col.max()))
            if len(inner):
                b[inner[0]] = 1.0
            return b
        bys = [by_for(col) for col in hist] if use_by else None
        if use_by:
            res.count('spline term with a 0/1 by-variable that is 0 on the rows holding the extremes')
        term = SplineTerm(0, n_splines=n, spline_order=k, basis='cp' if periodic else 'ps', by=1 if use_by else None,
                          dtype='categorical' if cat else 'numerical', edge_knots=None if user is None else list(user))
        with warnings.catch_warnings():
            warnings.simplefilter('ignore')
            for ci, col in enumerate(hist):
                term.compile(np.c_[col, bys[ci]] if use_by else col[:, None])
            ek = tuple(float(v) for v in term.edge_knots_)
        test_by = [rng.choice([0.0, 1.0, 1.0, -2.5, 0.375]) if use_by else 1.0 for _ in test]
        # the property statement, directly: default knots are (min, max) of the data of the last compile; given knots are kept
        want = user if user is not None else ((lo - 0.5, hi + 0.5) if cat else (float(lo), float(hi)))
        if tuple(ek) != tuple(float(v) for v in want):
            res.violations.append(dict(what='edge knots after SplineTerm.compile are not (min, max) of the compiled data / the given knots',
                                       finding=None, input=dict(history=[h.tolist() for h in hist], edge_knots=user, categorical=cat,
                                                                by_history=None if bys is None else [b.tolist() for b in bys]),
                                       observed=list(ek), expected=list(map(float, want))))
        with warnings.catch_warnings():
            warnings.simplefilter('ignore')
            rows = []
            for x, bv in zip(test, test_by):                # one call per point so that a raising point is isolated
                try:
                    rows.append(np.asarray(term.build_columns(np.array([[x, bv]]) if use_by else np.array([[x]])).toarray(), dtype=float)[0])
                except ValueError as e:
                    rows.append(('VE', str(e)))
        pts = []
        for x, bv, row in zip(test, test_by, rows):
            if isinstance(row, tuple):
                res.violations.append(dict(what='SplineTerm.build_columns raised on valid input', finding=None,
                                           input=dict(train=train.tolist(), x=float(x), n_splines=n, spline_order=k, periodic=periodic),
                                           observed=repr(row), expected='basis row'))
            pts.append(point_coq(x, alternatives(x, ek, n, k, periodic), bv, row))
            res.case(('term', c, float(x)), nontrivial=True)
        res.count('SplineTerm.build_columns points', len(pts))
        cases.append('(CTerm %s %s %s (%s,%s) %d %d %s %s %s)' % (
            coq_list([coq_list([dylit(v) for v in h]) for h in hist]),
            'None' if user is None else '(Some (%s,%s))' % (dylit(user[0]), dylit(user[1])),
            coq_bool(cat), dylit(ek[0]), dylit(ek[1]), n, k, coq_bool(periodic), qlit(TOL), coq_list(pts)))
        meta.append(dict(kind='SplineTerm.build_columns', history=[h.tolist() for h in hist], edge_knots=user, test=test.tolist(),
                         by_history=None if bys is None else [b.tolist() for b in bys], test_by=test_by,
                         n_splines=n, spline_order=k, periodic=periodic, categorical=cat))
    return cases, meta


def run(res):
    rng = common.rng_for(res.seed, PROP)
    res.rule = ('configurations (order 0..5, n_splines order+1..40 incl. both extremes for every order, periodic on/off, edge knots '
                'unit / integer / 12 orders of magnitude / large offset / reversed / equal) x evaluation points (on knots, on both '
                'boundaries, +-1 ulp around them, interior, outside near and far, periodic wrap points and points of the former S10 gap (1, 1+1e-9], now clipped to the right edge). A case is one '
                '(configuration, x); all are non-trivial (every one exercises the recursion or a continuation branch). Points within '
                '1e-12 (relative) of a jump of the model (order-0 knots, the periodic wrap at 0 / 1+1e-9) are compared against '
                'the model at x and at x -+ 2e-12*range and accepted if either matches (binary64 rounding may put the '
                'implementation on the other side); they are counted in input_distribution.')
    common.standard_prove(res, PROPS_FILE)
    probe_sliver(res)
    probe_edge_knots(res, rng, 60 if res.tier == 'quick' else 600)
    c1, m1 = basis_cases(res, rng, res.tier)
    c2, m2 = term_cases(res, rng, res.tier)
    cases, meta = c1 + c2, m1 + m2
    with common.CaseDir(PROP) as cd:
        failing, errors = common.run_bool_cases(cd, HEADER, cases, 'check_case', shard=max(1, len(cases) // (common.NPROC * 2)))
    for name, out in errors:
        res.obligation('correspondence-file:' + name, False, detail=out, kind='correspondence')
    res.obligation('correspondence:C03 b_spline_basis / SplineTerm.build_columns rows (model = implementation, 1e-8)',
                   not failing and not errors, detail='failing case indices %s' % failing[:20], kind='correspondence')
    for i in failing:
        res.violations.append(dict(what='basis rows differ from the Cox-de Boor model (coq/Model/BSpline.v) by more than 1e-8',
                                   finding=None, input=meta[i], observed='implementation rows != model rows',
                                   expected='see coq/Model/BSpline.v'))
    res.extra['correspondence_cases'] = len(cases)
    res.extra['tolerances'] = {'basis entries': '|impl - model| <= 1e-8 * max(1, |model|), exact rational arithmetic in Coq',
                               'sparse vs dense': 'identical', 'edge knots': 'exact',
                               'model constants': '1e-9 = 1/10^9 exactly; linspace = i/(n-k) exactly'}


def replay(res, rp):
    """re-evaluate the stored failing inputs on the implementation, then run the whole check"""
    rng = common.rng_for(res.seed, PROP, 'replay')
    for v in rp.get('failing_inputs', []):
        inp = v.get('input', {})
        if 'x' in inp and 'edge_knots' in inp:
            ek = tuple(inp['edge_knots'])
            rows = impl_rows([inp['x']], ek, inp['n_splines'], inp['spline_order'], inp['periodic'])
            probe_config(res, rng, ek, inp['n_splines'], inp['spline_order'], inp['periodic'], [inp['x']], ['replay'], rows)
    run(res)
