"""C17 -- posterior simulation draws from the stated sampling distributions."""
import math
import warnings
from fractions import Fraction

import numpy as np

import common
from common import rlit, rlit_frac
import gen_models
from props.c09 import fit, query_rows

PROP = 'C17'
HEADER = """From Coq Require Import Reals Lra List.
From Interval Require Import Tactic.
From PG Require Import Base.Ops Model.Intervals Model.Sample Gen.Links Gen.Sample.
Import ListNotations.
Open Scope R_scope.
Ltac c17 := cbv beta iota zeta delta [Gen_mu_draws Gen_linear_predictor transposeR dotl lsum seq length nth map Nat.add
                                       Gen_IdentityLink_mu Gen_LogLink_mu Gen_LogitLink_mu]; interval with (i_prec 100)."""
HEADER6 = """From Coq Require Import Reals Lra.
From Interval Require Import Tactic.
From PG Require Import Base.Ops Gen.Dists Model.C06Check.
Open Scope R_scope."""
LINK_MU = {'LIdentity': 'Gen_IdentityLink_mu 1', 'LLog': 'Gen_LogLink_mu 1', 'LLogit': 'Gen_LogitLink_mu 1'}
PRIM = {'DNormal': ('normal', ['loc', 'scale'], 'NormalDist'), 'DBinomial': ('binomial', ['n', 'p'], 'BinomialDist'),
        'DPoisson': ('poisson', ['lam'], 'PoissonDist'), 'DGamma': ('gamma', ['shape', 'scale'], 'GammaDist'),
        'DInvGauss': ('wald', ['mean', 'scale'], 'InvGaussDist')}
SQRT_EPS = float(np.sqrt(np.finfo(np.float64).eps))      # 2^-26


def loaded(cov, scale):
    """the covariance the repaired code hands to the sampler, computed the same way in binary64:
    load_diagonal(cov, load=np.sqrt(EPS) * distribution.scale) = cov + np.eye(n) * load"""
    cov = np.asarray(cov, dtype=float)
    return cov + np.eye(cov.shape[0]) * (np.sqrt(np.finfo(np.float64).eps) * scale)


def close_to_reported(passed, cov, scale):
    """the property statement, independent of how the load is computed: equal off the diagonal, diagonal excess in
    [0, 2^-26 scale] (up to the rounding of the addition, one ulp of the diagonal entry)"""
    passed, cov = np.asarray(passed, dtype=float), np.asarray(cov, dtype=float)
    if passed.shape != cov.shape:
        return False, 'shape %s' % (passed.shape,)
    diff = passed - cov
    off = diff - np.diag(np.diag(diff))
    bound = SQRT_EPS * abs(scale) * (1 + 1e-6)
    dg = np.diag(diff)
    ulp = 2.0 ** -51 * np.abs(np.diag(passed))
    ok = (off == 0).all() and (dg >= -ulp).all() and (dg <= bound + ulp).all()
    return bool(ok), dict(max_offdiag_diff=float(np.abs(off).max()), max_diag_excess=float(dg.max()), allowed=float(bound), scale=float(scale))


class Wrap:
    """replace np.random.<name> by a recorder that returns chosen outputs; restored on exit"""

    def __init__(self, **fns):
        self.fns = fns
        self.saved = {}

    def __enter__(self):
        for k, f in self.fns.items():
            self.saved[k] = getattr(np.random, k)
            setattr(np.random, k, f)
        return self

    def __exit__(self, *a):
        for k, f in self.saved.items():
            setattr(np.random, k, f)


def bind(order, a, k):
    vals = {}
    for i, v in enumerate(a):
        if i < len(order):
            vals[order[i]] = v
        else:
            vals['extra%d' % i] = v
    vals.update(k)
    return vals


def run_sample(gam, scn, quantity, Xq, nd, D, fam):
    """gam.sample with multivariate_normal / choice / the family primitive recorded; D are the coefficient draws fed back"""
    rec = dict(mvn=[], choice=[], prim=[])
    real_choice = np.random.choice

    def mvn(*a, **k):
        rec['mvn'].append(bind(['mean', 'cov', 'size'], a, k))
        return np.array(D, dtype=float).copy()

    def choice(*a, **k):
        rec['choice'].append(bind(['a', 'size', 'replace', 'p'], a, k))
        return real_choice(*a, **k)
    prim, order, _ = PRIM[fam]

    def primf(*a, **k):
        v = bind(order, a, k)
        rec['prim'].append(v)
        shape = np.broadcast(*[np.asarray(v[o]) for o in order]).shape
        return np.arange(int(np.prod(shape)), dtype=float).reshape(shape) + 0.25
    with Wrap(multivariate_normal=mvn, choice=choice, **{prim: primf}), np.errstate(all='ignore'):
        out = gam.sample(scn['X'], scn['y'], quantity=quantity, sample_at_X=Xq, n_draws=nd, n_bootstraps=1)
    return np.asarray(out), rec


POISSON_LAM_MAX = float(np.iinfo(np.int64).max - np.sqrt(np.iinfo(np.int64).max) * 10)     # numpy's documented limit of np.random.poisson


def generator_domain_error(fam, gam, mu):
    """does NumPy's primitive of this family refuse these means by its own documented domain check?  (reason or None)
    poisson: lam > ~9.22e18 or NaN or < 0; binomial: p = mu/levels outside [0,1] or NaN; gamma: scale = mu*scale < 0;
    wald: mean <= 0 (exp underflow); normal: never"""
    mu = np.asarray(mu, dtype=float)
    if fam == 'DPoisson':
        if np.isnan(mu).any() or (mu < 0).any():
            return 'np.random.poisson: lam NaN or negative'
        if (mu > POISSON_LAM_MAX).any():
            return 'np.random.poisson: lam > %.4g' % POISSON_LAM_MAX
    elif fam == 'DBinomial':
        p = mu / float(getattr(gam.distribution, 'levels', 1) or 1)
        if not ((p >= 0) & (p <= 1)).all():
            return 'np.random.binomial: p outside [0,1] or NaN'
    elif fam == 'DGamma':
        if (mu < 0).any():
            return 'np.random.gamma: scale < 0'
    elif fam == 'DInvGauss':
        if (mu <= 0).any():
            return 'np.random.wald: mean <= 0'
    return None


def viol(res, what, d, observed, expected, finding=None, **extra):
    res.violations.append(dict(what=what, finding=finding, input=dict(d, **extra), observed=observed, expected=expected))


def witness_small_units(res):
    """regression probe for the repaired S19 (absolute diagonal loading): the same data in small units; the variance of the
    simulated linear predictor must be the reported one (4000 draws: median ratio within 15%)"""
    import pygam
    x = np.linspace(0, 1, 60)
    rs = np.random.RandomState(5)
    y = 1e-6 * (np.sin(6 * x) + 0.3 * rs.randn(60))
    X = x[:, None]
    gam = pygam.LinearGAM(pygam.s(0, n_splines=8), fit_intercept=False).fit(X, y)
    cov = np.asarray(gam.statistics_['cov'])
    B = gam._modelmat(X).toarray()
    var = np.einsum('ij,jk,ik->i', B, cov, B)
    rec = []
    real = np.random.multivariate_normal

    def mvn(*a, **k):
        rec.append(bind(['mean', 'cov', 'size'], a, k))
        return real(*a, **k)
    state = np.random.get_state()
    try:
        np.random.seed(12345)
        with Wrap(multivariate_normal=mvn):
            draws = gam.sample(X, y, quantity='coef', n_draws=4000, n_bootstraps=1)
    finally:
        np.random.set_state(state)
    passed = np.asarray(rec[0]['cov'])
    emp = (draws @ B.T).var(axis=0)
    ratio_emp = float(np.median(emp / var))
    ok, info = close_to_reported(passed, cov, float(gam.distribution.scale))
    res.case(('witness', 'small-units'))
    d = dict(model='LinearGAM(s(0, n_splines=8), fit_intercept=False)', X='linspace(0,1,60)', y='1e-6*(sin(6x)+0.3*RandomState(5).randn(60))', n_draws=4000, seed=12345)
    if not ok or not (0.85 <= ratio_emp <= 1.15):
        viol(res, 'response in small units: the covariance handed to multivariate_normal is not the reported coefficient covariance (+ 2^-26 scale on the diagonal) / '
                  'the variance of the simulated linear predictor is not the reported variance', d,
             dict(info if isinstance(info, dict) else dict(info=info), largest_reported_diag=float(np.max(np.diag(cov))), variance_ratio_empirical=ratio_emp), dict(variance_ratio=1.0))


def statistical(res, gam, scn, d, rng):
    """supporting test (NOT a proof): real generator, 20000 draws, 7-sigma bounds on mean and covariance entries"""
    N = 20000
    state = np.random.get_state()
    try:
        np.random.seed(rng.randrange(1 << 30))
        with np.errstate(all='ignore'):
            draws = np.asarray(gam.sample(scn['X'], scn['y'], quantity='coef', n_draws=N, n_bootstraps=1))
    finally:
        np.random.set_state(state)
    coef = np.asarray(gam.coef_, dtype=float)
    C = loaded(gam.statistics_['cov'], float(gam.distribution.scale))
    sd = np.sqrt(np.maximum(np.diag(C), 0))
    zmean = np.abs(draws.mean(axis=0) - coef) / (sd / math.sqrt(N) + 1e-300)
    S = np.cov(draws.T, bias=True).reshape(len(coef), len(coef))
    se = np.sqrt((np.outer(np.diag(C), np.diag(C)) + C * C) / N)
    zcov = np.abs(S - C) / (se + 1e-12 * np.abs(C).max() + 1e-300)
    res.case(('statistical', d['index']))
    res.count('statistical test (20000 draws)')
    if zmean.max() > 7 or zcov.max() > 7:
        viol(res, 'coefficient draws (real generator, 20000 draws) are not centred on coef_ with covariance statistics_[cov] (+ loading) within 7 sigma '
                  '(statistical test)', d, dict(max_z_mean=float(zmean.max()), max_z_cov=float(zcov.max())), '<= 7')


def validates_flag():
    """the generated flag: does _sample_coef contain the data-validation block?"""
    import os
    import re
    txt = open(os.path.join(common.COQ, 'Gen', 'Sample.v')).read()
    m = re.search(r'Definition Gen_sample_validates_data : bool := (true|false)\.', txt)
    return None if m is None else (m.group(1) == 'true')


def data_validation(res, gam, scn, d, flag):
    """invalid y / weights with one bootstrap: ValueError iff the source contains the validation block (generated flag)"""
    X, y = scn['X'], scn['y']
    ybad = np.array(y, dtype=float).copy()
    ybad[0] = np.nan
    wbad = np.ones(len(y))
    wbad[0] = np.nan
    for what, kw in (('y with NaN', dict(y=ybad)), ('y too short', dict(y=np.array(y[:-1]))), ('weights with NaN', dict(y=y, weights=wbad)),
                     ('weights too short', dict(y=y, weights=np.ones(len(y) + 1)))):
        raised = None
        try:
            with np.errstate(all='ignore'):
                gam.sample(X, kw['y'], quantity='coef', weights=kw.get('weights'), n_draws=2, n_bootstraps=1)
        except ValueError:
            raised = 'ValueError'
        except Exception as e:
            raised = type(e).__name__
        res.case(('data-validation', d['index'], what))
        res.count('invalid data: %s -> %s' % (what, raised))
        if flag and raised != 'ValueError':
            viol(res, 'sample(n_bootstraps=1) did not reject invalid data although _sample_coef contains the validation block', d, raised, 'ValueError', invalid=what)
        if flag is False and raised is not None:
            viol(res, 'sample(n_bootstraps=1) rejected data although the generated model has no validation block', d, raised, 'draws', invalid=what)


def binomial_moments(res, gam, scn, d, rng):
    """supporting test (NOT a proof), real np.random.binomial, coefficient draws pinned to coef_: over 20000 simulated responses per row the
    mean is mu and the variance mu (1 - mu/levels), 7 sigma"""
    N = 20000
    coef = np.asarray(gam.coef_, dtype=float)
    X = scn['X'][:6]
    mu = np.asarray(gam.predict_mu(X), dtype=float)
    L = float(gam.distribution.levels)

    def mvn(*a, **k):
        return np.tile(coef, (N, 1))
    state = np.random.get_state()
    try:
        np.random.seed(rng.randrange(1 << 30))
        with Wrap(multivariate_normal=mvn), np.errstate(all='ignore'):
            ys = np.asarray(gam.sample(scn['X'], scn['y'], quantity='y', sample_at_X=X, n_draws=N, n_bootstraps=1), dtype=float)
    finally:
        np.random.set_state(state)
    # exact moments of Binomial(n = levels, p = mu/levels): variance n p q, fourth central moment n p q (1 + 3 (n - 2) p q).
    # standard errors: mean sqrt(var/N); sample variance sqrt((mu4 - var^2)/N) (NOT the normal-theory sqrt(2/N) var: the response is very
    # skewed when p is near 0 or 1).  2/N is added for the discreteness of rare events (one response off the mode moves both by ~1/N).
    pr = mu / L
    var = L * pr * (1 - pr)
    mu4 = var * (1 + 3 * (L - 2) * pr * (1 - pr))
    se_mean = np.sqrt(var / N)
    se_var = np.sqrt(np.maximum(mu4 - var ** 2, 0.0) / N)
    dm = np.abs(ys.mean(axis=0) - mu)
    dv = np.abs(ys.var(axis=0) - var)
    bad_m = dm > 7 * se_mean + 2.0 / N
    bad_v = dv > 7 * se_var + var / N + 2.0 / N
    res.case(('binomial-moments', d['index']))
    res.count('binomial(levels=%d) moment test (20000 draws)' % int(L))
    if bad_m.any() or bad_v.any() or ys.max() > L or ys.min() < 0:
        k = int(np.argmax(bad_m | bad_v)) if (bad_m | bad_v).any() else 0
        viol(res, 'simulated binomial responses (real generator, coefficient draws pinned to coef_) do not have mean mu and variance mu (1 - mu/levels) '
                  'within 7 standard errors (exact binomial second and fourth moments; statistical test)', d,
             dict(sample_mean=float(ys.mean(axis=0)[k]), sample_var=float(ys.var(axis=0)[k]), z_mean=float(dm[k] / (se_mean[k] + 1e-300)),
                  z_var=float(dv[k] / (se_var[k] + 1e-300)), min=float(ys.min()), max=float(ys.max())),
             dict(mean=float(mu[k]), var=float(var[k]), se_mean=float(se_mean[k]), se_var=float(se_var[k]), levels=L),
             X_row=[float(x) for x in X[k]])

def rejections(res, gam, scn, d, cls):
    X, y = scn['X'], scn['y']
    for kw, exp in [(dict(quantity='foo'), ValueError), (dict(quantity='Y'), ValueError), (dict(quantity='coefs'), ValueError), (dict(quantity=None), ValueError),
                    (dict(n_draws=0), ValueError), (dict(n_draws=-3), ValueError), (dict(n_bootstraps=0), ValueError), (dict(n_bootstraps=-1), ValueError),
                    (dict(quantity='mu', n_draws=0, n_bootstraps=0), ValueError)]:
        kw2 = dict(dict(n_draws=3, n_bootstraps=1), **kw)
        res.case(('reject', d['index'], repr(kw)))
        res.count('rejections')
        try:
            with np.errstate(all='ignore'):
                out = gam.sample(X, y, **kw2)
            viol(res, 'sample accepted an invalid argument', d, repr(np.asarray(out).shape), 'ValueError', **{k: repr(v) for k, v in kw.items()})
        except exp:
            pass
        except Exception as e:
            viol(res, 'sample raised %s instead of ValueError' % type(e).__name__, d, repr(e), 'ValueError', **{k: repr(v) for k, v in kw.items()})
    # execution order on an unfitted model: unknown quantity -> ValueError, otherwise AttributeError
    g0 = gen_models.build_gam(scn)
    for kw, exp in [(dict(quantity='foo'), ValueError), (dict(quantity='coef'), AttributeError), (dict(quantity='y', n_draws=0), AttributeError)]:
        res.case(('reject-unfitted', d['index'], repr(kw)))
        try:
            g0.sample(X, y, **dict(dict(n_draws=3, n_bootstraps=1), **kw))
            viol(res, 'sample ran on an unfitted model', d, 'returned', exp.__name__, **kw)
        except exp:
            pass
        except Exception as e:
            viol(res, 'unfitted model: sample raised %s, expected %s' % (type(e).__name__, exp.__name__), d, repr(e), exp.__name__, **kw)


def run(res):
    rng = common.rng_for(res.seed, PROP)
    nfits = 24 if res.tier == 'quick' else 240
    res.rule = ('seeded fitted models of all six classes x regimes x weights x term mixes; per model and quantity in {coef, mu, y}: sample(...) with '
                'n_bootstraps=1, random n_draws, sample_at_X given (training / interior / extrapolation rows) or None, run with np.random.choice, '
                'np.random.multivariate_normal and the family primitive recorded from the harness; chosen coefficient draws are fed back. Compared: '
                'mean argument == coef_ and cov argument == statistics_[cov] + 2^-26 scale I bit for bit (and, independently, equal off the diagonal with diagonal excess <= 2^-26 scale), size == n_draws, one call; coef output == the fed draws; '
                'mu output == inverse link(modelmat(sample_at_X) . draw) (1e-9 relative to sum |terms|; a subset executed in Coq on the GENERATED '
                'definitions by `interval`); primitive arguments == generated sampler argument expressions at those means (interval) and y output == '
                'primitive output; shapes; rejections and their order; plus a 20000-draw 7-sigma test with the real generator (statistical, not a proof).')
    common.standard_prove(res, 'Props/C17.v', gen_targets=['links', 'dists', 'sample'], extra=['Model/C06Check.vo'])
    warnings.simplefilter('ignore')
    goals, meta, goals6, meta6 = [], [], [], []
    regimes = ['n>m', 'n>m', 'n=m', 'n<m']
    nstat = 0
    inflation = []
    flag = validates_flag()
    BINOMIAL_LEVELS = [2, 6, 12] if res.tier == 'quick' else [2, 6, 12, 3, 40, 2, 6, 12]
    for i in range(nfits + len(BINOMIAL_LEVELS)):
        levels = None
        if i < nfits:
            cls = gen_models.CLASSES[i % 6]
            regime = regimes[(i // 6) % 4]
            scn = gen_models.gen_scenario(rng, cls=cls, regime=regime, max_n=40 if res.tier == 'quick' else 100, max_m=14 if res.tier == 'quick' else 30)
            over = dict(fit_intercept=True) if rng.random() < 0.3 else {}
        else:
            # generic GAM(distribution=BinomialDist(levels=k), link='logit'): counts out of k trials, expected counts above 1
            import pygam
            levels = BINOMIAL_LEVELS[i - nfits]
            cls, regime = 'GAM', 'n>m'
            scn = gen_models.gen_scenario(rng, cls='LogisticGAM', regime=regime, max_n=40, max_m=10)
            scn['cls'] = 'GAM'
            X0 = scn['X'][:, 0]
            z0 = (X0 - X0.min()) / ((X0.max() - X0.min()) or 1.0)
            p0 = 1 / (1 + np.exp(-(0.6 + 1.5 * np.sin(3 * z0))))
            scn['y'] = np.random.RandomState(rng.randrange(1 << 30)).binomial(levels, p0).astype(float)
            over = dict(distribution=pygam.distributions.BinomialDist(levels=levels), link='logit')
        d = dict(gen_models.describe(scn), index=i, fit_intercept=bool(over.get('fit_intercept')))
        if levels is not None:
            d['distribution'] = 'BinomialDist(levels=%d)' % levels
            d['link'] = 'logit'
        try:
            gam = fit(scn, **over)
        except ValueError as e:
            res.count('fit raised %s' % type(e).__name__)
            continue
        coef = np.asarray(gam.coef_, dtype=float)
        cov = np.asarray(gam.statistics_['cov'], dtype=float)
        if not np.isfinite(coef).all() or not np.isfinite(cov).all():
            res.count('non-finite fit (skipped)')
            continue
        res.count('%s %s' % (cls, regime))
        link, fam = ('LLogit', 'DBinomial') if levels is not None else gen_models.FAMILY[cls]
        link_mu = ('Gen_LogitLink_mu %d' % levels) if levels is not None else LINK_MU.get(link)
        m = len(coef)
        sc0 = float(gam.distribution.scale)
        nprng = np.random.RandomState(rng.randrange(1 << 30))
        for quantity in ('coef', 'mu', 'y'):
            nd = rng.choice([1, 2, 3, 5])
            use_at = rng.random() < 0.7
            Xq = query_rows(rng, scn, rng.choice([1, 3, 4]))[0] if use_at else None
            Xeff = Xq if use_at else scn['X']
            D = coef[None, :] + nprng.randn(nd, m) * (0.3 * np.abs(coef)[None, :] + 0.05)
            dd = dict(d, quantity=quantity, n_draws=nd, sample_at_X=None if Xq is None else Xq.tolist())
            try:
                out, rec = run_sample(gam, scn, quantity, Xq, nd, D, fam)
            except Exception as e:
                viol(res, 'sample raised %s on valid arguments' % type(e).__name__, dd, repr(e), 'draws')
                continue
            res.case((i, quantity, nd, use_at), sample=dict(model=cls, quantity=quantity, n_draws=nd, shape=list(out.shape)) if i < 2 else None)
            res.count('quantity:' + quantity)
            # --- arguments of the generators
            if len(rec['mvn']) != 1 or len(rec['choice']) != 1:
                viol(res, 'one bootstrap: expected one call of choice and one of multivariate_normal', dd, dict(mvn=len(rec['mvn']), choice=len(rec['choice'])), dict(mvn=1, choice=1))
                continue
            a = rec['mvn'][0]
            ch = rec['choice'][0]
            if not (np.array_equal(np.asarray(ch.get('a')), np.arange(1)) and ch.get('size') == nd and ch.get('replace', True) is True and ch.get('p') is None):
                viol(res, 'np.random.choice arguments', dd, repr(ch), 'arange(1), size=n_draws, replace=True')
            if not np.array_equal(np.asarray(a.get('mean')), coef):
                viol(res, 'mean handed to multivariate_normal is not the fitted coefficient vector', dd, np.asarray(a.get('mean')).tolist(), coef.tolist())
            if not np.array_equal(np.asarray(a.get('cov')), loaded(cov, sc0)):
                viol(res, 'covariance handed to multivariate_normal is not statistics_[cov] + 2^-26 scale I (bit for bit)', dd,
                     dict(max_abs_diff=float(np.max(np.abs(np.asarray(a.get('cov')) - loaded(cov, sc0)))) if np.shape(a.get('cov')) == cov.shape else repr(np.shape(a.get('cov')))), 0.0)
            if a.get('size') != nd or any(k.startswith('extra') for k in a):
                viol(res, 'size handed to multivariate_normal is not n_draws', dd, repr(a.get('size')), nd)
            # the property statement itself (covariance of the draws = reported covariance), independent of the load formula
            if quantity == 'coef':
                okc, info = close_to_reported(a.get('cov'), cov, sc0)
                res.case((i, 'cov-close'))
                if not okc:
                    viol(res, 'covariance of the simulated coefficients differs from the reported covariance by more than 2^-26 scale on the diagonal '
                              '(or off the diagonal)', dd, info, 'equal off the diagonal; diagonal excess in [0, 2^-26 scale]')
                # measured, not judged: effect of the loading on an identifiable functional (variance of the linear predictor at training rows)
                Bt = gam._modelmat(scn['X']).toarray()
                var = np.einsum('ij,jk,ik->i', Bt, cov, Bt)
                infl = SQRT_EPS * sc0 * (Bt * Bt).sum(axis=1) / np.where(var > 0, var, np.nan)
                worst = float(np.nanmax(infl)) if np.isfinite(infl).any() else 0.0
                inflation.append(worst)
                res.count('loading inflates lp variance by ' + ('> 1%' if worst > 1e-2 else '0.1% .. 1%' if worst > 1e-3 else '<= 0.1%'))
            # --- outputs
            B = gam._modelmat(Xeff).toarray()
            nq = B.shape[0]
            if quantity == 'coef':
                if out.shape != (nd, m) or not np.array_equal(out, D):
                    viol(res, 'coef draws returned are not the rows produced by multivariate_normal', dd, out.tolist(), D.tolist())
                continue
            lp = D @ B.T                                  # (nd, nq)
            lpabs = np.abs(D) @ np.abs(B).T
            with np.errstate(all='ignore'):
                mu_lo = gam.link.mu(lp - 1e-9 * lpabs, gam.distribution)
                mu_hi = gam.link.mu(lp + 1e-9 * lpabs, gam.distribution)
            slack = 1e-12 * np.maximum(np.abs(mu_lo), np.abs(mu_hi)) + 1e-300
            if quantity == 'mu':
                mu_out = out
            else:
                if len(rec['prim']) != 1:
                    viol(res, 'expected one call of the family primitive np.random.%s' % PRIM[fam][0], dd, len(rec['prim']), 1)
                    continue
                pa = rec['prim'][0]
                shape = np.broadcast(*[np.asarray(pa[o]) for o in PRIM[fam][1]]).shape
                expect_y = np.arange(int(np.prod(shape)), dtype=float).reshape(shape) + 0.25
                if out.shape != (nd, nq) or not np.array_equal(out, expect_y) or pa.get('size', None) is not None:
                    viol(res, 'y draws are not the output of the family primitive on an (n_draws, n_rows) argument array', dd, list(out.shape), [nd, nq])
                    continue
                if fam == 'DBinomial':
                    L0 = float(getattr(gam.distribution, 'levels', 1) or 1)
                    with np.errstate(all='ignore'):
                        mu_exp = gam.link.mu(lp, gam.distribution)
                    p_got = np.broadcast_to(np.asarray(pa['p'], dtype=float), (nd, nq))
                    res.case((i, 'binomial-args', nd, nq))
                    if not (np.asarray(pa['n']) == L0).all() or not np.allclose(p_got, mu_exp / L0, rtol=1e-9, atol=1e-300):
                        k = np.unravel_index(int(np.nanargmax(np.abs(p_got - mu_exp / L0))), (nd, nq))
                        viol(res, 'np.random.binomial did not receive (n, p) = (levels, simulated mean / levels)', dd,
                             dict(n=np.asarray(pa['n']).ravel()[:3].tolist(), p=float(p_got[k]), draw=int(k[0]), row=int(k[1])),
                             dict(n=L0, p=float(mu_exp[k] / L0), simulated_mean=float(mu_exp[k])))
                        continue
                # recover the means from the primitive's location argument
                sc, L = float(gam.distribution.scale), float(getattr(gam.distribution, 'levels', 1) or 1)
                first = np.asarray(pa[PRIM[fam][1][0]], dtype=float)
                second = np.asarray(pa[PRIM[fam][1][1]], dtype=float) if len(PRIM[fam][1]) > 1 else None
                mu_out = {'DNormal': lambda: first, 'DPoisson': lambda: first, 'DInvGauss': lambda: first,
                          'DBinomial': lambda: second * L, 'DGamma': lambda: first * second}[fam]()
                mu_out = np.broadcast_to(mu_out, (nd, nq))
                # generated sampler-argument expressions at a few entries (interval)
                fname = PRIM[fam][2]
                for (dd_, ii) in [(0, 0), (nd - 1, nq - 1)]:
                    with np.errstate(all='ignore'):
                        mval = float(gam.link.mu(np.array([lp[dd_, ii]]), gam.distribution)[0])
                    if not (math.isfinite(mval) and 1e-300 < abs(mval) < 1e300):
                        continue
                    argvals = [float(np.broadcast_to(np.asarray(pa[o], dtype=float), (nd, nq))[dd_, ii]) for o in PRIM[fam][1]]
                    for k, av in enumerate(argvals):
                        e = 'Gen_%s_sample_args %s %s %s' % (fname, rlit(sc), rlit(L), rlit(mval))
                        e = ('%s (%s)' % (['fst', 'snd'][k], e)) if len(argvals) == 2 else e
                        tol = Fraction(1, 10 ** 9) * (abs(common.frac_of_float(av)) + Fraction(1, 10 ** 300))
                        goals6.append('Rabs (%s - %s) <= %s' % (e, rlit(av), rlit_frac(tol)))
                        meta6.append(dict(dd, family=fname, argument=k, mean=mval, value=av))
            mu_out = np.asarray(mu_out, dtype=float)
            if mu_out.shape != (nd, nq):
                viol(res, '%s draws have shape %s, expected (n_draws, n_rows)' % (quantity, mu_out.shape), dd, list(mu_out.shape), [nd, nq])
                continue
            fin = np.isfinite(mu_lo) & np.isfinite(mu_hi)
            bad = fin & ((mu_out < np.minimum(mu_lo, mu_hi) - slack) | (mu_out > np.maximum(mu_lo, mu_hi) + slack))
            if bad.any():
                k = np.argwhere(bad)[0]
                viol(res, 'simulated mean differs from inverse link(model matrix at sample_at_X . coefficient draw)', dd,
                     float(mu_out[k[0], k[1]]), dict(lo=float(mu_lo[k[0], k[1]]), hi=float(mu_hi[k[0], k[1]]), draw=int(k[0]), row=int(k[1])))
            elif quantity == 'mu' and link_mu is not None and m <= 12 and nq <= 4 and (levels is not None or len(goals) < (40 if res.tier == 'quick' else 400)):
                mml = '[' + '; '.join('[' + '; '.join(rlit(x) for x in row) + ']' for row in B) + ']'
                cdl = '[' + '; '.join('[' + '; '.join(rlit(x) for x in row) + ']' for row in D) + ']'
                for (dd_, ii) in {(0, 0), (nd - 1, nq - 1)}:
                    v = float(mu_out[dd_, ii])
                    if not math.isfinite(v) or not fin[dd_, ii]:
                        continue
                    tol = max(abs(mu_hi[dd_, ii] - v), abs(v - mu_lo[dd_, ii])) + 2e-9 * abs(v) + 1e-300
                    goals.append('Rabs (nth %d (nth %d (Gen_mu_draws (%s) %s %s) []) 0 - %s) <= %s' % (ii, dd_, link_mu, mml, cdl, rlit(v), rlit_frac(Fraction(float(tol)))))
                    meta.append(dict(dd, draw=dd_, row=ii, value=v))
        # --- shapes with the real generator, all three quantities
        for quantity in ('coef', 'mu', 'y'):
            nd = rng.choice([1, 2, 7])
            Xq = query_rows(rng, scn, rng.choice([1, 2, 5]))[0] if rng.random() < 0.5 else None
            state = np.random.get_state()
            npseed = rng.randrange(1 << 30)
            try:
                np.random.seed(npseed)
                with np.errstate(all='ignore'):
                    out = np.asarray(gam.sample(scn['X'], scn['y'], quantity=quantity, sample_at_X=Xq, n_draws=nd, n_bootstraps=1))
            except Exception as e:
                reason = None
                if quantity == 'y' and isinstance(e, ValueError):
                    # the same seed reproduces the same coefficient draws, hence the means the family primitive was given
                    try:
                        np.random.seed(npseed)
                        with np.errstate(all='ignore'):
                            mus = gam.sample(scn['X'], scn['y'], quantity='mu', sample_at_X=Xq, n_draws=nd, n_bootstraps=1)
                        reason = generator_domain_error(fam, gam, mus)
                    except Exception:
                        reason = None
                if reason is not None:
                    res.count('generator domain error, skipped (%s)' % reason)
                    continue
                viol(res, 'sample raised %s on valid arguments (real generator)' % type(e).__name__, dict(d, quantity=quantity, n_draws=nd, numpy_seed=npseed), repr(e), 'draws')
                continue
            finally:
                np.random.set_state(state)
            want = (nd, m) if quantity == 'coef' else (nd, len(scn['X']) if Xq is None else len(Xq))
            res.case((i, 'shape', quantity, nd, Xq is None))
            if out.shape != want:
                viol(res, 'shape of sample(quantity=%s)' % quantity, dict(d, quantity=quantity, n_draws=nd), list(out.shape), list(want))
        if levels is not None:
            binomial_moments(res, gam, scn, d, rng)
        if i < 6 or res.tier != 'quick':
            rejections(res, gam, scn, d, cls)
            data_validation(res, gam, scn, d, flag)
        if nstat < (4 if res.tier == 'quick' else 30) and m <= 12:
            nstat += 1
            statistical(res, gam, scn, d, rng)
    witness_small_units(res)
    if inflation:
        res.notes.append('measured (not a violation): the diagonal loading 2^-26 scale inflates the variance of the simulated linear predictor at training rows by at most '
                         '%.3g (median over models %.3g) = max over rows of 2^-26 ||row||^2 scale / (row cov row\')'
                         % (max(inflation), float(np.median(inflation))))
    res.extra['sample_validates_data'] = flag
    with common.CaseDir(PROP) as cd:
        failing, errors = common.run_interval_goals(cd, HEADER, goals, tactic='c17', shard=4, timeout=300)
        failing6, errors6 = common.run_interval_goals(cd, HEADER6, goals6, tactic='c06', shard=40, prefix='ival6', timeout=300)
    for name, out in errors + errors6:
        res.obligation('correspondence-file:' + name, False, detail=out, kind='correspondence')
    res.obligation('correspondence:generated mu pipeline executed in Coq = implementation (interval-certified)', not failing and not errors,
                   detail='failing goals %s' % [meta[i] for i in failing[:3]], kind='correspondence')
    res.obligation('correspondence:arguments of the family primitive = generated sampler argument expressions at the simulated means (interval-certified)',
                   not failing6 and not errors6, detail='failing goals %s' % [meta6[i] for i in failing6[:3]], kind='correspondence')
    for i in failing:
        viol(res, 'simulated mean differs from the generated mu pipeline executed in Coq', meta[i], meta[i]['value'], 'see coq/Gen/Sample.v')
    for i in failing6:
        viol(res, 'argument of the family primitive differs from the generated sampler argument expression', meta6[i], meta6[i]['value'], 'see coq/Gen/Dists.v')
    res.extra['interval_goals'] = len(goals) + len(goals6)
    res.extra['tolerances'] = {'generator arguments': 'exact (bit for bit)', 'coef output': 'exact', 'mu': 'inverse link of lp +- 1e-9 * sum |row_i draw_i| (+ 1e-12 relative)',
                               'statistical test': '20000 draws, 7 sigma on every mean and covariance entry (supporting evidence only)'}
    res.trusted.append('np.random.multivariate_normal(mean, cov) / choice / normal / binomial / poisson / gamma / wald realise the named distributions with the documented '
                       'moments (NumPy); the theorems are about the arguments they receive and where their outputs go; the 20000-draw test is supporting evidence, not proof')


def replay(res, rp):
    run(res)
