"""C08 -- reported model statistics equal their documented definitions at the fit."""
import math
import warnings
from fractions import Fraction

import numpy as np
import scipy as sp
import scipy.stats

import common
from common import dylit, coq_list, rlit, rlit_frac
import gen_models
from props.c01 import vec, mat

PROP = 'C08'
HEADER = """From Coq Require Import List ZArith QArith Bool.
From PG Require Import Base.Ops Base.Vec Model.Pirls Model.C01Check Model.C08Check.
Import ListNotations.
"""
IHEADER = """From Coq Require Import Reals Lra List.
From Interval Require Import Tactic.
From PG Require Import Base.Ops Gen.Stats Gen.Dists Model.C06Check.
Import ListNotations.
Open Scope R_scope.
Ltac c08 := unfold Gen_AIC, Gen_AICc, Gen_UBRE, Gen_GCV, Gen_explained_deviance, Gen_McFadden, Gen_McFadden_adj, Gen_gamma_default,
                   Gen_add_scale_default, Stats.b2r; cbv zeta; cbn [negb]; c06."""
CODES = {1: 'B is not the solution operator of the penalised normal equations', 2: 'edof differs from tr(WB B)',
         3: 'cov differs from scale * B B\' (or se^2 from its diagonal)', 4: 'scale differs from weighted Pearson / (n - edof)'}
DISTNAME = {'DNormal': 'NormalDist', 'DBinomial': 'BinomialDist', 'DPoisson': 'PoissonDist', 'DGamma': 'GammaDist', 'DInvGauss': 'InvGaussDist'}
REL = Fraction(1, 10 ** 9)


def goal(expr, val, extra_abs=0.0):
    tol = REL * (abs(common.frac_of_float(val)) + common.frac_of_float(extra_abs))
    if tol == 0:
        tol = Fraction(1, 10 ** 300)
    return 'Rabs (%s - %s) <= %s' % (expr, rlit(val), rlit_frac(tol))


def case_of(scn, gam, it, y, w, mu):
    link, dist = gen_models.FAMILY[scn['cls']]
    WB = it['WB']
    A = np.vstack([WB, it['E']])
    sv = np.linalg.svd(A, compute_uv=False)
    cond = float(sv[0] / sv[-1]) if sv[-1] > 0 else 1e16
    tole = max(-27, min(-16, int(math.ceil(math.log2(64 * 2.2e-16 * cond * cond)))))
    st = gam.statistics_
    obs = coq_list(['(%s,%s,%s)' % (dylit(a), dylit(b), dylit(c)) for a, b, c in zip(w, y, mu)])
    return '(mk_c08 %s %d %s %s %s %s %s %s %s %s %s %s)' % (
        dist, WB.shape[1], mat(WB), mat(it['E']), mat(it['B'].T), dylit(st['edof']), dylit(st['scale']),
        common.coq_bool(gam.distribution._known_scale), mat(st['cov']), vec(st['se']), obs, common.zlit(tole))


def pvalue(gam, i):
    """the documented recipe, recomputed independently with SciPy (trusted for the cdfs and the pseudo-inverse)"""
    from pygam.terms import SplineTerm
    idxs = gam.terms.get_coef_indices(i)
    cov = gam.statistics_['cov'][idxs][:, idxs]
    coef = np.array(gam.coef_[idxs], dtype=float)
    if isinstance(gam.terms[i], SplineTerm):
        coef = coef - coef.mean()
    inv, rank = sp.linalg.pinv(cov, return_rank=True)
    score = float(coef @ inv @ coef)
    if gam.distribution._known_scale:
        return 1 - sp.stats.chi2.cdf(score, rank)
    return 1 - sp.stats.f.cdf(score / rank, rank, gam.statistics_['n_samples'] - gam.statistics_['edof'])


def loglik_ref(gam, cls, y, mu, w):
    """log-likelihood recomputed from SciPy's densities with the documented parameterisation"""
    sc = gam.distribution.scale
    if cls in ('LinearGAM', 'ExpectileGAM'):
        return float(sp.stats.norm.logpdf(y, loc=mu, scale=np.sqrt(sc / w)).sum())
    if cls == 'LogisticGAM':
        return float(sp.stats.binom.logpmf(y, 1, mu).sum())
    if cls == 'PoissonGAM':
        return float(sp.stats.poisson.logpmf(np.round(y * w).astype(int), mu * w).sum())
    if cls == 'GammaGAM':
        nu = w / sc
        return float(sp.stats.gamma.logpdf(y, a=nu, scale=mu / nu).sum())
    lam = w / sc
    return float(sp.stats.invgauss.logpdf(y, mu / lam, scale=lam).sum())


def refit_probe(res, rng):
    """statistics after a SECOND fit of the same estimator object on other data (generic GAM keeps its distribution object between
    fits): scale must be the Pearson estimate of the data just fitted, cov/se must use it"""
    import pygam
    for dist, link in (('normal', 'identity'), ('gamma', 'log'), ('inv_gauss', 'log')):
        nprng = np.random.RandomState(rng.randrange(1 << 30))
        g = pygam.GAM(pygam.s(0, n_splines=6), distribution=dist, link=link, fit_intercept=False)
        for rep, noise in enumerate((0.05, 0.8)):
            n = 40
            X = nprng.rand(n, 1)
            f = np.sin(3 * X[:, 0])
            y = (f + noise * nprng.randn(n)) if dist == 'normal' else np.exp(f) * nprng.gamma(1 / noise ** 2, noise ** 2, size=n)
            w = None if rep == 0 else np.asarray(10 ** nprng.uniform(-0.5, 0.5, size=n), dtype=np.float32).astype(float)
            try:
                with np.errstate(all='ignore'):
                    g.fit(X, y, weights=w)
            except ValueError:
                res.count('refit probe: fit raised ValueError')
                break
            ww = np.ones(n) if w is None else w
            mu = g.predict_mu(X)
            edof = g.statistics_['edof']
            want = float(np.sum(ww * (y - mu) ** 2 / g.distribution.V(mu=mu)) / (n - edof))
            got = float(g.statistics_['scale'])
            res.case(('refit', dist, rep))
            if not math.isclose(got, want, rel_tol=1e-6):
                res.violations.append(dict(what='scale reported after fit number %d of the same estimator is not the Pearson estimate of that fit' % (rep + 1), finding=None,
                                           input=dict(model="GAM(s(0, n_splines=6), distribution=%r, link=%r, fit_intercept=False)" % (dist, link), fit_number=rep + 1,
                                                      X=X[:, 0].tolist(), y=y.tolist(), weights=None if w is None else w.tolist()),
                                           observed=got, expected=want))


def run(res):
    rng = common.rng_for(res.seed, PROP)
    nfits = 36 if res.tier == 'quick' else 400
    res.rule = ('seeded fits over all six classes x {n>m, n=m, n<m} x weights x known/unknown scale x term mixes; per fit (a) exact dyadic check in Coq that '
                'the B of the last iteration is the solution operator of the penalised normal equations, then edof = tr(WB B), cov = scale B B\', se^2 = diag cov, '
                'scale = weighted Pearson/(n-edof) in exact rationals; (b) deviance (sum of the generated unit deviances), AIC, AICc, GCV/UBRE, explained deviance, '
                'McFadden (adj.) as `interval` goals over the generated formulas fed with (loglik, edof, n, deviance, scale); (c) log-likelihood and Wald p-values '
                'recomputed independently with SciPy; (d) deviance_residuals / score / accuracy / loglikelihood on fresh evaluation data. Distinct by scenario.')
    common.standard_prove(res, ['Props/C08.v', 'Props/C08Alg.v'], gen_targets=['dists', 'stats', 'solver'], extra=['Model/C08Check.vo', 'Model/C06Check.vo'])
    warnings.simplefilter('ignore')
    cases, meta, goals, gmeta = [], [], [], []
    classes = gen_models.CLASSES
    regimes = ['n>m', 'n>m', 'n<m', 'n=m']
    for i in range(nfits):
        cls = classes[i % len(classes)]
        regime = regimes[(i // len(classes)) % len(regimes)]
        scn = gen_models.gen_scenario(rng, cls=cls, regime=regime, max_n=40 if res.tier == 'quick' else 120, max_m=14 if res.tier == 'quick' else 30)
        d = gen_models.describe(scn)
        try:
            gam, its, out = gen_models.fit_captured(scn)
        except ValueError as e:
            res.count('fit raised %s' % type(e).__name__)
            continue
        X, y = scn['X'], scn['y']
        n = len(y)
        w = np.ones(n) if scn['w'] is None else np.asarray(scn['w'], dtype=np.float32).astype(float)
        with np.errstate(all='ignore'):
            mu = gam.predict_mu(X)
        st = gam.statistics_
        if not (np.isfinite(mu).all() and np.isfinite(st['edof']) and np.isfinite(st['cov']).all()):
            res.count('non-finite statistics (skipped)')
            continue
        res.count('%s %s %s' % (cls, regime, 'known-scale' if gam.distribution._known_scale else 'unknown-scale'))
        cases.append(case_of(scn, gam, its[-1], y, w, mu))
        meta.append(d)
        known = gam.distribution._known_scale
        link, dist = gen_models.FAMILY[cls]
        fam = DISTNAME[dist]
        sc = float(st['scale'])
        edof = float(st['edof'])
        # ---- bounds 0 < edof <= min(n, m)
        if not (0 < edof <= min(n, scn['m']) * (1 + 1e-9)):
            res.violations.append(dict(what='edof outside (0, min(n, m)]', finding=None, input=d, observed=edof, expected='(0, %d]' % min(n, scn['m'])))
        if not (math.isfinite(float(st['deviance'])) and math.isfinite(float(st['loglikelihood']))):
            # a mean saturated to exactly 0 or `levels` in binary64 next to a target that is not: deviance / log-likelihood are infinite, and so are
            # the statistics derived from them; nothing finite to compare (the edof / covariance certificate above is still checked)
            res.count('non-finite deviance or log-likelihood (mean saturated in binary64): derived statistics not compared')
            continue
        # ---- deviance: sum of generated (scaled) unit deviances
        if n <= 45 and (y > 0).all() or cls in ('LinearGAM', 'ExpectileGAM', 'LogisticGAM', 'PoissonGAM'):
            terms = ' + '.join('Gen_%s_deviance true %s 1 %s %s %s' % (fam, rlit(sc), rlit(a), rlit(b), rlit(c)) for a, b, c in zip(w, y, mu))
            # cancellation scale of the unit deviance as the code evaluates it; binomial: (L - y) log((L - y) / (L - mu)) loses eps * L absolutely
            # when mu (or L - mu) is tiny, whatever the size of y and mu
            Lb = float(scn.get('levels', 1)) if fam == 'BinomialDist' else 0.0
            canc = float(np.sum(np.abs(w) * (np.abs(y) + np.abs(mu) + Lb) * 50)) / sc if fam in ('BinomialDist', 'PoissonDist', 'GammaDist') else 0.0
            if math.isfinite(float(st['deviance'])):
                goals.append(goal('(%s)' % terms, float(st['deviance']), canc * 1e-3)); gmeta.append(dict(d, stat='deviance', value=float(st['deviance'])))
            else:
                res.count('non-finite deviance statistic (saturated mean equal to 0 or levels in binary64): not compared')
        # ---- log-likelihood (SciPy reference)
        ll = float(st['loglikelihood'])
        if cls != 'ExpectileGAM':
            # the code carries the weights as a float32 array (np.array(weights).astype('f')); scale / weights and weights / scale are
            # then evaluated in float32.  The reference uses the same dtype so that the comparison is about the formula, not about that rounding
            ref = loglik_ref(gam, cls, y, mu, w if scn['w'] is None else np.asarray(scn['w'], dtype=np.float32))
            res.case(('loglik', i))
            if math.isfinite(ref) and not math.isclose(ll, ref, rel_tol=1e-9, abs_tol=1e-9):
                res.violations.append(dict(what='log-likelihood differs from the sum of the documented log densities', finding=None, input=d,
                                           observed=ll, expected=ref))
        # ---- information criteria through the generated formulas
        if math.isfinite(ll):
            goals.append(goal('Gen_AIC %s %s %s' % (common.coq_bool(known), rlit(ll), rlit(edof)), float(st['AIC']))); gmeta.append(dict(d, stat='AIC', value=float(st['AIC'])))
            den = n - edof - 2
            if abs(den) <= 1e-6 * n:
                res.count('AICc skipped: n - edof - 2 ~ 0 (ill-conditioned)')
            elif math.isfinite(st['AICc']):
                # cancellation in n - edof - 2: relative rounding error eps (n + edof + 2) / |n - edof - 2| of the correction term
                corr = abs(2 * (edof + 1) * (edof + 2) / den)
                goals.append(goal('Gen_AICc %s %s %s' % (rlit(float(st['AIC'])), rlit(edof), rlit(float(n))), float(st['AICc']),
                                  abs(st['AIC']) + corr * 1e-6 * (n + edof + 2) / abs(den)))
                gmeta.append(dict(d, stat='AICc', value=float(st['AICc'])))
        with np.errstate(all='ignore'):
            dev_unscaled = float(gam.distribution.deviance(y=y, mu=mu, weights=w, scaled=False).sum())
        if known:
            if st['GCV'] is not None:
                res.violations.append(dict(what='GCV reported for a known-scale model', finding=None, input=d, observed=st['GCV'], expected=None))
            goals.append(goal('Gen_UBRE Gen_add_scale_default Gen_gamma_default %s %s %s %s' % (rlit(float(n)), rlit(dev_unscaled), rlit(edof), rlit(sc)), float(st['UBRE'])))
            gmeta.append(dict(d, stat='UBRE', value=float(st['UBRE'])))
            doc = dev_unscaled / n + 2 * 1.4 * edof * sc / n
            if not math.isclose(float(st['UBRE']), doc, rel_tol=1e-9, abs_tol=1e-12):
                res.violations.append(dict(what='UBRE differs from deviance/n + 2 gamma edof scale / n (gamma = 1.4, scale added back)', finding=None, input=d,
                                           observed=float(st['UBRE']), expected=doc))
        else:
            if st['UBRE'] is not None:
                res.violations.append(dict(what='UBRE reported for an unknown-scale model', finding=None, input=d, observed=st['UBRE'], expected=None))
            if abs(n - 1.4 * edof) <= 1e-6 * n:
                res.count('GCV skipped: n - gamma edof ~ 0 (ill-conditioned)')
            else:
                goals.append(goal('Gen_GCV Gen_gamma_default %s %s %s' % (rlit(float(n)), rlit(dev_unscaled), rlit(edof)), float(st['GCV']),
                                  abs(float(st['GCV'])) * 4e-6 * (n + 1.4 * edof) / abs(n - 1.4 * edof)))
                gmeta.append(dict(d, stat='GCV', value=float(st['GCV'])))
        # ---- pseudo R^2
        r2 = st['pseudo_r2']
        with np.errstate(all='ignore'):
            null_mu = np.full(n, y.mean())
            wcode = w if scn['w'] is None else np.asarray(scn['w'], dtype=np.float32)   # the dtype the code computes with
            full_d = float(gam.distribution.deviance(y=y, mu=mu, weights=wcode).sum())
            null_d = float(gam.distribution.deviance(y=y, mu=null_mu, weights=wcode).sum())
            full_ll = float(gam._loglikelihood(y=y, mu=mu, weights=wcode))
            null_ll = float(gam._loglikelihood(y=y, mu=null_mu, weights=wcode))
        if all(map(math.isfinite, (full_d, null_d, full_ll, null_ll))) and null_d != 0 and null_ll != 0:
            goals.append(goal('Gen_explained_deviance %s %s' % (rlit(full_d), rlit(null_d)), float(r2['explained_deviance']), 1.0)); gmeta.append(dict(d, stat='explained_deviance'))
            goals.append(goal('Gen_McFadden %s %s' % (rlit(full_ll), rlit(null_ll)), float(r2['McFadden']), 1.0)); gmeta.append(dict(d, stat='McFadden'))
            goals.append(goal('Gen_McFadden_adj %s %s %s' % (rlit(full_ll), rlit(null_ll), rlit(edof)), float(r2['McFadden_adj']), 1.0)); gmeta.append(dict(d, stat='McFadden_adj'))
            doc = 1 - full_ll / null_ll
            if not math.isclose(float(r2['McFadden']), doc, rel_tol=1e-9, abs_tol=1e-12):
                res.violations.append(dict(what="McFadden pseudo-R^2 differs from 1 - loglik / null loglik", finding=None, input=d, observed=float(r2['McFadden']), expected=doc))
        # ---- Wald p-values
        for ti in range(len(gam.terms)):
            ref = float(pvalue(gam, ti))
            got = float(st['p_values'][ti])
            res.case(('pvalue', i, ti))
            if not (math.isclose(got, ref, rel_tol=1e-6, abs_tol=1e-12) or (math.isnan(got) and math.isnan(ref))):
                res.violations.append(dict(what='Wald p-value differs from the documented recipe', finding=None, input=dict(d, term=ti), observed=got, expected=ref))
        # ---- evaluation-data methods on fresh data
        Xe, ye = X[::-1].copy(), y[::-1].copy()
        we = w[::-1].copy()
        with np.errstate(all='ignore'):
            mue = gam.predict_mu(Xe)
            dr = gam.deviance_residuals(Xe, ye, weights=we)
            devs = gam.distribution.deviance(ye, mue, weights=we, scaled=False)
        ok = np.isfinite(dr) & np.isfinite(devs)
        bad = ~np.isclose(dr[ok] ** 2, devs[ok], rtol=1e-9, atol=1e-12) | (np.sign(dr[ok]) != np.sign((ye - mue)[ok]) * (devs[ok] > 0))
        res.case(('dev_resid', i))
        if bad.any():
            k = int(np.argmax(bad))
            res.violations.append(dict(what='deviance residual is not sign(y - mu) sqrt(deviance)', finding=None, input=dict(d, row=k),
                                       observed=float(dr[ok][k]), expected=float(np.sign((ye - mue)[ok][k]) * np.sqrt(devs[ok][k]))))
        # scaled residuals: sign(y - mu) sqrt(w d / scale), independently of the distribution's own `scaled` switch
        with np.errstate(all='ignore'):
            drs = gam.deviance_residuals(Xe, ye, weights=we, scaled=True)
        sc_ = float(gam.distribution.scale)
        ok2 = ok & np.isfinite(drs)
        bad2 = ~np.isclose(drs[ok2] ** 2 * sc_, devs[ok2], rtol=1e-9, atol=1e-12) | (np.sign(drs[ok2]) != np.sign((ye - mue)[ok2]) * (devs[ok2] > 0))
        res.case(('dev_resid_scaled', i))
        if bad2.any():
            k = int(np.argmax(bad2))
            res.violations.append(dict(what='scaled deviance residual is not sign(y - mu) sqrt(deviance / scale)', finding=None, input=dict(d, row=k, scale=sc_),
                                       observed=float(drs[ok2][k]), expected=float(np.sign((ye - mue)[ok2][k]) * np.sqrt(devs[ok2][k] / sc_))))
        if cls == 'LogisticGAM':
            acc = float(gam.accuracy(Xe, ye))
            ref = float(np.mean((mue > 0.5).astype(int) == ye))
            if acc != ref or float(gam.score(Xe, ye)) != ref:
                res.violations.append(dict(what='accuracy / LogisticGAM.score is not the fraction of (mu > 0.5) == y', finding=None, input=d, observed=acc, expected=ref))
        elif cls != 'PoissonGAM':
            with np.errstate(all='ignore'):
                s_ = float(gam.score(Xe, ye, weights=we))
                fd = float(gam.distribution.deviance(y=ye, mu=mue, weights=we).sum())
                nd = float(gam.distribution.deviance(y=ye, mu=np.full(n, ye.mean()), weights=we).sum())
            if math.isfinite(s_) and nd != 0 and not math.isclose(s_, 1 - fd / nd, rel_tol=1e-9, abs_tol=1e-12):
                res.violations.append(dict(what='score is not the explained deviance 1 - D / D_null on the evaluation data', finding=None, input=d, observed=s_, expected=1 - fd / nd))
    refit_probe(res, rng)
    with common.CaseDir(PROP) as cd:
        failing, errors = common.run_bool_cases(cd, HEADER, cases, 'check_case8', shard=4)
        codes = {}
        if failing:
            txt = HEADER + 'Definition cs := %s.\nInductive MARK := FAILING.\nEval vm_compute in (FAILING, map check_code8 cs).\n' % coq_list([cases[i] for i in failing[:8]])
            r = cd.run_files([('codes.v', txt)])
            got = common.parse_nat_list(r['codes.v'][1])
            if got:
                codes = dict(zip(failing[:8], got[0][1]))
        gfail, gerrors = common.run_interval_goals(cd, IHEADER, goals, tactic='c08', shard=12)
    for name, out in errors + gerrors:
        res.obligation('correspondence-file:' + name, False, detail=out, kind='correspondence')
    res.obligation('correspondence:edof / cov / se / scale recomputed exactly from the certified B', not failing and not errors,
                   detail='failing %s' % [(meta[i]['cls'], meta[i]['regime'], CODES.get(codes.get(i))) for i in failing[:8]], kind='correspondence')
    res.obligation('correspondence:generated statistic formulas = reported statistics (interval-certified)', not gfail and not gerrors,
                   detail='failing %s' % [(gmeta[i]['cls'], gmeta[i]['stat']) for i in gfail[:8]], kind='correspondence')
    for i, mt in enumerate(meta):
        res.case(repr((mt['cls'], mt['regime'], mt['n'], mt['m'], repr(mt['specs']))), sample=mt if i in (0, 5) else None)
    for i, g in enumerate(gmeta):
        res.case(('goal', i, g['stat']))
    for i in failing:
        res.violations.append(dict(what='reported statistic differs from its definition: ' + CODES.get(codes.get(i), 'see check_code8'), finding=None,
                                   input=meta[i], observed='check_code8 = %s' % codes.get(i), expected='0'))
    for i in gfail:
        res.violations.append(dict(what='statistic %s differs from the documented formula' % gmeta[i]['stat'], finding=None, input=gmeta[i],
                                   observed=gmeta[i].get('value'), expected='coq/Gen/Stats.v'))
    res.trusted.append('scipy.stats cdfs / log densities and scipy.linalg.pinv used for the independent recomputation of log-likelihood and Wald p-values')


def replay(res, rp):
    run(res)
