"""C05 -- shape constraints are honoured by every converged fit.

(a) exact comparison of the constraint matrices built by pygam (penalties.monotonic_inc/dec, convex, concave, none,
    Term / TensorTerm / TermList.build_constraints, TensorTerm._iterate_marginal_coef_slices) with the Coq model
    coq/Model/Constraints.v evaluated by vm_compute on exact rationals;
(b) converged constrained fits: a user CallBack captures C and the coefficients at every PIRLS iteration; captured C ==
    model C(beta entering the iteration); the proved violation bound (Props/C05.v C05_step_bound / C05_violation_bound)
    evaluated in exact rational arithmetic on the captured quantities; function shape on in-range and extrapolation grids;
(c) the matrix-level statements of the property evaluated directly on the implementation (independent of the Coq model).
"""
import math
import os
from fractions import Fraction

import numpy as np
import scipy.sparse

import common
from common import zlit, dylit, coq_list, qlit, frac_of_float
import gen_terms

PROP = 'C05'
PROPS_FILE = 'Props/C05.v'

HEADER = """From Coq Require Import List ZArith QArith Bool.
From PG Require Import Base.Ops Base.Vec Model.Constraints Model.C05Check.
Import ListNotations.
Open Scope Q_scope.
"""

CON_COQ = {None: 'CPyNone', 'none': 'CStrNone', 'monotonic_inc': 'CMonoInc', 'monotonic_dec': 'CMonoDec',
           'convex': 'CConvex', 'concave': 'CConcave'}
SHAPES = ['monotonic_inc', 'monotonic_dec', 'convex', 'concave']
ORDER = {'monotonic_inc': 1, 'monotonic_dec': 1, 'convex': 2, 'concave': 2}
NEG = {'monotonic_inc': True, 'monotonic_dec': False, 'convex': True, 'concave': False}   # True: negative differences violate
CLAM = 1e9
TOL_REL = Fraction(1, 10 ** 12)
S16 = 'S16-tensor-marginal-extrapolation'


# ----------------------------------------------------------------------------- helpers
def dense(M):
    if scipy.sparse.issparse(M):
        M = M.toarray()
    return np.atleast_2d(np.asarray(M, dtype=float))


def mat_coq(M):
    return coq_list([coq_list([dylit(x) for x in row]) for row in dense(M)])


def vec_coq(v):
    return coq_list([dylit(x) for x in np.asarray(v, dtype=float).ravel()])


def nat_list(l):
    return coq_list(['%d%%nat' % int(x) for x in l])


def cons_of(t):
    cs = t.constraints
    if isinstance(cs, (str, type(None))):
        cs = [cs]
    out = []
    for c in cs:
        if callable(c):
            raise ValueError('callable constraint not supported by the model')
        out.append(c)
    return out


def margin_coq(t):
    return '(mk_cmargin %d%%nat %s)' % (int(t.n_coefs), coq_list([CON_COQ[c] for c in cons_of(t)]))


def term_coq(t):
    if t.isintercept:
        return 'CTIntercept'
    if t.istensor:
        return '(CTTensor %s)' % coq_list([margin_coq(m) for m in t._terms])
    return '(CTSimple %s)' % margin_coq(t)


def exact_diffs(coef, d):
    v = [frac_of_float(x) for x in np.asarray(coef, dtype=float).ravel()]
    for _ in range(d):
        v = [b - a for a, b in zip(v[:-1], v[1:])]
    return v


def rounding_ambiguous(coef, d):
    """True when the SIGN of some float d-th difference (what the code's mask looks at) differs from the sign of the
    exact difference of the same binary64 coefficients: the real-number model and the float code may then legitimately
    disagree on a mask bit; such cases are counted and left out of the exact comparison (never alarm on rounding)."""
    coef = np.asarray(coef, dtype=float).ravel()
    if len(coef) <= d:
        return False
    fl = np.diff(coef, n=d)
    ex = exact_diffs(coef, d)
    for a, b in zip(fl, ex):
        if (a > 0) != (b > 0) or (a < 0) != (b < 0):
            return True
    return False


def ambiguous_for_terms(terms, coefs):
    """rounding ambiguity of any second-difference mask used by the term list (first differences are sign-exact)"""
    pos = 0
    for t in terms:
        n = int(t.n_coefs)
        block = np.asarray(coefs[pos:pos + n], dtype=float)
        pos += n
        if t.isintercept:
            continue
        if t.istensor:
            dims = [int(m.n_coefs) for m in t._terms]
            ten = block.reshape(dims)
            for i, m in enumerate(t._terms):
                if any(c in ('convex', 'concave') for c in cons_of(m)):
                    lines = np.moveaxis(ten, i, -1).reshape(-1, dims[i])
                    if any(rounding_ambiguous(l, 2) for l in lines):
                        return True
        elif any(c in ('convex', 'concave') for c in cons_of(t)):
            if rounding_ambiguous(block, 2):
                return True
    return False


# ----------------------------------------------------------------------------- coefficient vectors with planted patterns
def planted_coef(rng, n, kind, shape=None):
    """coefficient vectors whose first/second differences have planted sign patterns, including exact ties"""
    if kind == 'int':           # small integers: many ties, exact in binary64
        return np.array([rng.randint(-4, 4) for _ in range(n)], dtype=float)
    if kind == 'const':
        return np.full(n, float(rng.randint(-3, 3)))
    if kind == 'satisfied':     # satisfies `shape` (weakly: ties planted), integer valued
        d = ORDER.get(shape, 1)
        sgn = 1.0 if NEG.get(shape, True) else -1.0
        inc = [sgn * rng.choice([0, 0, 1, 2, 3]) for _ in range(max(n - d, 0))]
        v = list(inc)
        for _ in range(d):
            v = list(np.cumsum([float(rng.randint(-3, 3))] + v))
        return np.array(v[:n] if len(v) >= n else (v + [0.0] * n)[:n], dtype=float)
    if kind == 'one_violation':  # satisfied, then one planted violation
        b = planted_coef(rng, n, 'satisfied', shape)
        if n >= 2:
            j = rng.randrange(n)
            b[j] += rng.choice([-7.0, 7.0, -0.5, 0.5])
        return b
    if kind == 'dyadic':        # multiples of 2^-10: all differences exact in binary64
        return np.array([rng.randint(-4096, 4096) / 1024.0 for _ in range(n)], dtype=float)
    if kind == 'float':         # arbitrary binary64 values over several magnitudes
        sc = 10 ** rng.uniform(-3, 3)
        return np.array([rng.gauss(0, 1) * sc for _ in range(n)], dtype=float)
    if kind == 'float_near_tie':  # a smooth sequence with nearly equal differences (second differences ~ rounding)
        a, b0 = rng.uniform(-2, 2), rng.uniform(-1, 1)
        return np.array([a + b0 * j * 0.1 for j in range(n)], dtype=float)
    raise ValueError(kind)


COEF_KINDS = ['int', 'const', 'satisfied', 'one_violation', 'dyadic', 'float', 'float_near_tie']


# ----------------------------------------------------------------------------- (c) direct probes
def fr_quad(M, b):
    """exact beta' M beta over the rationals (M, b binary64)"""
    M = dense(M)
    fb = [frac_of_float(x) for x in b]
    tot = Fraction(0)
    for i, row in enumerate(M):
        if fb[i] == 0:
            continue
        s = Fraction(0)
        for j, x in enumerate(row):
            if x != 0.0 and fb[j] != 0:
                s += frac_of_float(x) * fb[j]
        tot += fb[i] * s
    return tot


def entry_rounding_allowance(M, b):
    """the implementation stores each entry k*constraint_lam + constraint_l2 rounded once to binary64 (relative error <= 2^-53),
    so its exact quadratic form may differ from the ideal one by at most 2^-53 * |b|' |M| |b|; allow 1e-15 * that"""
    ab = np.abs(np.asarray(b, dtype=float))
    return Fraction(1, 10 ** 15) * frac_of_float(float(ab @ np.abs(dense(M)) @ ab) * 1.000001) + Fraction(1, 10 ** 300)


def viol_sq_sum(beta_mask, beta_val, shape):
    """sum over positions where the float differences of beta_mask violate `shape` of the squared exact differences
    of beta_val (exact rational); mask taken exactly as the code does (np.diff on floats, strict inequality)"""
    d = ORDER[shape]
    bm = np.asarray(beta_mask, dtype=float).ravel()
    if len(bm) <= d or len(bm) == 1:
        return Fraction(0), 0
    fl = np.diff(bm, n=d)
    mask = (fl < 0) if NEG[shape] else (fl > 0)
    ex = exact_diffs(beta_val, d)
    return sum((e * e for e, m in zip(ex, mask) if m), Fraction(0)), int(mask.sum())


def satisfied_exact(beta, shape):
    d = ORDER[shape]
    b = np.asarray(beta, dtype=float).ravel()
    if len(b) <= d:
        return True
    fl = np.diff(b, n=d)
    return bool((fl >= 0).all()) if NEG[shape] else bool((fl <= 0).all())


def direct_probe(res, rng, tier):
    from pygam import penalties as P
    from pygam.terms import SplineTerm
    nmax = 25 if tier == 'quick' else 60
    fns = {'monotonic_inc': P.monotonic_inc, 'monotonic_dec': P.monotonic_dec, 'convex': P.convex, 'concave': P.concave}
    for n in range(1, nmax + 1):
        for shape in SHAPES:
            for kind in ('int', 'satisfied', 'one_violation', 'const'):
                b = planted_coef(rng, n, kind, shape)
                key = ('probe', n, shape, kind)
                try:
                    M = fns[shape](n, b).toarray()
                except Exception as e:
                    res.violations.append(dict(what='constraint construction raised', finding=None,
                                               input=dict(fn=shape, n=n, coef=b.tolist()),
                                               observed='%s: %s' % (type(e).__name__, e), expected='an n x n matrix'))
                    res.case(key)
                    continue
                want, nviol = viol_sq_sum(b, b, shape)
                got = fr_quad(M, b)
                v = np.array([rng.randint(-5, 5) for _ in range(n)], dtype=float)
                want_v, _ = viol_sq_sum(b, v, shape)
                got_v = fr_quad(M, v)
                sat = satisfied_exact(b, shape)
                bad = []
                if M.shape != (n, n):
                    bad.append('shape %s' % (M.shape,))
                if not (M == M.T).all():
                    bad.append('asymmetric')
                if got != want:
                    bad.append('quad(C(beta)) beta = %s, sum of squared violating differences = %s' % (got, want))
                if got_v != want_v or got_v < 0:
                    bad.append('quad(C(beta)) v = %s, expected %s (>= 0)' % (got_v, want_v))
                if (got == 0) != sat:
                    bad.append('quad zero = %s but constraint satisfied = %s' % (got == 0, sat))
                if sat and np.count_nonzero(M):
                    bad.append('non-zero matrix for coefficients that satisfy the constraint (ties must not be penalised)')
                if bad:
                    res.violations.append(dict(what='matrix-level statement of C05 fails for penalties.%s: %s' % (shape, '; '.join(bad)),
                                               finding=None, input=dict(fn=shape, n=n, coef=b.tolist(), v=v.tolist()),
                                               observed=dict(quad=str(got), quad_v=str(got_v)),
                                               expected=dict(quad=str(want), quad_v=str(want_v))))
                res.case(key, nontrivial=(n > ORDER[shape]),
                         sample=dict(probe='quadform', fn=shape, n=n, coef=b.tolist()) if (n, kind) == (6, 'one_violation') and shape == 'convex' else None)
                res.count('probe:%s:%s' % (shape, 'violating' if nviol else 'satisfied'))
        # Term.build_constraints: sum * 1e9 + ridge iff any violation
        for _ in range(2):
            k = rng.choice([1, 2, 2, 3])
            cons = [rng.choice(SHAPES + [None, 'none']) for _ in range(k)]
            b = planted_coef(rng, n, rng.choice(['int', 'dyadic', 'satisfied', 'one_violation']), rng.choice(SHAPES))
            t = SplineTerm(0, n_splines=max(n, 1), spline_order=0, constraints=cons)
            l2 = rng.choice([1e-3, 1e-2, 0.0, 0.5])
            M = dense(t.build_constraints(b, CLAM, l2))
            tot = Fraction(0)
            nv = 0
            for c in cons:
                if c in SHAPES:
                    s_, k_ = viol_sq_sum(b, b, c)
                    tot += s_
                    nv += k_
            want = frac_of_float(CLAM) * tot + (frac_of_float(l2) * sum((frac_of_float(x) ** 2 for x in b), Fraction(0)) if nv else 0)
            got = fr_quad(M, b)
            ok = abs(got - want) <= entry_rounding_allowance(M, b) and (M == M.T).all() and (nv > 0 or not np.count_nonzero(M))
            if not ok:
                res.violations.append(dict(what='Term.build_constraints quadratic form differs from 1e9 * sum of squared violating '
                                                'differences + l2 * |beta|^2 [iff some violation]', finding=None,
                                           input=dict(n=n, constraints=cons, coef=b.tolist(), constraint_lam=CLAM, constraint_l2=l2),
                                           observed=str(got), expected=str(want)))
            res.case(('probe-term', n, tuple(map(str, cons)), tuple(b.tolist()), l2))
    # tensor: quadratic form = sum over marginals, over the axis-i lines of the C-order coefficient tensor
    from pygam.terms import TensorTerm
    reps = 40 if tier == 'quick' else 300
    for r in range(reps):
        k = rng.choice([2, 2, 3])
        dims = [rng.randint(1, 5) for _ in range(k)]
        cons = [[rng.choice(SHAPES + [None, None])] for _ in range(k)]
        te = TensorTerm(*[SplineTerm(j, n_splines=dims[j], spline_order=0, constraints=cons[j]) for j in range(k)])
        N = int(np.prod(dims))
        b = np.array([rng.randint(-3, 3) for _ in range(N)], dtype=float)
        l2 = rng.choice([1e-3, 0.0, 0.25])
        try:
            M = dense(te.build_constraints(b, CLAM, l2))
        except Exception as e:
            res.violations.append(dict(what='TensorTerm.build_constraints raised', finding=None,
                                       input=dict(dims=dims, constraints=cons, coef=b.tolist()),
                                       observed='%s: %s' % (type(e).__name__, e), expected='matrix'))
            continue
        ten = b.reshape(dims)
        want = Fraction(0)
        for i in range(k):
            lines = np.moveaxis(ten, i, -1).reshape(-1, dims[i])
            for ln in lines:
                for c in cons[i]:
                    if c in SHAPES:
                        s_, nv = viol_sq_sum(ln, ln, c)
                        want += frac_of_float(CLAM) * s_
                        if nv:
                            want += frac_of_float(l2) * sum((frac_of_float(x) ** 2 for x in ln), Fraction(0))
        got = fr_quad(M, b)
        if abs(got - want) > entry_rounding_allowance(M, b) or not (M == M.T).all():
            res.violations.append(dict(what='TensorTerm.build_constraints quadratic form differs from the sum over marginals of the '
                                            'line-wise constraint forms along that marginal\'s axis', finding=None,
                                       input=dict(dims=dims, constraints=cons, coef=b.tolist(), constraint_l2=l2),
                                       observed=str(got), expected=str(want)))
        res.case(('probe-tensor', tuple(dims), repr(cons), tuple(b.tolist())), nontrivial=any(c[0] for c in cons))
        res.count('probe:tensor')


# ----------------------------------------------------------------------------- (a) model correspondence cases
def fn_cases(res, rng, tier):
    from pygam import penalties as P
    fns = {'monotonic_inc': P.monotonic_inc, 'monotonic_dec': P.monotonic_dec, 'convex': P.convex, 'concave': P.concave,
           'none': P.none}
    nmax = 25 if tier == 'quick' else 45
    reps = 1 if tier == 'quick' else 3
    cases, meta = [], []
    for n in range(1, nmax + 1):
        for name, fn in fns.items():
            for kind in COEF_KINDS:
                for _ in range(reps):
                    b = planted_coef(rng, n, kind, name if name in SHAPES else 'monotonic_inc')
                    m = dict(fn=name, n=n, coef=b.tolist(), kind=kind)
                    if name in SHAPES and ORDER[name] == 2 and rounding_ambiguous(b, 2):
                        res.count('fn:skipped-rounding-ambiguous-second-difference')
                        continue
                    try:
                        M = fn(n, b)
                    except Exception as e:
                        res.violations.append(dict(what='constraint construction raised', finding=None, input=m,
                                                   observed='%s: %s' % (type(e).__name__, e), expected='an n x n matrix'))
                        continue
                    cases.append('(KFn %s %d%%nat %s %s)' % (CON_COQ[name], n, vec_coq(b), mat_coq(M)))
                    meta.append(m)
                    res.count('fn:%s:%s' % (name, kind))
        # dimension mismatch must raise ValueError (the model's _chk variants return None)
        for name in SHAPES:
            b = planted_coef(rng, n + rng.choice([1, 2]), 'int')
            try:
                fns[name](n, b)
                raised = False
            except ValueError:
                raised = True
            m = dict(fn=name, n=n, coef=b.tolist(), kind='length-mismatch')
            if raised:
                cases.append('(KFnRaises %s %d%%nat %s)' % (CON_COQ[name], n, vec_coq(b)))
            else:
                cases.append('(KFn %s %d%%nat %s [])' % (CON_COQ[name], n, vec_coq(b)))
            meta.append(m)
            res.count('fn:length-mismatch')
    return cases, meta


def force_constraints(rng, specs, p=0.8):
    """make most spline terms / spline marginals carry shape constraints"""
    def one(s):
        if s['kind'] == 's' and rng.random() < p:
            s['constraints'] = [rng.choice(SHAPES + SHAPES + [None, 'none']) for _ in range(rng.choice([1, 1, 2, 3]))]
    for s in specs:
        one(s)
        if s['kind'] == 'te':
            for m in s['margins']:
                one(m)
    return specs


def term_cases(res, rng, tier):
    count = 90 if tier == 'quick' else 900
    cases, meta = [], []
    for i in range(count):
        nf = rng.randint(1, 4)
        factor_feats = tuple(j for j in range(nf) if rng.random() < 0.2)
        specs = gen_terms.gen_termlist(rng, nf, factor_feats, dyadic=True, max_terms=3, max_n=9, allow_constraints=True)
        specs = force_constraints(rng, specs)
        try:
            tl = gen_terms.build_termlist(specs)
            X = gen_terms.gen_X(rng, 12, nf, factor_feats)
            tl.compile(X)
        except Exception as e:
            res.count('term_cases_build_error:%s' % type(e).__name__)
            continue
        N = int(tl.n_coefs)
        if N > 90:
            continue
        kind = rng.choice(['int', 'int', 'dyadic', 'float', 'one_violation', 'satisfied'])
        coefs = planted_coef(rng, N, kind, rng.choice(SHAPES))
        clam = rng.choice([1e9, 1e9, 1.0, 3.0, 2.0 ** 20])
        l2 = rng.choice([1e-3, 1e-3, 1e-2, 0.0, 0.5])
        m = dict(specs=specs, coef=coefs.tolist(), constraint_lam=clam, constraint_l2=l2, n_coefs=N, coef_kind=kind)
        if ambiguous_for_terms(tl._terms, coefs):
            res.count('terms:skipped-rounding-ambiguous-second-difference')
            continue
        # whole term list
        targets = [('TermList', tl, list(tl._terms), coefs)]
        # each term alone (Term.build_constraints / TensorTerm.build_constraints)
        pos = 0
        for t in tl._terms:
            n = int(t.n_coefs)
            if not t.isintercept:
                targets.append(('TensorTerm' if t.istensor else 'Term', t, [t], coefs[pos:pos + n]))
            pos += n
        for what, obj, terms, cf in targets:
            try:
                M = obj.build_constraints(np.asarray(cf), clam, l2)
                hascon = bool(obj.hasconstraint)
            except Exception as e:
                res.violations.append(dict(what='%s.build_constraints raised on a valid term list' % what, finding=None, input=m,
                                           observed='%s: %s' % (type(e).__name__, e), expected='constraint matrix'))
                continue
            cases.append('(KTerms %s %s %s %s %s %s %s)' % (
                coq_list([term_coq(t) for t in terms]), vec_coq(cf), dylit(clam), dylit(l2), qlit(TOL_REL),
                common.coq_bool(hascon), mat_coq(M)))
            mm = dict(m)
            mm['target'] = what
            mm['term_index'] = None if what == 'TermList' else [id(x) for x in tl._terms].index(id(obj))
            meta.append(mm)
            res.count('terms:%s' % what)
        # the slice iterator of every tensor term
        for t in tl._terms:
            if t.istensor:
                dims = [int(x.n_coefs) for x in t._terms]
                for ax in range(len(dims)):
                    sl = [list(map(int, s_)) for s_ in t._iterate_marginal_coef_slices(ax)]
                    cases.append('(KFibres %s %d%%nat %s)' % (nat_list(dims), ax, coq_list([nat_list(s_) for s_ in sl])))
                    meta.append(dict(target='fibres', dims=dims, axis=ax))
                    res.count('terms:fibres')
    return cases, meta


# ----------------------------------------------------------------------------- run
def run(res):
    rng = common.rng_for(res.seed, PROP)
    res.rule = ('(a) every constraint function (monotonic_inc/dec, convex, concave, none) at every size n<=N on coefficient '
                'vectors with planted patterns (small integers with ties, constants, weakly satisfying sequences, one planted '
                'violation, dyadic and arbitrary binary64 values, near-tie arithmetic progressions) compared entry by entry, exactly, '
                'with the Coq model under vm_compute; seeded term lists (spline/linear/factor/tensor, 1-3 constraints per term or '
                'marginal incl. None and "none") whose Term/TensorTerm/TermList.build_constraints matrices and slice iterators are '
                'compared with the model in exact rationals (1e-12 relative: entries are k*constraint_lam + constraint_l2 rounded '
                'once); (b) converged constrained fits with a capturing CallBack; (c) the property statements evaluated directly on '
                'the implementation.  A case is distinct by its full input; non-trivial when n exceeds the difference order.')
    common.standard_prove(res, PROPS_FILE)
    direct_probe(res, rng, res.tier)
    c1, m1 = fn_cases(res, rng, res.tier)
    c2, m2 = term_cases(res, rng, res.tier)
    c3, m3 = fit_cases(res, rng, res.tier)
    s16_witness(res)
    cases, meta = c1 + c2 + c3, m1 + m2 + m3
    with common.CaseDir(PROP) as cd:
        failing, errors = common.run_bool_cases(cd, HEADER, cases, 'check_case', shard=100)
    for name, out in errors:
        res.obligation('correspondence-file:' + name, False, detail=out, kind='correspondence')
    res.obligation('correspondence:C05 constraint matrices and tensor slices (model = implementation)',
                   not failing and not errors, detail='failing case indices %s' % failing[:20], kind='correspondence')
    for i, m in enumerate(meta):
        res.case(repr(m), sample=m if i in (40, len(c1) + 2) else None,
                 nontrivial=not (m.get('fn') and m.get('n', 9) <= ORDER.get(m.get('fn'), 0)))
    for i in failing:
        res.violations.append(dict(what='constraint matrix / slice iterator differs from the model (coq/Model/Constraints.v)',
                                   finding=None, input=meta[i], observed='implementation != model',
                                   expected='see coq/Model/Constraints.v'))
    res.extra['correspondence_cases'] = len(cases)
    res.extra['tolerances'] = {'penalties.<constraint>(n, coef)': 'exact', 'build_constraints': '1e-12 relative per entry (exact rationals)'}


def replay(res, rp):
    run(res)


# ----------------------------------------------------------------------------- (b) converged constrained fits
FAMILIES = ['LinearGAM', 'PoissonGAM', 'LogisticGAM', 'GammaGAM']
_CAPTURE = [None]


def capture_class():
    """A user CallBack whose on_loop_start/on_loop_end name locals of GAM._pirls (the wrapper in pygam/callbacks.py passes
    exactly the named ones; the methods must not have other local variables)."""
    if _CAPTURE[0] is None:
        from pygam.callbacks import CallBack, validate_callback

        @validate_callback
        class C05Capture(CallBack):
            def __init__(self):
                super(C05Capture, self).__init__(name='c05capture')

            def on_loop_start(self, gam, C, P, S):
                return dict(at='start', coef_in=np.array(gam.coef_, dtype=float).copy(), C=dense(C).copy(),
                            l2_after=float(gam._constraint_l2), P=dense(P).copy(), S=dense(S).copy())

            def on_loop_end(self, gam, coef_new, WB, pseudo_data):
                return dict(at='end', coef_new=np.array(coef_new, dtype=float).copy(), WB=dense(WB).copy(),
                            pd=np.array(pseudo_data, dtype=float).ravel().copy(), l2_end=float(gam._constraint_l2))
        _CAPTURE[0] = C05Capture
    return _CAPTURE[0]


def contradicting_signal(shape, u):
    """u in [-1, 1]; a signal with the OPPOSITE shape (strictly), amplitude ~1"""
    return {'monotonic_inc': -u, 'monotonic_dec': u, 'convex': 0.5 - u * u, 'concave': u * u - 0.5}[shape]


def gen_fit_spec(rng, idx):
    fam = FAMILIES[idx % 4]
    layout = ['single', 'single', 'two', 'tensor'][(idx // 4) % 4]
    order = 1 + (idx // 16) % 4
    spec = dict(family=fam, layout=layout, n=rng.choice([60, 100, 160]), seed=rng.randrange(1 << 30),
                lam=float(10 ** rng.uniform(-3, 3)), strength=rng.choice([0.8, 1.5, 3.0]),
                xscale=float(10 ** rng.uniform(-1, 2)), xoff=float(rng.uniform(-5, 5)), noise=rng.choice([0.05, 0.3]))
    if layout == 'tensor':
        o1, o2 = order, rng.randint(1, 3)
        n1, n2 = rng.randint(max(4, o1 + 1), 7), rng.randint(max(4, o2 + 1), 6)
        c1 = rng.choice(SHAPES)
        c2 = rng.choice(SHAPES + [None, None])
        spec.update(margins=[dict(n_splines=n1, spline_order=o1, constraints=c1), dict(n_splines=n2, spline_order=o2, constraints=c2)])
    else:
        ns = rng.randint(max(4, order + 1), 25)
        cons = [rng.choice(SHAPES)]
        if rng.random() < 0.3:   # a combination: monotone + convex/concave
            cons = [rng.choice(SHAPES[:2]), rng.choice(SHAPES[2:])]
        spec.update(n_splines=ns, spline_order=order, constraints=cons)
    return spec


def build_fit(spec):
    import pygam
    from pygam import s, te
    rs = np.random.RandomState(spec['seed'])
    n = spec['n']
    nfeat = 1 if spec['layout'] == 'single' else 2
    U = rs.rand(n, nfeat) * 2 - 1
    U[0, :] = -1.0
    U[1, :] = 1.0
    X = spec['xoff'] + spec['xscale'] * U
    if spec['layout'] == 'tensor':
        m1, m2 = spec['margins']
        f = contradicting_signal(m1['constraints'], U[:, 0])
        if m2['constraints']:
            f = f + contradicting_signal(m2['constraints'], U[:, 1])
        else:
            f = f + 0.5 * np.sin(3 * U[:, 1])
        terms = te(s(0, n_splines=m1['n_splines'], spline_order=m1['spline_order'], constraints=m1['constraints']),
                   s(1, n_splines=m2['n_splines'], spline_order=m2['spline_order'], constraints=m2['constraints']), lam=spec['lam'])
    else:
        f = sum(contradicting_signal(c, U[:, 0]) for c in spec['constraints'])
        terms = s(0, n_splines=spec['n_splines'], spline_order=spec['spline_order'], constraints=list(spec['constraints']), lam=spec['lam'])
        if spec['layout'] == 'two':
            f = f + 0.5 * np.sin(3 * U[:, 1])
            terms = terms + s(1, n_splines=6, lam=spec['lam'])
    f = spec['strength'] * f
    fam = spec['family']
    if fam == 'LinearGAM':
        y = f + spec['noise'] * rs.randn(n)
    elif fam == 'PoissonGAM':
        y = rs.poisson(np.exp(f)).astype(float)
    elif fam == 'LogisticGAM':
        y = (rs.rand(n) < 1.0 / (1.0 + np.exp(-2 * f))).astype(float)
    else:
        y = rs.gamma(4.0, np.exp(f) / 4.0) + 1e-3
    gam = getattr(pygam, fam)(terms)
    return gam, X, y, U


def fr_vec(v):
    return [frac_of_float(x) for x in np.asarray(v, dtype=float).ravel()]


def fr_matvec(M, fv):
    out = []
    for row in np.asarray(M, dtype=float):
        s_ = Fraction(0)
        for x, b in zip(row, fv):
            if x != 0.0 and b != 0:
                s_ += frac_of_float(x) * b
        out.append(s_)
    return out


def fr_dot(a, b):
    return sum((x * y for x, y in zip(a, b)), Fraction(0))


def constraint_lines(terms, coef_mask, coef_val):
    """yield (term index, marginal index or None, constraint name, line of coef_mask, line of coef_val) for every constrained
    coefficient line of the model (independent of the Coq model: numpy reshape / moveaxis)"""
    pos = 0
    for ti, t in enumerate(terms):
        n = int(t.n_coefs)
        bm, bv = np.asarray(coef_mask[pos:pos + n], dtype=float), np.asarray(coef_val[pos:pos + n], dtype=float)
        pos += n
        if t.isintercept:
            continue
        if t.istensor:
            dims = [int(m.n_coefs) for m in t._terms]
            for i, m in enumerate(t._terms):
                lm = np.moveaxis(bm.reshape(dims), i, -1).reshape(-1, dims[i])
                lv = np.moveaxis(bv.reshape(dims), i, -1).reshape(-1, dims[i])
                for c in cons_of(m):
                    if c in SHAPES:
                        for a, b in zip(lm, lv):
                            yield ti, i, c, a, b
        else:
            for c in cons_of(t):
                if c in SHAPES:
                    yield ti, None, c, bm, bv


def shape_ok(vals, shape, tol):
    """vals: function values along a line of a uniform grid; returns (ok, worst) for the requested shape up to tol"""
    d = np.diff(vals, n=ORDER[shape])
    worst = float(-d.min()) if NEG[shape] else float(d.max())
    return worst <= tol, max(worst, 0.0)


def fit_cases(res, rng, tier):
    nfits = 64 if tier == 'quick' else 640
    Capture = capture_class()
    cases, meta = [], []
    ratios = []
    for idx in range(nfits):
        spec = gen_fit_spec(rng, idx)
        tag = '%s/%s/order%d' % (spec['family'], spec['layout'], spec.get('spline_order', spec.get('margins', [{}])[0].get('spline_order', 0)))
        try:
            gam, X, y, U = build_fit(spec)
            cb = Capture()
            gam.callbacks = list(gam.callbacks) + [cb]      # (LinearGAM's constructor does not forward callbacks=)
            l2_start = float(gam._constraint_l2)
            import contextlib
            import io
            with contextlib.redirect_stdout(io.StringIO()):
                gam.fit(X, y)
        except Exception as e:
            res.count('fit:error:%s' % type(e).__name__)
            res.notes.append('fit raised %s: %s for %r' % (type(e).__name__, str(e)[:100], spec)) if len(res.notes) < 5 else None
            continue
        logs = gam.logs_.get('c05capture', [])
        starts = [r for r in logs if r['at'] == 'start']
        ends = [r for r in logs if r['at'] == 'end']
        K = len(ends)
        converged = K > 0 and len(starts) == K and gam.logs_['diffs'][-1] < gam.tol
        res.count('fit:%s:%s' % (tag, 'converged' if converged else 'not-converged'))
        rec = dict(spec=spec, iterations=K, converged=bool(converged), constraint_l2_final=float(gam._constraint_l2),
                   constraint_l2_escalated=bool(gam._constraint_l2 != l2_start))
        if gam._constraint_l2 != l2_start:
            res.count('fit:constraint_l2-escalated-by-_cholesky(known quirk S14, not alarmed)')
        terms = list(gam.terms._terms)
        if float(gam._constraint_lam) != CLAM:
            res.violations.append(dict(what='the soft-constraint strength GAM._constraint_lam is not the documented 1e9', finding=None,
                                       input=spec, observed=float(gam._constraint_lam), expected=CLAM))
        if not gam.terms.hasconstraint or not starts:
            res.violations.append(dict(what='constrained model: hasconstraint is False or C was never built in _pirls', finding=None,
                                       input=spec, observed='no captured C', expected='C rebuilt every iteration'))
            continue
        # --- (b1) captured C at iteration k == model C(coefficients entering iteration k) [first 2 and last 2 iterations]
        l2_used = [l2_start] + [s_['l2_after'] for s_ in starts[:-1]]
        for k in sorted(set([0, 1, K - 2, K - 1]) & set(range(K))):
            cin = starts[k]['coef_in']
            if k > 0 and not np.array_equal(cin, ends[k - 1]['coef_new']):
                res.violations.append(dict(what='coefficients entering iteration %d differ from coef_new of iteration %d' % (k, k - 1),
                                           finding=None, input=spec, observed='gam.coef_ != previous coef_new', expected='equal'))
            if ambiguous_for_terms(terms, cin):
                res.count('fit:iteration-skipped-rounding-ambiguous-second-difference')
                continue
            cases.append('(KTerms %s %s %s %s %s true %s)' % (
                coq_list([term_coq(t) for t in terms]), vec_coq(cin), dylit(gam._constraint_lam), dylit(l2_used[k]),
                qlit(TOL_REL), mat_coq(starts[k]['C'])))
            meta.append(dict(target='captured C in _pirls', spec=spec, iteration=k, of=K, constraint_l2_used=l2_used[k]))
        if not converged:
            res.case(('fit', repr(spec)), nontrivial=False)
            continue
        # --- (b2) the proved step bound on the last iteration, in exact rational arithmetic
        st, en = starts[-1], ends[-1]
        bn, bi = en['coef_new'], st['coef_in']
        fb = fr_vec(bn)
        c = frac_of_float(CLAM)                                  # the property's constant, not whatever the object carries
        WBb = fr_matvec(en['WB'], fb)
        fit_resid = fr_dot(WBb, [p - q for p, q in zip(fr_vec(en['pd']), WBb)])      # <W B bn, W z - W B bn>
        quadSP = fr_dot(fb, fr_matvec(st['S'] + st['P'], fb))
        quadC = fr_dot(fb, fr_matvec(st['C'], fb))
        esc = frac_of_float(st['l2_after']) - frac_of_float(l2_used[-1])              # ridge added by _cholesky's escalation
        quadEsc = esc * fr_dot(fb, fb)
        V = Fraction(0)
        nviol = 0
        for ti, mi, cname, lm, lv in constraint_lines(terms, bi, bn):
            s_, k_ = viol_sq_sum(lm, lv, cname)
            V += c * s_
            nviol += k_
        absb = [abs(x) for x in fb]
        scale = fr_dot([abs(x) for x in WBb], [abs(p) + abs(q) for p, q in zip(fr_vec(en['pd']), WBb)]) + \
            fr_dot(absb, fr_matvec(np.abs(st['S'] + st['P'] + st['C']), absb)) + abs(quadEsc)
        ident = fit_resid - quadSP - quadC - quadEsc          # = 0 for an exact solve (step_identity)
        ratio = float(abs(ident) / scale) if scale else 0.0
        ratios.append(ratio)
        solver_tol = Fraction(1, 10 ** 7) * scale              # backward-error allowance of the float SVD solve
        bound_rhs = fit_resid - quadSP - quadEsc
        ok_lower = V <= quadC + TOL_REL * scale               # term_quad_lower / tensor analogue: the ridge only adds
        ok_bound = V <= bound_rhs + solver_tol and quadSP >= 0 and bound_rhs <= abs(fit_resid) + solver_tol
        rec.update(V=float(V), quadC=float(quadC), fit_resid=float(fit_resid), quadSP=float(quadSP), quadEsc=float(quadEsc),
                   identity_residual_over_scale=ratio, violating_positions=nviol)
        if not (ok_lower and ok_bound):
            res.violations.append(dict(what='converged constrained fit violates the proved soft-constraint bound '
                                            'c*sum_viol(delta beta)^2 <= <B beta, W^2(z - B beta)> - beta\'(S+P)beta (C05_step_bound)',
                                       finding=None, input=spec, observed=dict(V=float(V), quadC=float(quadC), rhs=float(bound_rhs),
                                                                               identity_residual_over_scale=ratio),
                                       expected='V <= quadC and V <= rhs + 1e-7*scale'))
        # --- (b3) function shape on grids, tolerance derived from the bound
        rb = max(bound_rhs + solver_tol, Fraction(0))
        vb1 = math.sqrt(float(rb / c))                         # every violating |difference of coef_new| at a position masked in coef_in
        dmax = float(np.abs(bn - bi).max())
        shape_bad = check_function_shape(res, gam, spec, X, terms, vb1, dmax)
        rec['shape_violations'] = shape_bad
        res.extra.setdefault('fits', []).append(rec) if len(res.extra.get('fits', [])) < 400 else None
        res.case(('fit', repr(spec)), sample=dict(fit=spec, iterations=K, V=float(V), bound=float(bound_rhs)) if idx in (0, 7) else None,
                 nontrivial=nviol > 0 or V == 0)
        res.count('fit:violating-positions-at-convergence:%s' % ('some' if nviol else 'none'))
    res.extra['identity_residual_over_scale_max'] = max(ratios) if ratios else None
    return cases, meta


def s16_witness(res):
    """deterministic witness of candidate finding S16: a monotonic_inc marginal of a tensor term whose converged fit has
    increasing coefficients along that axis (to 1e-8) but whose fitted surface DEcreases in that variable once the OTHER
    variable is extrapolated beyond its knot range (linearly continued basis functions become negative)."""
    import contextlib
    import io
    from pygam import LinearGAM, s, te
    g = np.linspace(-1, 1, 15)
    X = np.array([(a, b) for a in g for b in g])
    y = np.where(X[:, 1] > 0.3, 3 * X[:, 0], 0.0)
    with contextlib.redirect_stdout(io.StringIO()):
        gam = LinearGAM(te(s(0, n_splines=6, constraints='monotonic_inc'), s(1, n_splines=6), lam=0.01)).fit(X, y)
    conv = gam.logs_['diffs'][-1] < gam.tol
    coef = gam.coef_[:-1].reshape(6, 6)
    cmin = float(np.diff(coef, axis=0).min())
    f = np.asarray(gam.partial_dependence(term=0, X=np.column_stack([g, np.full(15, -2.0)]))).ravel()
    drop = float(f[0] - f[-1])
    res.extra['S16_witness'] = dict(converged=bool(conv), min_coef_difference_along_axis0=cmin, f_at_x1_minus2=[round(float(x), 4) for x in f])
    if conv and cmin > -1e-6 and drop > 1e-3:
        res.violations.append(dict(what='tensor marginal constraint not honoured beyond the domain of the other marginal', finding=S16,
                                   input=dict(witness='s16_witness: 15x15 grid on [-1,1]^2, y = 3*x0 if x1 > 0.3 else 0, '
                                                      "LinearGAM(te(s(0,6,monotonic_inc), s(1,6), lam=0.01))"),
                                   observed=dict(f_x0_minus1_minus_f_x0_plus1_at_x1_minus2=drop, min_coef_difference=cmin),
                                   expected='f(., x1=-2) non-decreasing'))
    res.case(('S16-witness',))


def check_function_shape(res, gam, spec, X, terms, vb1, dmax):
    """the fitted partial function of every constrained term on a fine uniform grid inside the knot range and (spline order >= 1)
    on a grid extending 50% beyond it on both sides.  Tolerance: a violating d-th coefficient difference is at most
    v = sqrt(bound/c) + 2^d*|coef_new - coef_in|_inf, and a B-spline with d-th coefficient differences >= -v on knots of spacing h has
    d-th grid differences >= -d*v*max(1, delta/h)^d for grid spacing delta; plus 1e-9*(1+max|f|) for float evaluation."""
    bad = 0
    G = 240
    for ti, t in enumerate(terms):
        if t.isintercept or not t.hasconstraint:
            continue
        margins = list(t._terms) if t.istensor else [t]
        feats = [m.feature for m in margins]
        ek = [np.asarray(m.edge_knots_, dtype=float) for m in margins]
        regions = ['inside', 'extrapolated'] + (['other-extrapolated'] if t.istensor else [])
        for region in regions:
            for ax, m in enumerate(margins):
                for cname in cons_of(m):
                    if cname not in SHAPES or m.spline_order < 1:
                        continue
                    d = ORDER[cname]
                    lo, hi = ek[ax]
                    span = hi - lo
                    if region == 'extrapolated':
                        lo, hi = lo - 0.5 * span, hi + 0.5 * span
                    grid = np.linspace(lo, hi, G)
                    h = span / max(int(m.n_coefs) - int(m.spline_order), 1)
                    delta = (hi - lo) / (G - 1)
                    v = vb1 + (2 ** d) * dmax
                    # other marginals (tensor): fixed positions inside their own knot range, or (region other-extrapolated) beyond it
                    others = []
                    for j in range(len(margins)):
                        if j != ax:
                            a_, b_ = ek[j]
                            if region == 'other-extrapolated':
                                others.append(np.array([a_ - (b_ - a_), a_ - 0.5 * (b_ - a_), b_ + 0.5 * (b_ - a_), b_ + (b_ - a_)]))
                            else:
                                others.append(np.linspace(a_, b_, 7))
                    fixed_list = [()] if not others else [(o,) for o in others[0]]
                    for fixed in fixed_list:
                        XX = np.zeros((G, X.shape[1]))
                        XX[:, feats[ax]] = grid
                        oi = 0
                        for j in range(len(margins)):
                            if j != ax:
                                XX[:, feats[j]] = fixed[oi]
                                oi += 1
                        f = np.asarray(gam.partial_dependence(term=ti, X=XX)).ravel()
                        tol = d * v * max(1.0, delta / h) ** d + 1e-9 * (1 + float(np.abs(f).max()))
                        if region == 'other-extrapolated':   # linearly continued basis functions can be as large as 1 + distance/h
                            tol *= 1 + 2 * int(margins[1 - ax].n_coefs) if len(margins) == 2 else 50
                        ok, worst = shape_ok(f, cname, tol)
                        res.count('shape:%s:%s' % (region, 'ok' if ok else 'VIOLATED'))
                        if not ok:
                            bad += 1
                            res.violations.append(dict(
                                what='fitted function of a %s-constrained %s is not %s on the %s grid beyond the tolerance derived from '
                                     'the proved bound' % (cname, 'tensor marginal' if t.istensor else 'spline term', cname, region),
                                finding=S16 if (t.istensor and region == 'other-extrapolated') else None,
                                input=dict(spec=spec, term=ti, marginal=ax, region=region, fixed_other=[float(x) for x in fixed]),
                                observed=dict(worst_difference=worst), expected=dict(tolerance=tol)))
    return bad
