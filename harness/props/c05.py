"""C05 -- shape constraints are honoured by every converged fit.

(a) exact comparison of the constraint matrices built by pygam (penalties.monotonic_inc/dec, convex, concave, none,
    Term / TensorTerm / TermList.build_constraints, TensorTerm._iterate_marginal_coef_slices) with the Coq model
    coq/Model/Constraints.v evaluated by vm_compute on exact rationals;
(b) converged constrained fits: a user CallBack captures C and the coefficients at every PIRLS iteration; captured C ==
    model C(beta entering the iteration); the proved violation bound (Props/C05.v C05_step_bound / C05_violation_bound)
    evaluated in exact rational arithmetic on the captured quantities; function shape on in-range and extrapolation grids;
(c) the matrix-level statements of the property evaluated directly on the implementation (independent of the Coq model).
"""
import math
import os
from fractions import Fraction

import numpy as np
import scipy.sparse

import common
from common import zlit, dylit, coq_list, qlit, frac_of_float
import gen_terms

PROP = 'C05'
PROPS_FILE = 'Props/C05.v'

HEADER = """From Coq Require Import List ZArith QArith Bool.
From PG Require Import Base.Ops Base.Vec Model.Constraints Model.C05Check.
Import ListNotations.
Open Scope Q_scope.
"""

CON_COQ = {None: 'CPyNone', 'none': 'CStrNone', 'monotonic_inc': 'CMonoInc', 'monotonic_dec': 'CMonoDec',
           'convex': 'CConvex', 'concave': 'CConcave'}
SHAPES = ['monotonic_inc', 'monotonic_dec', 'convex', 'concave']
ORDER = {'monotonic_inc': 1, 'monotonic_dec': 1, 'convex': 2, 'concave': 2}
NEG = {'monotonic_inc': True, 'monotonic_dec': False, 'convex': True, 'concave': False}   # True: negative differences violate
CLAM = 1e9
TOL_REL = Fraction(1, 10 ** 12)


# ----------------------------------------------------------------------------- helpers
def dense(M):
    if scipy.sparse.issparse(M):
        M = M.toarray()
    return np.atleast_2d(np.asarray(M, dtype=float))


def mat_coq(M):
    return coq_list([coq_list([dylit(x) for x in row]) for row in dense(M)])


def vec_coq(v):
    return coq_list([dylit(x) for x in np.asarray(v, dtype=float).ravel()])


def nat_list(l):
    return coq_list(['%d%%nat' % int(x) for x in l])


def cons_of(t):
    cs = t.constraints
    if isinstance(cs, (str, type(None))):
        cs = [cs]
    out = []
    for c in cs:
        if callable(c):
            raise ValueError('callable constraint not supported by the model')
        out.append(c)
    return out


def margin_coq(t):
    return '(mk_cmargin %d%%nat %s)' % (int(t.n_coefs), coq_list([CON_COQ[c] for c in cons_of(t)]))


def term_coq(t):
    if t.isintercept:
        return 'CTIntercept'
    if t.istensor:
        return '(CTTensor %s)' % coq_list([margin_coq(m) for m in t._terms])
    return '(CTSimple %s)' % margin_coq(t)


def exact_diffs(coef, d):
    v = [frac_of_float(x) for x in np.asarray(coef, dtype=float).ravel()]
    for _ in range(d):
        v = [b - a for a, b in zip(v[:-1], v[1:])]
    return v


def rounding_ambiguous(coef, d):
    """True when the SIGN of some float d-th difference (what the code's mask looks at) differs from the sign of the
    exact difference of the same binary64 coefficients: the real-number model and the float code may then legitimately
    disagree on a mask bit; such cases are counted and left out of the exact comparison (never alarm on rounding)."""
    coef = np.asarray(coef, dtype=float).ravel()
    if len(coef) <= d:
        return False
    fl = np.diff(coef, n=d)
    ex = exact_diffs(coef, d)
    for a, b in zip(fl, ex):
        if (a > 0) != (b > 0) or (a < 0) != (b < 0):
            return True
    return False


def ambiguous_for_terms(terms, coefs):
    """rounding ambiguity of any second-difference mask used by the term list (first differences are sign-exact)"""
    pos = 0
    for t in terms:
        n = int(t.n_coefs)
        block = np.asarray(coefs[pos:pos + n], dtype=float)
        pos += n
        if t.isintercept:
            continue
        if t.istensor:
            dims = [int(m.n_coefs) for m in t._terms]
            ten = block.reshape(dims)
            for i, m in enumerate(t._terms):
                if any(c in ('convex', 'concave') for c in cons_of(m)):
                    lines = np.moveaxis(ten, i, -1).reshape(-1, dims[i])
                    if any(rounding_ambiguous(l, 2) for l in lines):
                        return True
        elif any(c in ('convex', 'concave') for c in cons_of(t)):
            if rounding_ambiguous(block, 2):
                return True
    return False


# ----------------------------------------------------------------------------- coefficient vectors with planted patterns
def planted_coef(rng, n, kind, shape=None):
    """coefficient vectors whose first/second differences have planted sign patterns, including exact ties"""
    if kind == 'int':           # small integers: many ties, exact in binary64
        return np.array([rng.randint(-4, 4) for _ in range(n)], dtype=float)
    if kind == 'const':
        return np.full(n, float(rng.randint(-3, 3)))
    if kind == 'satisfied':     # satisfies `shape` (weakly: ties planted), integer valued
        d = ORDER.get(shape, 1)
        sgn = 1.0 if NEG.get(shape, True) else -1.0
        inc = [sgn * rng.choice([0, 0, 1, 2, 3]) for _ in range(max(n - d, 0))]
        v = list(inc)
        for _ in range(d):
            v = list(np.cumsum([float(rng.randint(-3, 3))] + v))
        return np.array(v[:n] if len(v) >= n else (v + [0.0] * n)[:n], dtype=float)
    if kind == 'one_violation':  # satisfied, then one planted violation
        b = planted_coef(rng, n, 'satisfied', shape)
        if n >= 2:
            j = rng.randrange(n)
            b[j] += rng.choice([-7.0, 7.0, -0.5, 0.5])
        return b
    if kind == 'dyadic':        # multiples of 2^-10: all differences exact in binary64
        return np.array([rng.randint(-4096, 4096) / 1024.0 for _ in range(n)], dtype=float)
    if kind == 'float':         # arbitrary binary64 values over several magnitudes
        sc = 10 ** rng.uniform(-3, 3)
        return np.array([rng.gauss(0, 1) * sc for _ in range(n)], dtype=float)
    if kind == 'float_near_tie':  # a smooth sequence with nearly equal differences (second differences ~ rounding)
        a, b0 = rng.uniform(-2, 2), rng.uniform(-1, 1)
        return np.array([a + b0 * j * 0.1 for j in range(n)], dtype=float)
    raise ValueError(kind)


COEF_KINDS = ['int', 'const', 'satisfied', 'one_violation', 'dyadic', 'float', 'float_near_tie']


# ----------------------------------------------------------------------------- (c) direct probes
def fr_quad(M, b):
    """exact beta' M beta over the rationals (M, b binary64)"""
    M = dense(M)
    fb = [frac_of_float(x) for x in b]
    tot = Fraction(0)
    for i, row in enumerate(M):
        if fb[i] == 0:
            continue
        s = Fraction(0)
        for j, x in enumerate(row):
            if x != 0.0 and fb[j] != 0:
                s += frac_of_float(x) * fb[j]
        tot += fb[i] * s
    return tot


def viol_sq_sum(beta_mask, beta_val, shape):
    """sum over positions where the float differences of beta_mask violate `shape` of the squared exact differences
    of beta_val (exact rational); mask taken exactly as the code does (np.diff on floats, strict inequality)"""
    d = ORDER[shape]
    bm = np.asarray(beta_mask, dtype=float).ravel()
    if len(bm) <= d or len(bm) == 1:
        return Fraction(0), 0
    fl = np.diff(bm, n=d)
    mask = (fl < 0) if NEG[shape] else (fl > 0)
    ex = exact_diffs(beta_val, d)
    return sum((e * e for e, m in zip(ex, mask) if m), Fraction(0)), int(mask.sum())


def satisfied_exact(beta, shape):
    d = ORDER[shape]
    b = np.asarray(beta, dtype=float).ravel()
    if len(b) <= d:
        return True
    fl = np.diff(b, n=d)
    return bool((fl >= 0).all()) if NEG[shape] else bool((fl <= 0).all())


def direct_probe(res, rng, tier):
    from pygam import penalties as P
    from pygam.terms import SplineTerm
    nmax = 25 if tier == 'quick' else 60
    fns = {'monotonic_inc': P.monotonic_inc, 'monotonic_dec': P.monotonic_dec, 'convex': P.convex, 'concave': P.concave}
    for n in range(1, nmax + 1):
        for shape in SHAPES:
            for kind in ('int', 'satisfied', 'one_violation', 'const'):
                b = planted_coef(rng, n, kind, shape)
                key = ('probe', n, shape, kind)
                try:
                    M = fns[shape](n, b).toarray()
                except Exception as e:
                    res.violations.append(dict(what='constraint construction raised', finding=None,
                                               input=dict(fn=shape, n=n, coef=b.tolist()),
                                               observed='%s: %s' % (type(e).__name__, e), expected='an n x n matrix'))
                    res.case(key)
                    continue
                want, nviol = viol_sq_sum(b, b, shape)
                got = fr_quad(M, b)
                v = np.array([rng.randint(-5, 5) for _ in range(n)], dtype=float)
                want_v, _ = viol_sq_sum(b, v, shape)
                got_v = fr_quad(M, v)
                sat = satisfied_exact(b, shape)
                bad = []
                if M.shape != (n, n):
                    bad.append('shape %s' % (M.shape,))
                if not (M == M.T).all():
                    bad.append('asymmetric')
                if got != want:
                    bad.append('quad(C(beta)) beta = %s, sum of squared violating differences = %s' % (got, want))
                if got_v != want_v or got_v < 0:
                    bad.append('quad(C(beta)) v = %s, expected %s (>= 0)' % (got_v, want_v))
                if (got == 0) != sat:
                    bad.append('quad zero = %s but constraint satisfied = %s' % (got == 0, sat))
                if sat and np.count_nonzero(M):
                    bad.append('non-zero matrix for coefficients that satisfy the constraint (ties must not be penalised)')
                if bad:
                    res.violations.append(dict(what='matrix-level statement of C05 fails for penalties.%s: %s' % (shape, '; '.join(bad)),
                                               finding=None, input=dict(fn=shape, n=n, coef=b.tolist(), v=v.tolist()),
                                               observed=dict(quad=str(got), quad_v=str(got_v)),
                                               expected=dict(quad=str(want), quad_v=str(want_v))))
                res.case(key, nontrivial=(n > ORDER[shape]),
                         sample=dict(probe='quadform', fn=shape, n=n, coef=b.tolist()) if (n, kind) == (6, 'one_violation') and shape == 'convex' else None)
                res.count('probe:%s:%s' % (shape, 'violating' if nviol else 'satisfied'))
        # Term.build_constraints: sum * 1e9 + ridge iff any violation
        for _ in range(2):
            k = rng.choice([1, 2, 2, 3])
            cons = [rng.choice(SHAPES + [None, 'none']) for _ in range(k)]
            b = planted_coef(rng, n, rng.choice(['int', 'dyadic', 'satisfied', 'one_violation']), rng.choice(SHAPES))
            t = SplineTerm(0, n_splines=max(n, 1), spline_order=0, constraints=cons)
            l2 = rng.choice([1e-3, 1e-2, 0.0, 0.5])
            M = dense(t.build_constraints(b, CLAM, l2))
            tot = Fraction(0)
            nv = 0
            for c in cons:
                if c in SHAPES:
                    s_, k_ = viol_sq_sum(b, b, c)
                    tot += s_
                    nv += k_
            want = frac_of_float(CLAM) * tot + (frac_of_float(l2) * sum((frac_of_float(x) ** 2 for x in b), Fraction(0)) if nv else 0)
            got = fr_quad(M, b)
            ok = abs(got - want) <= TOL_REL * (1 + abs(want)) and (M == M.T).all() and (nv > 0 or not np.count_nonzero(M))
            if not ok:
                res.violations.append(dict(what='Term.build_constraints quadratic form differs from 1e9 * sum of squared violating '
                                                'differences + l2 * |beta|^2 [iff some violation]', finding=None,
                                           input=dict(n=n, constraints=cons, coef=b.tolist(), constraint_lam=CLAM, constraint_l2=l2),
                                           observed=str(got), expected=str(want)))
            res.case(('probe-term', n, tuple(map(str, cons)), tuple(b.tolist()), l2))
    # tensor: quadratic form = sum over marginals, over the axis-i lines of the C-order coefficient tensor
    from pygam.terms import TensorTerm
    reps = 40 if tier == 'quick' else 300
    for r in range(reps):
        k = rng.choice([2, 2, 3])
        dims = [rng.randint(1, 5) for _ in range(k)]
        cons = [[rng.choice(SHAPES + [None, None])] for _ in range(k)]
        te = TensorTerm(*[SplineTerm(j, n_splines=dims[j], spline_order=0, constraints=cons[j]) for j in range(k)])
        N = int(np.prod(dims))
        b = np.array([rng.randint(-3, 3) for _ in range(N)], dtype=float)
        l2 = rng.choice([1e-3, 0.0, 0.25])
        try:
            M = dense(te.build_constraints(b, CLAM, l2))
        except Exception as e:
            res.violations.append(dict(what='TensorTerm.build_constraints raised', finding=None,
                                       input=dict(dims=dims, constraints=cons, coef=b.tolist()),
                                       observed='%s: %s' % (type(e).__name__, e), expected='matrix'))
            continue
        ten = b.reshape(dims)
        want = Fraction(0)
        for i in range(k):
            lines = np.moveaxis(ten, i, -1).reshape(-1, dims[i])
            for ln in lines:
                for c in cons[i]:
                    if c in SHAPES:
                        s_, nv = viol_sq_sum(ln, ln, c)
                        want += frac_of_float(CLAM) * s_
                        if nv:
                            want += frac_of_float(l2) * sum((frac_of_float(x) ** 2 for x in ln), Fraction(0))
        got = fr_quad(M, b)
        if abs(got - want) > TOL_REL * (1 + abs(want)) or not (M == M.T).all():
            res.violations.append(dict(what='TensorTerm.build_constraints quadratic form differs from the sum over marginals of the '
                                            'line-wise constraint forms along that marginal\'s axis', finding=None,
                                       input=dict(dims=dims, constraints=cons, coef=b.tolist(), constraint_l2=l2),
                                       observed=str(got), expected=str(want)))
        res.case(('probe-tensor', tuple(dims), repr(cons), tuple(b.tolist())), nontrivial=any(c[0] for c in cons))
        res.count('probe:tensor')


# ----------------------------------------------------------------------------- (a) model correspondence cases
def fn_cases(res, rng, tier):
    from pygam import penalties as P
    fns = {'monotonic_inc': P.monotonic_inc, 'monotonic_dec': P.monotonic_dec, 'convex': P.convex, 'concave': P.concave,
           'none': P.none}
    nmax = 25 if tier == 'quick' else 45
    reps = 1 if tier == 'quick' else 3
    cases, meta = [], []
    for n in range(1, nmax + 1):
        for name, fn in fns.items():
            for kind in COEF_KINDS:
                for _ in range(reps):
                    b = planted_coef(rng, n, kind, name if name in SHAPES else 'monotonic_inc')
                    m = dict(fn=name, n=n, coef=b.tolist(), kind=kind)
                    if name in SHAPES and ORDER[name] == 2 and rounding_ambiguous(b, 2):
                        res.count('fn:skipped-rounding-ambiguous-second-difference')
                        continue
                    try:
                        M = fn(n, b)
                    except Exception as e:
                        res.violations.append(dict(what='constraint construction raised', finding=None, input=m,
                                                   observed='%s: %s' % (type(e).__name__, e), expected='an n x n matrix'))
                        continue
                    cases.append('(KFn %s %d%%nat %s %s)' % (CON_COQ[name], n, vec_coq(b), mat_coq(M)))
                    meta.append(m)
                    res.count('fn:%s:%s' % (name, kind))
        # dimension mismatch must raise ValueError (the model's _chk variants return None)
        for name in SHAPES:
            b = planted_coef(rng, n + rng.choice([1, 2]), 'int')
            try:
                fns[name](n, b)
                raised = False
            except ValueError:
                raised = True
            m = dict(fn=name, n=n, coef=b.tolist(), kind='length-mismatch')
            if raised:
                cases.append('(KFnRaises %s %d%%nat %s)' % (CON_COQ[name], n, vec_coq(b)))
            else:
                cases.append('(KFn %s %d%%nat %s [])' % (CON_COQ[name], n, vec_coq(b)))
            meta.append(m)
            res.count('fn:length-mismatch')
    return cases, meta


def force_constraints(rng, specs, p=0.8):
    """make most spline terms / spline marginals carry shape constraints"""
    def one(s):
        if s['kind'] == 's' and rng.random() < p:
            s['constraints'] = [rng.choice(SHAPES + SHAPES + [None, 'none']) for _ in range(rng.choice([1, 1, 2, 3]))]
    for s in specs:
        one(s)
        if s['kind'] == 'te':
            for m in s['margins']:
                one(m)
    return specs


def term_cases(res, rng, tier):
    count = 90 if tier == 'quick' else 900
    cases, meta = [], []
    for i in range(count):
        nf = rng.randint(1, 4)
        factor_feats = tuple(j for j in range(nf) if rng.random() < 0.2)
        specs = gen_terms.gen_termlist(rng, nf, factor_feats, dyadic=True, max_terms=3, max_n=9, allow_constraints=True)
        specs = force_constraints(rng, specs)
        try:
            tl = gen_terms.build_termlist(specs)
            X = gen_terms.gen_X(rng, 12, nf, factor_feats)
            tl.compile(X)
        except Exception as e:
            res.count('term_cases_build_error:%s' % type(e).__name__)
            continue
        N = int(tl.n_coefs)
        if N > 90:
            continue
        kind = rng.choice(['int', 'int', 'dyadic', 'float', 'one_violation', 'satisfied'])
        coefs = planted_coef(rng, N, kind, rng.choice(SHAPES))
        clam = rng.choice([1e9, 1e9, 1.0, 3.0, 2.0 ** 20])
        l2 = rng.choice([1e-3, 1e-3, 1e-2, 0.0, 0.5])
        m = dict(specs=specs, coef=coefs.tolist(), constraint_lam=clam, constraint_l2=l2, n_coefs=N, coef_kind=kind)
        if ambiguous_for_terms(tl._terms, coefs):
            res.count('terms:skipped-rounding-ambiguous-second-difference')
            continue
        # whole term list
        targets = [('TermList', tl, list(tl._terms), coefs)]
        # each term alone (Term.build_constraints / TensorTerm.build_constraints)
        pos = 0
        for t in tl._terms:
            n = int(t.n_coefs)
            if not t.isintercept:
                targets.append(('TensorTerm' if t.istensor else 'Term', t, [t], coefs[pos:pos + n]))
            pos += n
        for what, obj, terms, cf in targets:
            try:
                M = obj.build_constraints(np.asarray(cf), clam, l2)
                hascon = bool(obj.hasconstraint)
            except Exception as e:
                res.violations.append(dict(what='%s.build_constraints raised on a valid term list' % what, finding=None, input=m,
                                           observed='%s: %s' % (type(e).__name__, e), expected='constraint matrix'))
                continue
            cases.append('(KTerms %s %s %s %s %s %s %s)' % (
                coq_list([term_coq(t) for t in terms]), vec_coq(cf), dylit(clam), dylit(l2), qlit(TOL_REL),
                common.coq_bool(hascon), mat_coq(M)))
            mm = dict(m)
            mm['target'] = what
            mm['term_index'] = None if what == 'TermList' else [id(x) for x in tl._terms].index(id(obj))
            meta.append(mm)
            res.count('terms:%s' % what)
        # the slice iterator of every tensor term
        for t in tl._terms:
            if t.istensor:
                dims = [int(x.n_coefs) for x in t._terms]
                for ax in range(len(dims)):
                    sl = [list(map(int, s_)) for s_ in t._iterate_marginal_coef_slices(ax)]
                    cases.append('(KFibres %s %d%%nat %s)' % (nat_list(dims), ax, coq_list([nat_list(s_) for s_ in sl])))
                    meta.append(dict(target='fibres', dims=dims, axis=ax))
                    res.count('terms:fibres')
    return cases, meta


# ----------------------------------------------------------------------------- run
def run(res):
    rng = common.rng_for(res.seed, PROP)
    res.rule = ('(a) every constraint function (monotonic_inc/dec, convex, concave, none) at every size n<=N on coefficient '
                'vectors with planted patterns (small integers with ties, constants, weakly satisfying sequences, one planted '
                'violation, dyadic and arbitrary binary64 values, near-tie arithmetic progressions) compared entry by entry, exactly, '
                'with the Coq model under vm_compute; seeded term lists (spline/linear/factor/tensor, 1-3 constraints per term or '
                'marginal incl. None and "none") whose Term/TensorTerm/TermList.build_constraints matrices and slice iterators are '
                'compared with the model in exact rationals (1e-12 relative: entries are k*constraint_lam + constraint_l2 rounded '
                'once); (b) converged constrained fits with a capturing CallBack; (c) the property statements evaluated directly on '
                'the implementation.  A case is distinct by its full input; non-trivial when n exceeds the difference order.')
    common.standard_prove(res, PROPS_FILE)
    direct_probe(res, rng, res.tier)
    c1, m1 = fn_cases(res, rng, res.tier)
    c2, m2 = term_cases(res, rng, res.tier)
    cases, meta = c1 + c2, m1 + m2
    with common.CaseDir(PROP) as cd:
        failing, errors = common.run_bool_cases(cd, HEADER, cases, 'check_case', shard=100)
    for name, out in errors:
        res.obligation('correspondence-file:' + name, False, detail=out, kind='correspondence')
    res.obligation('correspondence:C05 constraint matrices and tensor slices (model = implementation)',
                   not failing and not errors, detail='failing case indices %s' % failing[:20], kind='correspondence')
    for i, m in enumerate(meta):
        res.case(repr(m), sample=m if i in (40, len(c1) + 2) else None,
                 nontrivial=not (m.get('fn') and m.get('n', 9) <= ORDER.get(m.get('fn'), 0)))
    for i in failing:
        res.violations.append(dict(what='constraint matrix / slice iterator differs from the model (coq/Model/Constraints.v)',
                                   finding=None, input=meta[i], observed='implementation != model',
                                   expected='see coq/Model/Constraints.v'))
    res.extra['correspondence_cases'] = len(cases)
    res.extra['tolerances'] = {'penalties.<constraint>(n, coef)': 'exact', 'build_constraints': '1e-12 relative per entry (exact rationals)'}


def replay(res, rp):
    run(res)
