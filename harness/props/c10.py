"""C10 -- gridsearch evaluates exactly the requested candidates and keeps the minimiser."""
import contextlib
import io
import itertools
import os
import sys
from copy import deepcopy

import numpy as np

import common
from common import coq_list, coq_bool, qlit, frac_of_float

PROP = 'C10'
PROPS_FILE = 'Props/C10.v'
SCORE_RTOL = 1e-5      # candidate score vs independent cold-started fit; fits use tol=1e-8 (warm starts differ at that level)

HEADER = """From Coq Require Import List String Bool Arith QArith.
From PG Require Import Model.Grid Gen.C10Skeleton Model.C10Check.
Import ListNotations.
Open Scope nat_scope.
Open Scope list_scope.
Definition length {A} (l : list A) : nat := List.length l.   (* String.length shadows List.length otherwise *)
Definition combine {A B} (l : list A) (m : list B) : list (A * B) := List.combine l m.   (* Model.Grid.combine shadows it *)
"""

LAMS = [0.125, 0.5, 1.0, 2.0, 8.0, 32.0, 0.3, 10.0]
MODELS = ['LinearGAM', 'LinearGAM-known', 'PoissonGAM', 'PoissonGAM-exposure', 'LogisticGAM', 'GammaGAM']
F_POISSON = 'C10-poissongam-gridsearch-weights-as-exposure'
F_SKIP = 'C10-joint-grid-skips-valid-candidates'
F_WARM = 'C10-warm-start-from-other-basis-diverges'
OBJECTIVES = ['auto', 'auto', 'auto', 'GCV', 'UBRE', 'AIC', 'AICc']


def prove(res):
    with common.Lock():
        common._LOCK_HELD[0] = True
        try:
            sys.path.insert(0, os.path.join(common.VERIF, 'translator'))
            import skel_c10
            try:
                skel_c10.generate(common.REPO, common.COQ)
                res.obligation('translate:Gen/C10Skeleton.v', True, kind='translation')
            except Exception as e:  # fail closed
                res.obligation('translate:Gen/C10Skeleton.v', False, detail='%s: %s' % (type(e).__name__, e), kind='translation')
            common._standard_prove(res, PROPS_FILE)
            ok, out = common.make(['Model/C10Check.vo'])
            res.obligation('build:Model/C10Check.vo', ok, detail=out[-1500:], kind='correspondence')
        finally:
            common._LOCK_HELD[0] = False


# ----------------------------------------------------------------------------------------- configurations
def gen_grid(rng, name, nterms, budget):
    """returns dict(enc=..., py=<python-literal description>, and the independent enumeration `values`)"""
    def val():
        if name == 'lam':
            return rng.choice(LAMS)
        if name == 'n_splines':
            return rng.randint(3, 8)
        return rng.randint(1, 3)          # spline_order
    ndistinct = {'lam': len(LAMS), 'n_splines': 6, 'spline_order': 3}[name]
    encs = ['1d', '1d', '2d'] + (['lists', 'lists'] if nterms >= 2 else [])
    enc = rng.choice(encs)
    if enc == '1d':
        k = rng.randint(2, min(4, max(2, budget), ndistinct))
        xs = []
        while len(xs) < k:
            v = val()
            if v not in xs:
                xs.append(v)
        return dict(enc='1d', as_array=rng.random() < 0.5, xs=xs)
    if enc == '2d':
        k = rng.randint(2, min(3, max(2, budget)))
        return dict(enc='2d', rows=[[val() for _ in range(nterms)] for _ in range(k)])
    subs = []
    for _ in range(nterms):
        k = rng.choice([1, 2, 2]) if budget >= 4 else rng.choice([1, 1, 2])
        xs = []
        while len(xs) < k:
            v = val()
            if v not in xs:
                xs.append(v)
        subs.append(xs)
    if all(len(x) == 1 for x in subs):
        subs[0].append(val() if name != 'lam' else 64.0)
    # one singleton may be passed as a bare scalar (np.atleast_1d lifts it) as long as another element is a list
    bare = [i for i, x in enumerate(subs) if len(x) == 1]
    bare_idx = rng.choice(bare) if (bare and rng.random() < 0.3) else None
    return dict(enc='lists', subs=subs, bare=bare_idx)


def gen_config(rng):
    model = rng.choice(MODELS)
    nterms = rng.choice([1, 2, 2, 3])
    cfg = dict(model=model, nterms=nterms, n=rng.randint(30, 50), data_seed=rng.randrange(2 ** 31),
               base_ns=[rng.randint(5, 7) for _ in range(nterms)],
               objective=rng.choice(OBJECTIVES), fitted=rng.random() < 0.5, keep_best=rng.random() < 0.6,
               return_scores=rng.random() < 0.5, weights=rng.random() < 0.25)
    r = rng.random()
    if r < 0.06:
        names = []                                    # default grid
    elif r < 0.6:
        names = [rng.choice(['lam', 'lam', 'n_splines', 'spline_order'])]
    else:
        names = rng.sample(['lam', 'n_splines', 'spline_order'], rng.choice([2, 2, 3]))
    grids = {}
    budget = 12
    for nm in names:
        g = gen_grid(rng, nm, nterms, budget)
        grids[nm] = g
        budget = max(2, budget // max(1, len(grid_values(g, nterms))))
    cfg['grids'] = grids
    cfg['names'] = names
    # malformed grids: the model and the implementation must both reject
    m = rng.random()
    cfg['malformed'] = None
    if names and m < 0.12:
        nm = names[0]
        kind = rng.choice(['short', 'cols', 'lists-len'])
        if kind == 'short':
            grids[nm] = dict(enc='1d', as_array=rng.random() < 0.5, xs=[1.0 if nm == 'lam' else 5])
        elif kind == 'cols':
            grids[nm] = dict(enc='2d', rows=[[1.0 if nm == 'lam' else 5] * (nterms + 1) for _ in range(2)])
        else:
            grids[nm] = dict(enc='lists', subs=[[1.0, 2.0] if nm == 'lam' else [5, 6]] * (nterms + 1 if nterms > 1 else 2), bare=None)
        cfg['malformed'] = kind
    return cfg


def grid_values(g, nterms):
    """independent enumeration of one parameter's candidate values (scalar = broadcast, tuple = per term)"""
    if g['enc'] == '1d':
        return [('s', v) for v in g['xs']]
    if g['enc'] == '2d':
        return [('v', tuple(r)) for r in g['rows']]
    return [('v', tuple(c)) for c in itertools.product(*g['subs'])]


def grid_python(g):
    if g['enc'] == '1d':
        return np.array(g['xs']) if g['as_array'] else list(g['xs'])
    if g['enc'] == '2d':
        return np.array(g['rows'])
    out = []
    for i, xs in enumerate(g['subs']):
        out.append(xs[0] if g.get('bare') == i else list(xs))
    return out


def grid_coq(g):
    def q(v):
        return qlit(frac_of_float(v))
    if g['enc'] == '1d':
        return '(G1d %s)' % coq_list([q(v) for v in g['xs']])
    if g['enc'] == '2d':
        return '(G2d %s)' % coq_list([coq_list([q(v) for v in r]) for r in g['rows']])
    return '(GLists %s)' % coq_list([coq_list([q(v) for v in xs]) for xs in g['subs']])


def make_data(cfg):
    r = np.random.RandomState(cfg['data_seed'])
    n, k = cfg['n'], cfg['nterms']
    X = r.uniform(-1, 1, (n, k))
    f = np.sin(2 * X[:, 0]) + sum(0.4 * X[:, j] for j in range(1, k))
    m = cfg['model']
    expo = None
    if m.startswith('LinearGAM'):
        y = f + 0.3 * r.randn(n)
    elif m.startswith('PoissonGAM'):
        if m.endswith('exposure'):
            expo = r.randint(1, 5, n).astype(float)
            y = r.poisson(expo * np.exp(f)).astype(float)
        else:
            y = r.poisson(np.exp(f)).astype(float)
    elif m == 'LogisticGAM':
        y = (r.rand(n) < 1 / (1 + np.exp(-2 * f))).astype(float)
    else:
        y = r.gamma(3.0, np.exp(f) / 3.0) + 1e-3
    w = (r.randint(1, 9, n) / 4.0) if cfg.get('weights') else None     # exactly representable in float32
    return X, y, expo, w


def build(cfg, ns=None, so=None, lam=None):
    import pygam
    from pygam import s
    k = cfg['nterms']
    ns = ns or cfg['base_ns']
    so = so or [3] * k
    lam = lam or [0.6] * k
    terms = s(0, n_splines=int(ns[0]), spline_order=int(so[0]), lam=float(lam[0]))
    for j in range(1, k):
        terms = terms + s(j, n_splines=int(ns[j]), spline_order=int(so[j]), lam=float(lam[j]))
    kw = dict(tol=1e-8, max_iter=60)
    m = cfg['model']
    if m == 'LinearGAM-known':
        return pygam.LinearGAM(terms, scale=0.09, **kw)
    return getattr(pygam, m.split('-')[0])(terms, **kw)


def quiet(fn, *a, **k):
    with contextlib.redirect_stdout(io.StringIO()):
        return fn(*a, **k)


def fit(cfg, g, X, y, expo, w=None):
    if expo is not None:
        return quiet(g.fit, X, y, exposure=expo, weights=w)
    return quiet(g.fit, X, y, weights=w)


def search(cfg, g, X, y, expo, w=None, **kw):
    if expo is not None:
        return quiet(g.gridsearch, X, y, exposure=expo, weights=w, progress=False, **kw)
    return quiet(g.gridsearch, X, y, weights=w, progress=False, **kw)


def hyper(g):
    from pygam.utils import flatten
    return dict(lam=[float(v) for v in flatten(g.lam)], n_splines=[int(v) for v in flatten(g.n_splines)],
                spline_order=[int(v) for v in flatten(g.spline_order)])


def same_model(a, b):
    if hasattr(a, 'coef_') != hasattr(b, 'coef_'):
        return False
    if hyper(a) != hyper(b):
        return False
    return (not hasattr(a, 'coef_')) or (np.shape(a.coef_) == np.shape(b.coef_) and np.array_equal(a.coef_, b.coef_))


DIVERGED = 'diverged'


def converged(g):
    """the model's last PIRLS run reached tol (last logged diff < tol)"""
    try:
        d = g.logs_['diffs']
        return len(d) > 0 and float(d[-1]) < float(g.tol)
    except Exception:
        return False


def escore(x):
    x = float(x)
    if x != x:
        return None
    if x == float('inf'):
        return 'Inf'
    return '(Fin %s)' % qlit(frac_of_float(x))


def known_scale(cfg):
    return cfg['model'] in ('LinearGAM-known', 'PoissonGAM', 'PoissonGAM-exposure', 'LogisticGAM')


def resolved_objective(cfg):
    """the documented table, written independently of the model"""
    o = cfg['objective']
    ks = known_scale(cfg)
    if o == 'auto':
        return 'UBRE' if ks else 'GCV'
    if (o == 'GCV' and ks) or (o == 'UBRE' and not ks):
        return None
    return o


# ----------------------------------------------------------------------------------------- one evaluated case
def evaluate(res, cfg):
    inp = {k: v for k, v in cfg.items()}

    def viol(what, expected, observed, finding=None):
        res.violations.append(dict(what=what, input=inp, expected=expected, observed=observed, finding=finding))

    X, y, expo, w = make_data(cfg)
    k = cfg['nterms']
    # PoissonGAM: GAM.gridsearch calls gam.fit(X, y, weights) positionally and PoissonGAM.fit's third parameter is `exposure`
    poisson_defect = cfg['model'].startswith('PoissonGAM') and (expo is not None or w is not None)
    g0 = build(cfg)
    try:
        if cfg['fitted']:
            fit(cfg, g0, X, y, expo, w)
    except Exception as e:
        res.count('setup-error:%s' % type(e).__name__)
        return None
    names = cfg['names']
    eff_names = names or ['lam']
    grids = dict(cfg['grids'])
    if not names:
        grids_eff = {'lam': dict(enc='1d', as_array=True, xs=[float(v) for v in np.logspace(-3, 3, 11)])}
    else:
        grids_eff = grids
    pygrids = {nm: grid_python(grids[nm]) for nm in names}
    want_obj = resolved_objective(cfg)

    # --- the two runs
    twin, actual = deepcopy(g0), deepcopy(g0)
    raised = None
    try:
        r = search(cfg, twin, X, y, expo, w, return_scores=True, keep_best=cfg['keep_best'], objective=cfg['objective'], **deepcopy(pygrids))
        ret = search(cfg, actual, X, y, expo, w, return_scores=cfg['return_scores'], keep_best=cfg['keep_best'],
                     objective=cfg['objective'], **deepcopy(pygrids))
    except ValueError as e:
        raised = e
    except Exception as e:
        res.count('gridsearch-error:%s' % type(e).__name__)
        viol('gridsearch raised %s' % type(e).__name__, 'a result or ValueError', '%s: %s' % (type(e).__name__, e))
        return None

    ps_coq = coq_list(['("%s", %d, %s)' % (nm, k, grid_coq(grids_eff[nm])) for nm in eff_names])
    self_score = 'None'
    if cfg['fitted'] and want_obj is not None:
        es = escore(g0.statistics_[want_obj])
        if es is None:
            res.count('nan-score')
            return None
        self_score = '(Some %s)' % es
    head = '(GCase %s %s "%s" %s %s %s' % (ps_coq, coq_bool(known_scale(cfg)), cfg['objective'], self_score,
                                          coq_bool(cfg['keep_best']), coq_bool(cfg['return_scores']))
    expect_reject = (want_obj is None) or (cfg['malformed'] is not None)
    res.count('model:' + cfg['model'] + ('+weights' if cfg.get('weights') else ''))
    res.count('params:' + ('+'.join(sorted(names)) or 'default'))
    for nm in names:
        res.count('encoding:' + grids[nm]['enc'])
    res.count('start:' + ('fitted' if cfg['fitted'] else 'unfitted'))
    res.count('objective:' + cfg['objective'])
    if raised is not None:
        res.count('rejected')
        if not expect_reject:
            viol('gridsearch rejected a valid request', 'a search over the grid', 'ValueError: %s' % raised)
        return head + ' [] ORaised)', dict(cfg=inp, n_candidates=0, rejected=True)
    if expect_reject:
        viol('gridsearch accepted a request that must be rejected (%s)' % ('objective/scale mismatch' if want_obj is None else 'malformed grid ' + str(cfg['malformed'])),
             'ValueError', 'returned %s' % type(ret).__name__)
        return None

    # --- independent enumeration and independent cold fits
    per_param = [grid_values(grids_eff[nm], k) for nm in eff_names]
    enum = list(itertools.product(*per_param))
    if isinstance(r, dict):
        returned = list(r.items())
    else:
        returned = []                       # 'No models were fitted.': the call returns self whatever return_scores says
        if r is not twin:
            viol('return value with return_scores=True is neither a dict nor self', 'dict or self', type(r).__name__)
    if cfg['fitted'] and returned:
        # the first key is the searched object itself; with keep_best it has meanwhile received the attributes of the
        # best model, so its state when it was scored is the pre-call copy g0
        returned[0] = (g0, returned[0][1])
    cand_models = returned[1:] if cfg['fitted'] else returned
    outcomes, cands_coq = [], []
    pos = 0
    for combo in enum:
        hp = dict(n_splines=list(cfg['base_ns']), spline_order=[3] * k, lam=[0.6] * k)
        for nm, (kind, v) in zip(eff_names, combo):
            hp[nm] = [v] * k if kind == 's' else list(v)
        want = dict(lam=[float(v) for v in hp['lam']], n_splines=[int(v) for v in hp['n_splines']], spline_order=[int(v) for v in hp['spline_order']])
        try:
            h = build(cfg, ns=hp['n_splines'], so=hp['spline_order'], lam=hp['lam'])
            fit(cfg, h, X, y, expo, w)
            indep = float(h.statistics_[want_obj])
            indep_converged = converged(h)
        except ValueError as e:
            # PIRLS has no step control: whether it diverges depends on the start.  A cold start (_initial_estimate) can
            # diverge where the search's warm start converges (and vice versa: finding F_WARM).  Only a divergence of the
            # optimiser makes the pair incomparable; a parameter-validation error means the candidate is invalid.
            indep = DIVERGED if (type(e).__name__ == 'OptimizationError' and 'PIRLS optimization has diverged' in str(e)) else None
            indep_converged = False
        except Exception as e:
            res.count('independent-fit-error:%s' % type(e).__name__)
            return None
        matched = pos < len(cand_models) and hyper(cand_models[pos][0]) == want
        if not matched:
            outcomes.append('None')
            if indep is DIVERGED:
                res.count('skipped-in-search-and-cold-fit-diverges')
            elif indep is not None:
                # a candidate that can be fitted on its own is missing from the search.  Replay what the loop does for
                # it on a deep copy of the searched model (gam = deepcopy(self); set_params(**param_grid) one parameter
                # at a time; warm start with the coefficients of the model fitted just before; fit) and see which of the
                # two recorded mechanisms -- and only those -- raised the ValueError that made the loop `continue`:
                #  F_SKIP: a plural setter validates an intermediate (new n_splines, OLD spline_order) state;
                #  F_WARM: the warm start has the right length but belongs to another basis and PIRLS diverges.
                mech = None
                try:
                    if cfg['fitted']:
                        c = deepcopy(g0)
                    else:
                        c = build(cfg)
                        c._validate_params()
                        c._validate_data_dep_params(X)
                    stage = 'set'
                    for nm, (kind, v) in zip(eff_names, combo):
                        c.set_params(**{nm: (v if kind == 's' else np.array(v))})
                    prev = cand_models[pos - 1][0] if pos > 0 else (g0 if cfg['fitted'] else None)
                    stage = 'fit'
                    if prev is not None:
                        stage = 'warm-fit'
                        prev_coef = np.array(prev.coef_, dtype=float).copy()
                        c.set_params(coef_=prev_coef, force=True, verbose=False)
                    fit(cfg, c, X, y, expo, w)
                    stage = 'ok'
                except ValueError as e:
                    if stage == 'set' and 'n_splines must be > spline_order' in str(e):
                        mech = F_SKIP
                    elif stage == 'warm-fit' and 'PIRLS optimization has diverged' in str(e) \
                            and len(prev_coef) == int(c.terms.n_coefs) and hyper(prev) != want:
                        mech = F_WARM
                except Exception:
                    pass
                viol('a valid element of the Cartesian product was silently skipped by gridsearch', want,
                     dict(replayed_stage=stage, fitted_candidates=[hyper(m) for m, _ in cand_models][:12]), finding=mech)
                res.count('valid-candidate-skipped:%s' % (mech or 'unexplained'))
            continue
        m, sc = cand_models[pos]
        pos += 1
        es = escore(sc)
        if es is None:
            res.count('nan-score')
            return None
        outcomes.append('(Some %s)' % es)
        cands_coq.append(coq_list(['("%s", %s)' % (nm, coq_list([qlit(frac_of_float(v)) for v in want[nm]])) for nm in eff_names]))
        if float(sc) != float(m.statistics_[want_obj]):
            viol('returned score is not statistics_[%s] of the returned model' % want_obj, float(m.statistics_[want_obj]), float(sc))
        if indep is DIVERGED:
            # in-search fit produced finite statistics, the cold reference diverged: not comparable, not a violation
            res.count('cold-fit-diverged-not-comparable' if np.isfinite(float(sc)) else 'cold-fit-diverged-and-search-score-not-finite')
        elif indep is None:
            viol('gridsearch fitted a candidate that cannot be fitted on its own', 'ValueError', dict(hyper=want, score=float(sc)))
        elif not (abs(float(sc) - indep) <= SCORE_RTOL * max(1.0, abs(indep))) and not (indep_converged and converged(m)):
            # one of the two fits stopped at max_iter without reaching tol: its statistics are not those of the optimum
            res.count('not-converged-not-comparable')
        elif not (abs(float(sc) - indep) <= SCORE_RTOL * max(1.0, abs(indep))):
            viol('candidate score differs from the objective of an independently fitted model with the same hyper-parameters',
                 indep, dict(score=float(sc), hyper=want), finding=F_POISSON if poisson_defect else None)
    if pos != len(cand_models):
        viol('gridsearch fitted a candidate that is not the next element of the Cartesian product of the grids',
             [hyper(m) for m, _ in cand_models[:pos]][-3:], hyper(cand_models[pos][0]))
        return None

    # --- what the call left behind
    scores = [float(s_) for _, s_ in returned]
    kept = [i for i, (m, _) in enumerate(returned) if same_model(actual, m)]
    self_changed = not same_model(actual, g0)
    if cfg['keep_best'] and returned:
        # self must hold COPIES of the winner's attributes: no object shared with any model of the returned dict,
        # and mutating the returned models in place must not move self
        shared = []
        for i, (m, _) in enumerate(list(r.items())):
            if m is twin:
                continue
            for attr in ('coef_', 'statistics_', 'terms', 'logs_', 'distribution', 'link'):
                a_, b_ = getattr(twin, attr, None), getattr(m, attr, None)
                if a_ is not None and a_ is b_ and not isinstance(a_, (str, int, float, bool)):
                    shared.append('%s of returned model %d' % (attr, i))
        p_before = quiet(twin.predict, X)
        for m, _ in r.items():
            if m is not twin and hasattr(m, 'coef_'):
                m.coef_ *= 0.0
                if isinstance(m.statistics_.get('cov'), np.ndarray):
                    m.statistics_['cov'] *= 0.0
        p_after = quiet(twin.predict, X)
        if shared or not np.array_equal(p_before, p_after):
            viol('after keep_best=True the model shares objects with a model of the returned dict', 'independent copies',
                 dict(shared=shared[:6], predictions_moved_by_mutating_returned_models=bool(not np.array_equal(p_before, p_after))))
    ret_scores = isinstance(ret, dict)
    if not ret_scores and ret is not actual:
        viol('return value is neither a dict nor self', 'self', type(ret).__name__)
    if cfg['return_scores'] != ret_scores and returned:
        viol('return value shape', 'dict' if cfg['return_scores'] else 'self', type(ret).__name__)
    if ret_scores and [float(v) for v in ret.values()] != scores:
        viol('scores differ between two identical calls', scores, [float(v) for v in ret.values()])
    obj_names = [nm for nm in ('GCV', 'UBRE', 'AIC', 'AICc')
                 if all(m.statistics_.get(nm) is not None and float(m.statistics_[nm]) == float(s_) for m, s_ in returned)]
    if want_obj not in obj_names:
        viol('scores are not the %s objective' % want_obj, want_obj, obj_names)
    # direct probes: arg-min and purity
    if returned:
        best = min(scores)
        first = scores.index(best)
        if cfg['keep_best']:
            if first not in kept:
                viol('after keep_best=True the model is not the first model attaining the minimum score',
                     dict(index=first, score=best), dict(kept_indices=kept, scores=scores[:12]))
        else:
            if cfg['fitted']:
                p0, p1 = quiet(g0.predict, X), quiet(actual.predict, X)
                if not np.array_equal(p0, p1) or self_changed:
                    viol('keep_best=False changed the fitted model', 'predictions and hyper-parameters unchanged',
                         dict(max_abs_diff=float(np.max(np.abs(p0 - p1))), hyper_before=hyper(g0), hyper_after=hyper(actual)))
            elif hasattr(actual, 'coef_'):
                viol('keep_best=False fitted the (unfitted) model', 'still unfitted', 'has coef_')
    obs = '(ODone %s %s %s %s %s %s)' % (coq_list(cands_coq), coq_list([escore(s_) for s_ in scores]),
                                        coq_list([str(i) for i in kept]), coq_bool(self_changed), coq_bool(ret_scores),
                                        coq_list(['"%s"' % nm for nm in obj_names]))
    case = head + ' %s %s)' % (coq_list(outcomes), obs)
    res.count('candidates:%s' % ('2-4' if len(enum) <= 4 else '5-12' if len(enum) <= 12 else '13+'))
    res.count('cases-with-skipped-candidates' if outcomes.count('None') else 'cases-without-skipped-candidates')
    return case, dict(cfg=inp, n_candidates=len(enum), rejected=False, scores=scores[:12])


def combine_probe(res, rng):
    """utils.combine against itertools.product (independent), many shapes"""
    from pygam.utils import combine
    for _ in range(200):
        k = rng.randint(1, 4)
        gs = [[rng.randint(0, 9) for _ in range(rng.randint(1, 3))] for _ in range(k)]
        got = combine(*gs)
        want = [list(t) for t in itertools.product(*gs)]
        res.case(('combine', repr(gs)), sample=dict(probe='combine', grids=gs) if _ == 0 else None, nontrivial=k >= 2)
        if got != want:
            res.violations.append(dict(what='utils.combine is not the lexicographic Cartesian product', input=dict(grids=gs),
                                       expected=want[:10], observed=got[:10], finding=None))
            break


def snapshot_model(g, XA):
    """everything of a fitted model that a search on OTHER data must leave alone (compared bitwise)"""
    from pygam.utils import flatten
    snap = dict(coef=np.array(g.coef_, dtype=float).copy(),
                n_splines=[None if v is None else int(v) for v in flatten(g.n_splines)],
                lam=[float(v) for v in flatten(g.lam)],
                edge_knots=[None if k is None else np.array(k, dtype=float).copy() for k in g.edge_knots_],
                n_coefs=int(g.terms.n_coefs),
                stats={k: (np.array(v, dtype=float).copy() if isinstance(v, (np.ndarray, float, int, np.floating, np.integer)) else None)
                       for k, v in g.statistics_.items()})
    try:
        snap['pred'] = np.array(quiet(g.predict, XA), dtype=float).copy()
        snap['pred_error'] = None
    except Exception as e:
        snap['pred'] = None
        snap['pred_error'] = '%s: %s' % (type(e).__name__, e)
    return snap


def snapshot_diff(a, b):
    out = []
    if a['coef'].shape != b['coef'].shape or not np.array_equal(a['coef'], b['coef']):
        out.append('coef_')
    for k in ('n_splines', 'lam', 'n_coefs'):
        if a[k] != b[k]:
            out.append('%s %r -> %r' % (k, a[k], b[k]))
    if len(a['edge_knots']) != len(b['edge_knots']) or any(
            (x is None) != (y is None) or (x is not None and (x.shape != y.shape or not np.array_equal(x, y)))
            for x, y in zip(a['edge_knots'], b['edge_knots'])):
        out.append('edge_knots_ %r -> %r' % ([None if x is None else x.tolist() for x in a['edge_knots']],
                                              [None if x is None else x.tolist() for x in b['edge_knots']]))
    if sorted(a['stats']) != sorted(b['stats']):
        out.append('statistics_ keys')
    else:
        for k, v in a['stats'].items():
            w = b['stats'][k]
            if (v is None) != (w is None) or (v is not None and (v.shape != w.shape or not np.array_equal(v, w, equal_nan=True))):
                out.append('statistics_[%s]' % k)
    if b['pred_error'] != a['pred_error']:
        out.append('predict on the training data now raises %s' % b['pred_error'])
    elif a['pred'] is not None and not np.array_equal(a['pred'], b['pred']):
        out.append('predictions on the training data (max abs change %g)' % float(np.max(np.abs(a['pred'] - b['pred']))))
    return out


def other_data_probe(res, rng, count):
    """A model fitted on data A is searched on DIFFERENT data B (other rows, a factor level missing or shifted, another
    numeric range).  keep_best=False must leave the fitted model bitwise alone; keep_best=True with a grid that cannot
    beat the model must leave it being itself.  Candidate scores on B are not asserted (candidates are deep copies that
    keep the knots of A: known finding S6a)."""
    import pygam
    from pygam import s, f, l
    for t in range(count):
        r = np.random.RandomState(rng.randrange(2 ** 31))
        cls = rng.choice(['LinearGAM', 'LinearGAM', 'PoissonGAM', 'GammaGAM', 'LogisticGAM'])
        nA = rng.randint(60, 120)
        nlev = rng.randint(3, 5)
        with_lin = rng.random() < 0.5
        x0 = r.uniform(0, 1, nA)
        x1 = r.randint(0, nlev, nA).astype(float)
        x1[:nlev] = np.arange(nlev)                       # every level present in A
        x2 = r.uniform(-1, 1, nA)
        eff = r.uniform(-1, 1, nlev)
        eta = np.sin(4 * x0) + eff[x1.astype(int)] + (0.5 * x2 if with_lin else 0.0)
        XA = np.c_[x0, x1, x2] if with_lin else np.c_[x0, x1]

        def response(eta_, rr):
            if cls == 'LinearGAM':
                return eta_ + 0.2 * rr.randn(len(eta_))
            if cls == 'PoissonGAM':
                return rr.poisson(np.exp(eta_)).astype(float)
            if cls == 'GammaGAM':
                return rr.gamma(3.0, np.exp(eta_) / 3.0) + 1e-3
            return (rr.rand(len(eta_)) < 1 / (1 + np.exp(-2 * eta_))).astype(float)
        yA = response(eta, r)
        kindB = rng.choice(['level-missing', 'level-missing', 'top-level-missing', 'numeric-range', 'rows-only'])
        keep = np.ones(nA, dtype=bool)
        if kindB == 'level-missing':
            keep = x1 != float(rng.randrange(nlev - 1))   # an inner / the lowest level does not occur in B
        elif kindB == 'top-level-missing':
            keep = x1 != float(nlev - 1)
        elif kindB == 'numeric-range':
            keep = (x0 > 0.25) & (x0 < 0.8)
        else:
            keep = r.rand(nA) < 0.6
        if keep.sum() < 25:
            continue
        XB = XA[keep].copy()
        if kindB == 'numeric-range' and with_lin:
            XB[:, 2] = XB[:, 2] * 0.5
        keep_best = rng.random() < 0.5
        etaB = eta[keep]
        yB = response(etaB, r)
        ns0 = rng.randint(5, 8)

        def make_terms(lam_=0.6):
            tt = s(0, n_splines=ns0, lam=lam_) + f(1, lam=lam_)
            return tt + l(2, lam=lam_) if with_lin else tt
        terms = make_terms()
        inp = dict(probe='search-on-other-data', cls=cls, rows_A=int(nA), rows_B=int(keep.sum()), levels=int(nlev), B=kindB,
                   linear_term=with_lin, keep_best=keep_best, data_seed=int(r.get_state()[1][0]))
        try:
            g = getattr(pygam, cls)(terms, tol=1e-8, max_iter=60)
            quiet(g.fit, XA, yA)
            before = snapshot_model(g, XA)
            own = None
            if keep_best:
                # a grid that cannot beat the model: huge penalties on a response that is mostly noise
                yB = yB if cls == 'LogisticGAM' else (np.abs(yB + 3.0 * np.std(yA) * r.randn(len(yB))) + 1e-3 if cls in ('GammaGAM',)
                                                       else np.round(np.abs(yB + 3.0 * np.std(yA) * r.randn(len(yB)))) if cls == 'PoissonGAM'
                                                       else yB + 3.0 * np.std(yA) * r.randn(len(yB)))
                if cls == 'LogisticGAM':
                    yB = (r.rand(len(yB)) < 0.5).astype(float)
                lam = [1e4, 1e5]
            else:
                lam = [0.1, 1.0, 10.0]
            out = quiet(g.gridsearch, XB, yB, lam=lam, keep_best=keep_best, return_scores=True, progress=False)
        except ValueError as e:
            res.count('other-data-probe:rejected')
            continue
        except Exception as e:
            res.violations.append(dict(what='gridsearch of a fitted model on other data raised %s' % type(e).__name__, input=inp,
                                       expected='a search', observed='%s: %s' % (type(e).__name__, e), finding=None))
            continue
        vals = [float(v) for v in out.values()] if isinstance(out, dict) else []
        # candidates are refitted on B with B's knots and levels (since the S6a repair): their scores must equal those of
        # fresh models fitted on B -- checked, not proved (warm starts), same tolerance as the main cases
        if isinstance(out, dict):
            from pygam.utils import flatten
            objn = 'UBRE' if cls in ('PoissonGAM', 'LogisticGAM') else 'GCV'
            for m, sc in list(out.items())[1:]:
                lam_m = [float(v) for v in flatten(m.lam)]
                if len(set(lam_m)) != 1:
                    continue
                try:
                    h = getattr(pygam, cls)(make_terms(lam_m[0]), tol=1e-8, max_iter=60)
                    quiet(h.fit, XB, yB)
                    indep = float(h.statistics_[objn])
                except Exception:
                    res.count('other-data-probe:independent-fit-error')
                    continue
                if not (abs(float(sc) - indep) <= SCORE_RTOL * max(1.0, abs(indep))) and not (converged(h) and converged(m)):
                    res.count('other-data-probe:not-converged-not-comparable')
                elif not (abs(float(sc) - indep) <= SCORE_RTOL * max(1.0, abs(indep))):
                    res.violations.append(dict(
                        what='score of a candidate fitted on other data than the searched model differs from a fresh model fitted on that data',
                        input=dict(inp, lam=lam_m[0]), expected=indep, observed=float(sc), finding=None))
                res.count('other-data-probe:candidate-scores-compared')
        self_best = bool(vals) and vals[0] == min(vals) and vals.index(min(vals)) == 0
        res.count('other-data-probe:%s:%s' % (kindB, 'keep_best' if keep_best else 'keep_best=False'))
        res.case(('other-data', repr(sorted(inp.items()))), sample=inp if t == 0 else None, nontrivial=True)
        if keep_best and not self_best:
            res.count('other-data-probe:a-candidate-won')
            continue
        after = snapshot_model(g, XA)
        changed = snapshot_diff(before, after)
        if changed:
            res.violations.append(dict(
                what=('gridsearch(keep_best=False) on other data changed the already fitted model' if not keep_best else
                      'gridsearch(keep_best=True) kept the fitted model itself as the best but it is no longer itself'),
                input=inp, expected='coef_, statistics_, n_splines, edge_knots_ and predictions on the training data unchanged (bitwise)',
                observed=changed[:6], finding=None))


def tracking_probe(res, rng, count):
    """The real gridsearch loop driven with prescribed scores (a LinearGAM subclass whose fit() only records the next
    score of a seeded sequence with many ties): the kept model must be the FIRST model attaining the minimum,
    including the already fitted model itself."""
    import pygam
    from pygam import s
    seq = dict(i=0, scores=[])

    class Stub(pygam.LinearGAM):
        def fit(self, X, y, weights=None):
            if isinstance(self.link, str):          # what the real fit does first
                self._validate_params()
                self._validate_data_dep_params(X)
            i = seq['i']
            seq['i'] += 1
            self.coef_ = np.array([float(i)])
            self.statistics_ = {'GCV': seq['scores'][i], 'n_samples': len(y), 'm_features': 1}
            return self

    X = np.linspace(0, 1, 12).reshape(-1, 1)
    y = np.sin(3 * X[:, 0])
    for t in range(count):
        kk = rng.randint(2, 7)
        fitted = rng.random() < 0.5
        scores = [float(rng.choice([1, 1, 2, 2, 3, 5])) for _ in range(kk + (1 if fitted else 0))]
        if rng.random() < 0.15:
            scores[rng.randrange(len(scores))] = float('inf')
        seq['i'], seq['scores'] = 0, scores
        g = Stub(s(0, n_splines=5))
        if fitted:
            g.fit(X, y)
        lam = [float(2 ** j) for j in range(kk)]
        try:
            r = quiet(g.gridsearch, X, y, lam=lam, return_scores=True, keep_best=True, progress=False)
        except Exception as e:
            res.violations.append(dict(what='gridsearch raised on prescribed scores', input=dict(scores=scores, fitted=fitted),
                                       expected='a result', observed='%s: %s' % (type(e).__name__, e), finding=None))
            continue
        got_scores = [float(v) for v in r.values()]
        kept = int(g.coef_[0])
        first = scores.index(min(scores))
        res.case(('tracking', tuple(scores), fitted), sample=dict(probe='tracking', scores=scores, fitted=fitted, kept=kept) if t == 0 else None,
                 nontrivial=scores.count(min(scores)) >= 2)
        res.count('tracking-probe:ties' if scores.count(min(scores)) >= 2 else 'tracking-probe:unique-min')
        if got_scores != scores or kept != first:
            res.violations.append(dict(what='with prescribed scores the kept model is not the first model attaining the minimum',
                                       input=dict(scores=scores, fitted_start=fitted, lam_grid=lam),
                                       expected=dict(kept_index=first, scores=scores), observed=dict(kept_index=kept, scores=got_scores), finding=None))


def run(res):
    rng = common.rng_for(res.seed, PROP)
    res.rule = ('Each case is a seeded gridsearch call: model in LinearGAM (unknown / known scale), PoissonGAM (with/without exposure), '
                'LogisticGAM, GammaGAM with 1-3 spline terms on 30-50 rows; grids over lam / n_splines / spline_order singly and jointly '
                '(or the default grid), each as a 1-D list or array, a list of lists (one bare scalar allowed) or a 2-D array; every '
                'objective including the mismatching ones; fitted and unfitted start; keep_best and return_scores on/off; 12% malformed '
                'grids. The call is made twice on deep copies (return_scores=True to observe, then as configured); candidates are also '
                'enumerated with itertools.product and fitted independently from scratch (ValueError = skipped). Coq (vm_compute) '
                'recomputes the candidate list, the objective, the recorded models, the tracked best and the return shape from the '
                'generated skeleton and compares. Distinct = distinct configuration; non-trivial = at least 3 candidates fitted.')
    prove(res)
    combine_probe(res, rng)
    tracking_probe(res, rng, 80 if res.tier == 'quick' else 1500)
    other_data_probe(res, common.rng_for(res.seed, PROP, 'other-data'), 40 if res.tier == 'quick' else 600)   # own stream: the main cases keep theirs
    count = 110 if res.tier == 'quick' else 2500
    cases, metas = [], []
    for i in range(count):
        cfg = gen_config(rng)
        out = evaluate(res, cfg)
        if out is None:
            continue
        cases.append(out[0])
        metas.append(out[1])
    with common.CaseDir(PROP) as cd:
        failing, errors = common.run_bool_cases(cd, HEADER, cases, 'check_case', shard=20)
    for name, out in errors:
        res.obligation('correspondence-file:' + name, False, detail=out, kind='correspondence')
    res.obligation('correspondence:C10 model on the generated skeleton = observed gridsearch (candidates, order, objective, scores dict, kept model, return shape, rejections)',
                   not failing and not errors, detail='failing case indices %s' % failing[:20], kind='correspondence')
    for i, m in enumerate(metas):
        key = repr(sorted((k, repr(v)) for k, v in m['cfg'].items()))
        res.case(key, sample=dict(cfg=m['cfg'], n_candidates=m['n_candidates']) if i in (0, 2, 5) else None,
                 nontrivial=m['n_candidates'] >= 3)
    for i in failing:
        m = metas[i]
        res.violations.append(dict(what='observed gridsearch differs from the model run on the generated skeleton', finding=None,
                                   input=m['cfg'], observed=dict(rejected=m['rejected'], scores=m.get('scores')),
                                   expected='see coq/Model/Grid.v, coq/Model/C10Check.v'))
    res.extra['correspondence_cases'] = len(cases)
    res.extra['tolerances'] = {'candidate hyper-parameters, order, kept model, return shape': 'exact',
                               'scores vs statistics_[objective] of the returned model': 'bitwise',
                               'score vs independently (cold) fitted model': '%g relative; fits use tol=1e-8, max_iter=60 -- CHECKED, NOT PROVED (warm starts)' % SCORE_RTOL}
    res.notes.append('"each candidate\'s score equals the objective of an independently fitted model" is checked by independent fits on every run, not proved')
    res.trusted.append('translator /verif/translator/skel_c10.py (exact statement shapes of gridsearch / combine; fail-closed)')
    res.trusted.append('copy.deepcopy really copies the model (the purity theorem is about the receivers named in the source)')


def replay(res, rp):
    run(res)
