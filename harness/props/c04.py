"""C04 -- smoothing penalties measure exactly the roughness they promise, term by term."""
import numpy as np
import scipy.sparse

import common
from common import zlit, dylit, coq_list, qlit
import gen_terms

PROP = 'C04'
PROPS_FILE = 'Props/C04.v'

HEADER = """From Coq Require Import List ZArith QArith Bool.
From PG Require Import Base.Ops Base.Vec Model.Penalties Model.C04Check.
Import ListNotations.
Open Scope Q_scope.
"""


def pen_coq(p):
    from pygam import penalties as P
    table = {'auto': 'PAuto', 'derivative': '(PDeriv 2)', 'periodic': '(PPeriodic 2)', 'l2': 'PL2', 'none': 'PNone',
             None: 'PNone'}
    if isinstance(p, str) or p is None:
        return table[p]
    fn = {P.derivative: '(PDeriv 2)', P.periodic: '(PPeriodic 2)', P.l2: 'PL2', P.none: 'PNone'}
    return fn[p]


def mat_coq(M):
    if scipy.sparse.issparse(M):
        M = M.toarray()
    M = np.atleast_2d(np.asarray(M, dtype=float))
    return coq_list([coq_list([dylit(x) for x in row]) for row in M])


def margin_coq(t):
    from pygam.terms import SplineTerm, LinearTerm, FactorTerm
    if isinstance(t, FactorTerm):
        kind = 'KFactor'
    elif isinstance(t, LinearTerm):
        kind = 'KLinear'
    elif isinstance(t, SplineTerm):
        kind = '(KSpline %s %s)' % (common.coq_bool(t.basis in ['cp']), common.coq_bool(t.dtype == 'categorical'))
    else:
        raise ValueError('unsupported marginal %r' % t)
    pens = coq_list(['(%s, %s)' % (pen_coq(p), qlit(common.frac_of_float(l))) for p, l in zip(t.penalties, t.lam)])
    return '(mk_margin %s %d %s)' % (kind, int(t.n_coefs), pens)


def term_coq(t):
    if t.isintercept:
        return 'TIntercept'
    if t.istensor:
        return '(TTensor %s)' % coq_list([margin_coq(m) for m in t._terms])
    return '(TSimple %s)' % margin_coq(t)


S5 = 'S5-cyclic-penalty'


def s5_shape(M, b, got, n):
    """the listed defect: the cyclic penalty is a symmetric PSD n x n Gram matrix that is not the Gram matrix of cyclic
    differences.  A cyclic penalty that is asymmetric, indefinite or of the wrong shape is NOT the listed finding."""
    if M.shape != (n, n) or not (M == M.T).all():
        return False
    return bool(np.linalg.eigvalsh(M).min() > -1e-9 * max(1.0, abs(M).max()))


def direct_probe(res, rng, tier):
    """The property statement evaluated directly on the implementation with integer coefficient vectors
    (exact in binary64): beta' P beta == sum of squared d-th (cyclic) differences; symmetry; constants / lines in
    the null space; l2 and none."""
    from pygam import penalties as P
    nmax = 40 if tier == 'quick' else 90
    reps = 2 if tier == 'quick' else 6
    for n in range(1, nmax + 1):
        for d in (1, 2, 3, 4):
            for per in (False, True):
                key = ('probe', n, d, per)
                try:
                    M = P.derivative(n, None, derivative=d, periodic=per).toarray()
                except Exception as e:  # the property quantifies over all n >= 1
                    res.violations.append(dict(what='penalty construction raised', finding=S5 if (per and isinstance(e, ValueError) and n < d) else None,
                                               input=dict(fn='derivative', n=n, derivative=d, periodic=per),
                                               observed='%s: %s' % (type(e).__name__, e), expected='an n x n matrix'))
                    res.case(key)
                    continue
                for _ in range(reps):
                    b = np.array([rng.randint(-9, 9) for _ in range(n)], dtype=float)
                    got = float(b @ M @ b)
                    if per:
                        v = b.copy()
                        for _k in range(d):
                            v = np.roll(v, -1) - v
                    else:
                        v = np.diff(b, n=d) if n > d else np.zeros(0)
                    want = float((v ** 2).sum())
                    if n == 1:
                        want = 0.0
                    bad = got != want or not (M == M.T).all() or M.shape != (n, n)
                    c = np.ones(n)
                    if float(c @ M @ c) != 0.0:
                        bad = True
                    if (not per) and d >= 2:
                        ln = np.arange(n, dtype=float)
                        if float(ln @ M @ ln) != 0.0:
                            bad = True
                    if bad:
                        res.violations.append(dict(
                            what='quadratic form of the %s order-%d penalty differs from the sum of squared %sdifferences '
                                 '(or the matrix is asymmetric / penalises constants)' % ('cyclic' if per else 'derivative', d, 'cyclic ' if per else ''),
                            finding=S5 if (per and s5_shape(M, b, got, n)) else None,
                            input=dict(fn='derivative', n=n, derivative=d, periodic=per, beta=b.tolist()),
                            observed=dict(quad=got, const_quad=float(c @ M @ c)), expected=dict(quad=want, const_quad=0.0)))
                        break
                res.case(key, sample=dict(probe='quadform', n=n, d=d, periodic=per) if (n, d) == (7, 2) else None)
    for n in range(1, nmax + 1):
        b = np.array([rng.randint(-9, 9) for _ in range(n)], dtype=float)
        M = P.l2(n, None).toarray()
        Z = P.none(n, None).toarray()
        if float(b @ M @ b) != float((b ** 2).sum()) or float(b @ Z @ b) != 0.0 or Z.shape != (n, n):
            res.violations.append(dict(what='l2/none quadratic form', finding=None, input=dict(n=n, beta=b.tolist()),
                                       observed=dict(l2=float(b @ M @ b), none=float(b @ Z @ b)),
                                       expected=dict(l2=float((b ** 2).sum()), none=0.0)))
        res.case(('probe-l2', n))


def fn_cases(res, tier):
    from pygam import penalties as P
    nmax = 40 if tier == 'quick' else 70
    cases, meta = [], []
    for n in range(1, nmax + 1):
        for d in (1, 2, 3, 4):
            for per in (False, True):
                try:
                    M = P.derivative(n, None, derivative=d, periodic=per)
                except ValueError as e:
                    cases.append('(CFnErr (%s %d) %d)' % ('PPeriodic' if per else 'PDeriv', d, n))
                    meta.append(dict(fn='derivative', n=n, derivative=d, periodic=per, raised='ValueError'))
                    continue
                cases.append('(CFn (%s %d) %d %s)' % ('PPeriodic' if per else 'PDeriv', d, n, mat_coq(M)))
                meta.append(dict(fn='derivative', n=n, derivative=d, periodic=per))
        cases.append('(CFn PL2 %d %s)' % (n, mat_coq(P.l2(n, None))))
        meta.append(dict(fn='l2', n=n))
        cases.append('(CFn PNone %d %s)' % (n, mat_coq(P.none(n, None))))
        meta.append(dict(fn='none', n=n))
        cases.append('(CFn (PPeriodic 2) %d %s)' % (n, mat_coq(P.periodic(n, None))))
        meta.append(dict(fn='periodic', n=n))
    return cases, meta


def term_cases(res, rng, tier):
    count = 150 if tier == 'quick' else 1200
    cases, meta = [], []
    for i in range(count):
        dyadic = rng.random() < 0.7
        nf = rng.randint(1, 4)
        factor_feats = tuple(j for j in range(nf) if rng.random() < 0.25)
        specs = gen_terms.gen_termlist(rng, nf, factor_feats, dyadic=dyadic, max_terms=4, max_n=10)
        levels = None
        if i % 5 == 0:
            # a tensor term whose marginals are of DIFFERENT kinds but tie in size, lam and penalty name ('auto' resolves per kind:
            # second differences / cyclic differences / ridge) -- each marginal must still get its own penalty
            n = rng.randint(3, 5)
            nf = max(nf, 3)
            factor_feats = (2,)
            levels = {2: n}
            lam = [gen_terms.gen_lam(rng, dyadic)]
            def sp(f_, basis):
                return dict(kind='s', feature=f_, n_splines=n, spline_order=rng.randint(1, n - 1), lam=list(lam), penalties=['auto'],
                            constraints=[None], basis=basis, by=None, dtype='numerical', edge_knots=None)
            pool = [sp(0, 'ps'), sp(1, 'cp'), dict(kind='f', feature=2, lam=list(lam), penalties=['auto'], coding='one-hot')]
            rng.shuffle(pool)
            specs = [s for s in specs if s['kind'] in ('intercept',)][:1] + [dict(kind='te', margins=pool[:rng.choice([2, 3])], by=None)]
            res.count('termlist: tensor with tied marginals of different kinds')
        try:
            tl = gen_terms.build_termlist(specs)
            tl_ref = tl          # the Coq terms are always written from the constructor-built list (the lam values as specified)
            if i % 3 == 1:
                # the same lam values handed down through the term list's plural setter (what gam.lam = ... / gridsearch do): every lam must
                # still end up on its own penalty (terms with several penalties and tensor terms receive several values at once)
                import copy as _copy
                ph = _copy.deepcopy(specs)
                nested, c = [], 0
                for sp_ in ph:
                    if sp_['kind'] == 'te':
                        nested.append([[float(v) for v in m_['lam']] for m_ in sp_['margins']])
                        for m_ in sp_['margins']:
                            m_['lam'] = [float(2 + (c := c + 1)) for _ in m_['lam']]
                    elif sp_['kind'] != 'intercept':
                        nested.append([float(v) for v in sp_['lam']])
                        sp_['lam'] = [float(2 + (c := c + 1)) for _ in sp_['lam']]
                try:
                    tl2 = gen_terms.build_termlist(ph)
                    tl2.lam = nested
                    tl = tl2
                    res.count('lam handed down through the term list setter')
                except ValueError as e_:
                    if 'inhomogeneous' not in str(e_):
                        raise
                    res.count('lam setter: ragged tensor settings (known finding S9g of C14), constructor route used')
            X = gen_terms.gen_X(rng, 12, nf, factor_feats, levels=levels)
            tl.compile(X)
            if tl_ref is not tl:
                tl_ref.compile(X.copy())
            if tl.n_coefs > 140:
                continue
            M = tl.build_penalties()
        except Exception as e:
            res.count('term_cases_construction_error:%s' % type(e).__name__)
            res.violations.append(dict(what='TermList.build_penalties raised on a valid term list', finding=None,
                                       input=dict(specs=specs), observed='%s: %s' % (type(e).__name__, e),
                                       expected='block-diagonal penalty matrix'))
            continue
        tol = '0' if dyadic else '(1#1000000000000)'
        cases.append('(CTerms %s %s %s)' % (coq_list([term_coq(t) for t in tl_ref._terms]), tol, mat_coq(M)))
        meta.append(dict(specs=specs, dyadic=dyadic, n_coefs=int(tl.n_coefs)))
        kinds = '+'.join(sorted({s['kind'] for s in specs}))
        res.count('termlist:' + kinds)
        res.count('tensor_arity:%d' % max([len(s['margins']) for s in specs if s['kind'] == 'te'] + [0]))
    return cases, meta


def run(res):
    rng = common.rng_for(res.seed, PROP)
    res.rule = ('(a) every penalty function at every size n<=N, order 1..4, periodic on/off compared entry-by-entry (exact '
                'integers) with the Coq model evaluated by vm_compute; (b) seeded random term lists (spline/linear/factor/'
                'tensor, lists of penalties with their own lam, intercept anywhere) whose TermList.build_penalties matrix is '
                'compared with model_penalty in exact rationals (tolerance 0 for dyadic lam, 1e-12 relative otherwise); '
                '(c) the property statement itself (quadratic form = sum of squared differences, symmetry, constants/lines '
                'unpenalised) evaluated on the implementation with integer coefficient vectors. A case is distinct by its '
                '(function,n,d,periodic) or by its term-list specification; all are non-trivial except n=1.')
    common.standard_prove(res, PROPS_FILE, extra=['Model/C04Check.vo'])
    direct_probe(res, rng, res.tier)
    c1, m1 = fn_cases(res, res.tier)
    c2, m2 = term_cases(res, rng, res.tier)
    cases, meta = c1 + c2, m1 + m2
    with common.CaseDir(PROP) as cd:
        failing, errors = common.run_bool_cases(cd, HEADER, cases, 'check_case', shard=120)
    for name, out in errors:
        res.obligation('correspondence-file:' + name, False, detail=out, kind='correspondence')
    res.obligation('correspondence:C04 penalty matrices (model = implementation)', not failing and not errors,
                   detail='failing case indices %s' % failing[:20], kind='correspondence')
    for i, m in enumerate(meta):
        if m is None:
            continue
        key = repr(m)
        res.case(key, sample=m if i in (5, len(c1) + 3, len(c1) + 11) else None,
                 nontrivial=not (m.get('n') == 1))
    for i in failing:
        m = meta[i]
        if m is None:
            continue
        res.violations.append(dict(what='penalty matrix differs from the model (sum_j lam_j P_j / Kronecker lift / block diagonal)',
                                   finding=None, input=m, observed='implementation matrix != model matrix',
                                   expected='see coq/Model/Penalties.v'))
    res.extra['correspondence_cases'] = len(cases)
    res.extra['tolerances'] = {'integer matrices': 'exact', 'dyadic lam': 'exact', 'float lam': '1e-12 relative'}


def replay(res, rp):
    run(res)
