"""C02 -- predictions decompose additively into intercept plus per-term partial effects.

 (1) translation (translator/gen_predict.py -> coq/Gen/Predict.v, Gen/Links.v) and the theorems of coq/Props/C02.v re-checked;
 (2) correspondence: random fitted models of all six classes (term mixes incl. tensor, by, factor; intercept on/off) and
     random query matrices incl. far extrapolation: gam._linear_predictor(X), partial_dependence(i, X) for every term,
     generate_X_grid(i, n, meshgrid on/off) against coq/Model/Predict.v evaluated in exact rationals on the fitted coef_
     and edge knots; predict_mu against the generated inverse link of the linear predictor (interval-certified);
 (3) the property statement evaluated directly on the implementation: additivity, locality, grid end points / shape /
     by-column, default-grid partial dependence.
"""
import math
import copy
import warnings
from fractions import Fraction

import numpy as np

import common
from common import dylit, coq_list, qlit, rlit, rlit_frac
import gen_models
import gen_terms
from props import c03, c16

PROP = 'C02'
PROPS_FILE = 'Props/C02.v'
TOL = Fraction(1, 10 ** 8)          # linear predictor / partial effects: 1e-8 * (1 + sum_j max(1,|col_j|) |coef_j|)
TOL_GRID = Fraction(1, 10 ** 12)    # grids: 1e-12 * max(1, |ek0|, |ek1|, |value|)
REL_MU = Fraction(1, 10 ** 12)

HEADER = """From Coq Require Import List ZArith QArith Bool.
From PG Require Import Base.Ops Base.Vec Model.BSpline Model.C03Check Model.Columns Model.Predict Model.C02Check.
Import ListNotations.
Close Scope Q_scope.
"""
IHEADER = """From Coq Require Import Reals.
From Interval Require Import Tactic.
From PG Require Import Base.Ops Gen.Links.
Open Scope R_scope."""
LINKFN = {'LIdentity': 'Gen_IdentityLink_mu', 'LLog': 'Gen_LogLink_mu', 'LLogit': 'Gen_LogitLink_mu'}


# ----------------------------------------------------------------------------- scenarios
def has_by(s):
    return s.get('by') is not None


def want_ok(specs, want):
    if want == 'tensor':
        return any(s['kind'] == 'te' for s in specs)
    if want == 'by':
        return any(s['kind'] == 's' and has_by(s) for s in specs)
    if want == 'factor':
        return any(s['kind'] == 'f' or (s['kind'] == 'te' and any(m['kind'] == 'f' for m in s['margins'])) for s in specs)
    return True


def make_scenario(rng, cls, want, tier):
    """a gen_models scenario whose term list holds the wanted kind of term; tensor-with-by is appended by hand"""
    for _ in range(60):
        scn = gen_models.gen_scenario(rng, cls=cls, regime='n>m', constraints=False, max_n=40 if tier == 'quick' else 90,
                                      max_m=16 if tier == 'quick' else 30, weights=rng.choice(['none', 'none', 'float']))
        specs = [s for s in scn['specs'] if s['kind'] != 'intercept']    # the intercept is governed by fit_intercept
        if not specs:
            continue
        scn['specs'] = specs
        nf = scn['X'].shape[1]
        if want in ('tensor-by', 'spline-by'):
            numeric = [j for j in range(nf) if j not in scn['factor_feats']]
            if want == 'tensor-by' and nf >= 3 and len(numeric) >= 1:
                by = rng.choice(numeric)
                feats = rng.sample([j for j in range(nf) if j != by], 2)
                margins = []
                for f_ in feats:
                    if f_ in scn['factor_feats']:
                        margins.append(gen_terms.gen_linear(rng, f_, False))
                    elif rng.random() < 0.7:
                        m = gen_terms.gen_spline(rng, f_, nf, False, max_n=4, allow_by=False, allow_cat=False)
                        margins.append(m)
                    else:
                        margins.append(gen_terms.gen_linear(rng, f_, False))
                scn['specs'] = specs[:2] + [dict(kind='te', margins=margins, by=by)]
                return scn
            if want == 'spline-by' and nf >= 2 and len(numeric) >= 1:
                f_ = rng.choice(numeric)
                s = gen_terms.gen_spline(rng, f_, nf, False, max_n=7, allow_by=False, allow_cat=False)
                s['by'] = rng.choice([j for j in range(nf) if j != f_ and j not in scn['factor_feats']] or [j for j in range(nf) if j != f_])
                scn['specs'] = specs[:2] + [s]
                return scn
            continue
        if want == 'twin':
            # two terms on the same feature with identical basis settings that differ only in the by-variable and / or the penalty weight:
            # each must still contribute its own columns
            numeric = [j for j in range(nf) if j not in scn['factor_feats']]
            cand = [s for s in specs if s['kind'] in ('s', 'l') and s['feature'] in numeric]
            if not cand or nf < 2:
                continue
            a = rng.choice(cand)
            b = copy.deepcopy(a)
            b['lam'] = [float(v) * 3.0 for v in a['lam']]
            others = [j for j in numeric if j != a['feature']] or [j for j in range(nf) if j != a['feature']]
            if a['kind'] == 's' and rng.random() < 0.8:
                b['by'] = None if has_by(a) else rng.choice(others)
            scn['specs'] = [s for s in specs if s is not a][:1] + ([a, b] if rng.random() < 0.5 else [b, a])
            return scn
        if want_ok(specs, want):
            return scn
    return scn


def fit(scn, fit_intercept):
    gam = gen_models.build_gam(scn, fit_intercept=fit_intercept)
    with warnings.catch_warnings(), np.errstate(all='ignore'):
        warnings.simplefilter('ignore')
        if scn['w'] is None:
            gam.fit(scn['X'].copy(), scn['y'].copy())
        else:
            gam.fit(scn['X'].copy(), scn['y'].copy(), weights=scn['w'].copy())
    return gam


def gen_query(rng, Xtr, factor_feats, n):
    """query rows: inside the training range, moderately outside, far outside (up to 1000 widths), exact end points;
    factor columns stay within the fitted levels (check_X rejects unseen categories)"""
    m = Xtr.shape[1]
    X = np.zeros((n, m))
    for j in range(m):
        lo, hi = float(Xtr[:, j].min()), float(Xtr[:, j].max())
        if j in factor_feats:
            X[:, j] = [float(rng.randint(int(lo), int(hi))) for _ in range(n)]
            continue
        w = (hi - lo) or 1.0
        for r in range(n):
            k = rng.random()
            if k < 0.4:
                X[r, j] = lo + rng.random() * w
            elif k < 0.65:
                X[r, j] = lo + (rng.random() * 1.8 - 0.4) * w
            elif k < 0.9:
                X[r, j] = lo + rng.choice([-1, 1]) * 10 ** rng.uniform(0, 3) * w
            else:
                X[r, j] = rng.choice([lo, hi])
    return X


def reads(t):
    """features (and by-variables) a term reads"""
    if t.isintercept:
        return []
    if t.istensor:
        out = [f for m in t._terms for f in reads(m)]
    else:
        out = [t.feature]
    if getattr(t, 'by', None) is not None:
        out.append(t.by)
    return out


def lin_list(terms):
    from pygam.terms import LinearTerm
    out = {}
    for t in terms:
        for m in (t._terms if t.istensor else [t]):
            if isinstance(m, LinearTerm):
                out[int(m.feature)] = (float(m.edge_knots_[0]), float(m.edge_knots_[1]))
    return out


def lin_coq(lin):
    return coq_list(['(%d, (%s, %s))' % (f, dylit(a), dylit(b)) for f, (a, b) in sorted(lin.items())])


def marginals(t):
    return list(t._terms) if t.istensor else [t]


def describe(scn, fit_intercept, Xq=None):
    d = gen_models.describe(scn)
    d['fit_intercept'] = fit_intercept
    d['X_train'] = scn['X'].tolist()
    d['y'] = scn['y'].tolist()
    d['weights_values'] = None if scn['w'] is None else scn['w'].tolist()
    d['factor_feats'] = list(scn['factor_feats'])
    if Xq is not None:
        d['X_query'] = Xq.tolist()
    return d


# ----------------------------------------------------------------------------- direct probes on the implementation
def pd_term(gam, i, X):
    """partial effect of term i at X: partial_dependence for non-intercept terms, the coefficient for the intercept"""
    if gam.terms[i].isintercept:
        return gam._linear_predictor(X=X, term=i)
    return gam.partial_dependence(term=i, X=X)


def probe_model(res, gam, scn, desc, Xq, rng, flat_cases=None):
    """the property statement on the implementation, independent of the Coq model"""
    def viol(what, observed, expected, finding=None, **extra):
        res.violations.append(dict(what=what, finding=finding, input=dict(desc, **extra), observed=observed, expected=expected))
    terms = gam.terms._terms
    nterm = len(terms)
    with warnings.catch_warnings(), np.errstate(all='ignore'):
        warnings.simplefilter('ignore')
        lp = gam._linear_predictor(Xq)
        mu = gam.predict_mu(Xq)
        pr = gam.predict_mu(Xq) if scn['cls'] in ('LogisticGAM', 'PoissonGAM') else gam.predict(Xq)
        pds = [np.asarray(pd_term(gam, i, Xq), dtype=float) for i in range(nterm)]
        # ---- additivity: lp = sum of the partial effects (intercept term = its coefficient)
        tot = np.sum(pds, axis=0) if pds else np.zeros(len(Xq))
        sc = np.sum(np.abs(pds), axis=0) + 1e-300
        res.case(('additive', res.evaluations))
        bad = np.abs(lp - tot) > 1e-8 * sc
        if bad.any():
            r = int(np.argmax(bad))
            viol('linear predictor differs from intercept + sum of partial dependences', dict(row=Xq[r].tolist(), lp=float(lp[r]), sum=float(tot[r])),
                 '|lp - sum| <= 1e-8 * sum |terms|')
        for i, t in enumerate(terms):
            if t.isintercept:
                # its partial effect is the coefficient; the public partial_dependence refuses it
                c = gam.coef_[gam.terms.get_coef_indices(i)]
                if not np.array_equal(pds[i], np.full(len(Xq), c[0])):
                    viol('intercept term contribution is not the intercept coefficient', pds[i].tolist(), float(c[0]))
                try:
                    gam.partial_dependence(term=i, X=Xq)
                    viol('partial_dependence accepted the intercept term', 'returned', 'ValueError')
                except ValueError:
                    pass
        if gam.fit_intercept and not (terms[-1].isintercept and pds and np.array_equal(pds[-1], np.full(len(Xq), gam.coef_[-1]))):
            viol('fit_intercept=True: last term is not an intercept contributing coef_[-1]', repr(terms[-1]), 'Intercept')
        # ---- predicted mean = inverse link of the linear predictor; link(mu) = lp where the round trip is well conditioned
        want = gam.link.mu(lp, gam.distribution)
        ok = np.isclose(mu, want, rtol=1e-12, atol=0) | (mu == want)
        if not ok.all() or not np.array_equal(np.asarray(pr), np.asarray(mu)):
            r = int(np.argmin(ok))
            viol('predict_mu / predict differ from link.mu(linear predictor)', dict(row=Xq[r].tolist(), mu=float(mu[r]), predict=float(np.asarray(pr)[r])), float(want[r]))
        cond = np.abs(lp) <= (10.0 if scn['cls'] == 'LogisticGAM' else 300.0)
        back = gam.link.link(mu, gam.distribution)
        bad = cond & ~(np.abs(back - tot) <= 1e-8 * (sc + np.abs(lp) + 1.0))
        if bad.any():
            r = int(np.argmax(bad))
            viol('link(predict_mu) differs from intercept + sum of partial dependences', dict(row=Xq[r].tolist(), link_mu=float(back[r]), sum=float(tot[r])),
                 '|link(mu) - sum| <= 1e-8 * (sum |terms| + |lp| + 1)')
        # ---- locality: scramble every column the term does not read
        m = Xq.shape[1]
        for i, t in enumerate(terms):
            if t.isintercept:
                continue
            keep = set(reads(t))
            X2 = Xq.copy()
            for j in range(m):
                if j not in keep:
                    perm = list(range(len(Xq)))
                    rng.shuffle(perm)
                    if j in scn['factor_feats']:
                        X2[:, j] = Xq[perm, j]
                    else:
                        X2[:, j] = Xq[perm, j] * rng.choice([1.0, -2.5, 0.0]) + rng.uniform(-1, 1)
            p2 = np.asarray(gam.partial_dependence(term=i, X=X2), dtype=float)
            res.case(('local', res.evaluations))
            if not np.allclose(p2, pds[i], rtol=1e-12, atol=1e-12 * (np.abs(pds[i]).max() + 1e-300)):
                r = int(np.argmax(np.abs(p2 - pds[i])))
                viol('partial dependence of term %d changed when only columns it does not read changed' % i,
                     dict(before=float(pds[i][r]), after=float(p2[r]), row=Xq[r].tolist(), row2=X2[r].tolist()), 'equal', term=i)
        # ---- default grids
        for i, t in enumerate(terms):
            if t.isintercept:
                for call in (lambda: gam.generate_X_grid(term=i), lambda: gam.partial_dependence(term=i)):
                    try:
                        call()
                        viol('grid / partial dependence of the intercept term did not raise ValueError', 'returned', 'ValueError', term=i)
                    except ValueError:
                        pass
                continue
            probe_grid(res, gam, scn, i, t, viol, rng)
            for rep in range(2):
                um = probe_user_mesh(res, gam, scn, i, t, viol, rng, res.evaluations + rep)
                if um is not None and flat_cases is not None and um[1].size <= 600:
                    axes, F = um
                    flat_cases.append(('(CFlatten %s %d %s %s)' % (
                        c16.term_coq(t), Xq.shape[1], coq_list([coq_list([dylit(float(v)) for v in a]) for a in axes]),
                        coq_list([coq_list([dylit(float(v)) for v in row]) for row in np.asarray(F, dtype=float)])),
                        dict(term=i, mesh_axes=[a.tolist() for a in axes], mesh_dtypes=[str(a.dtype) for a in axes])))


def probe_grid(res, gam, scn, i, t, viol, rng):
    ms = marginals(t)
    k = len(ms)
    m = scn['X'].shape[1]
    by = getattr(t, 'by', None)
    feats = [int(s.feature) for s in ms]
    for n in ([2, rng.randint(3, 7)] if k <= 2 else [2, 3]):
        G = np.asarray(gam.generate_X_grid(term=i, n=n))
        Ms = gam.generate_X_grid(term=i, n=n, meshgrid=True)
        res.case(('grid', res.evaluations))
        if G.shape != (n ** k, m) or not isinstance(Ms, tuple) or len(Ms) != k or any(np.asarray(a).shape != (n,) * k for a in Ms):
            viol('default grid has the wrong shape', dict(grid=list(G.shape), mesh=[list(np.asarray(a).shape) for a in Ms]), dict(grid=[n ** k, m], mesh=[[n] * k] * k), term=i, n=n)
            continue
        # 'ij' order: marginal a varies with stride n^(k-1-a)
        idx = np.indices((n,) * k).reshape(k, -1)
        for a, s in enumerate(ms):
            ek = s.edge_knots_
            want = np.linspace(float(ek[0]), float(ek[1]), n)
            if len(set(feats)) == k and not np.array_equal(G[:, feats[a]], want[idx[a]]):
                viol('default grid: feature column of marginal %d is not the n-point uniform grid over its edge knots in ij (C) order' % a,
                     G[:, feats[a]].tolist(), want[idx[a]].tolist(), term=i, n=n)
            if not np.array_equal(np.asarray(Ms[a]).ravel(), want[idx[a]]):
                viol('meshgrid=True: array %d is not the ij mesh of the marginal grids' % a, np.asarray(Ms[a]).ravel().tolist(), want[idx[a]].tolist(), term=i, n=n)
            if want[0] != float(ek[0]) or (n >= 2 and want[-1] != float(ek[1])):
                viol('np.linspace end points', [want[0], want[-1]], [float(ek[0]), float(ek[1])])
        for j in range(m):
            if j in feats:
                continue
            if by is not None and j == by:
                if not np.all(G[:, j] == 1.0):
                    viol('default grid: by-variable column is not set to one', sorted(set(G[:, j].tolist())), [1.0],
                         term=i, n=n)
            elif not np.all(G[:, j] == 0.0):
                viol('default grid: a column the term does not read is not zero', G[:, j].tolist(), 0.0, term=i, n=n)
        # meshgrid=True: what partial_dependence evaluates on is _flatten_mesh(mesh): same rows as the meshgrid=False grid
        F = np.asarray(gam._flatten_mesh(Ms, term=i))
        if F.shape != G.shape or not np.array_equal(F, G):
            viol('_flatten_mesh(generate_X_grid(term, meshgrid=True)) differs from generate_X_grid(term, meshgrid=False) (by-column / other columns)',
                 F.tolist(), G.tolist(), term=i, n=n)
    # partial dependence without X: evaluated on the default grid (n = 100 per marginal) with the by-variable at one
    if k <= 2:
        G = np.asarray(gam.generate_X_grid(term=i))
        Gone = G.copy()
        if by is not None:
            Gone[:, by] = 1.0
        want = np.asarray(gam.partial_dependence(term=i, X=Gone), dtype=float)
        tol = 1e-12 * (np.abs(want).max() + 1e-300)
        got = np.asarray(gam.partial_dependence(term=i), dtype=float)
        gotm = np.asarray(gam.partial_dependence(term=i, meshgrid=True), dtype=float)
        res.case(('default-pdep', res.evaluations))
        if got.shape != want.shape or not np.allclose(got, want, rtol=0, atol=tol):
            viol('partial_dependence(term) without X is not the term evaluated on its default grid with the by-variable at one',
                 dict(max_abs_observed=float(np.abs(got).max()), max_abs_expected=float(np.abs(want).max())), 'equal',
                 term=i)
        if gotm.shape != (100,) * k or not np.allclose(gotm.ravel(), want, rtol=0, atol=tol):
            viol('partial_dependence(term, meshgrid=True) without X is not the term evaluated on its default mesh with the by-variable at one',
                 dict(shape=list(gotm.shape), max_abs_observed=float(np.abs(gotm).max()), max_abs_expected=float(np.abs(want).max())), 'equal, shape (100,)*k',
                 term=i)


# ----------------------------------------------------------------------------- user-supplied meshes
DTYPE_PATTERNS = [('int64', 'float64'), ('float32', 'float64'), ('int32', 'float64'), ('float64', 'int64'), ('float64', 'float32'),
                  ('float64', 'float64'), ('int64', 'float32')]


def user_axes(rng, scn, t, case_no):
    """one axis per marginal: mixed dtypes (int64 / int32 / float32 / float64), reversed order, non-uniform spacing, points beyond
    the edge knots; factor features stay on their integer levels"""
    ms = marginals(t)
    k = len(ms)
    pat = list(DTYPE_PATTERNS[case_no % len(DTYPE_PATTERNS)])
    while len(pat) < k:
        pat.append(rng.choice(['int64', 'int32', 'float32', 'float64']))
    if k == 1:
        pat = [rng.choice(['int64', 'int32', 'float32', 'float64'])]
    axes = []
    for s, dt in zip(ms, pat):
        lo, hi = sorted(float(v) for v in s.edge_knots_)
        cnt = rng.randint(2, 4 if k >= 3 else 6)
        if int(s.feature) in scn['factor_feats']:
            a = np.arange(int(round(lo + 0.5)), int(round(hi - 0.5)) + 1)
        elif dt.startswith('int'):
            start = int(math.floor(lo)) - rng.randint(0, 1)
            a = np.arange(start, start + cnt) * rng.choice([1, 1, 2])
        else:
            w = (hi - lo) or 1.0
            kind = rng.choice(['linspace', 'nonuniform', 'nonuniform'])
            if kind == 'linspace':
                a = np.linspace(lo - 0.2 * w, hi + 0.2 * w, cnt)
            else:
                a = np.sort(np.array([lo + (rng.random() * 1.6 - 0.3) * w for _ in range(cnt)]))
        if rng.random() < 0.3:
            a = a[::-1]
        axes.append(np.ascontiguousarray(a).astype(dt))
    return axes


def probe_user_mesh(res, gam, scn, i, t, viol, rng, case_no):
    """partial_dependence(term, X=<tuple of mesh arrays>, meshgrid=True) = the term at the same points given as a float64 feature
    matrix (by-variable at one), reshaped to the mesh shape -- whatever the dtype / memory layout of the individual arrays"""
    ms = marginals(t)
    k = len(ms)
    if k > 3:
        return None
    m = scn['X'].shape[1]
    by = getattr(t, 'by', None)
    axes = user_axes(rng, scn, t, case_no)
    Xs = list(np.meshgrid(*axes, indexing='ij'))
    if rng.random() < 0.25:
        Xs = [np.asfortranarray(a) for a in Xs]          # other memory layout, same logical array
    Xflat = np.zeros((Xs[0].size, m))
    for s, a in zip(ms, Xs):
        Xflat[:, int(s.feature)] = np.asarray(a, dtype=np.float64).ravel()
    if by is not None:
        Xflat[:, by] = 1.0
    inp = dict(term=i, mesh_axes=[a.tolist() for a in axes], mesh_dtypes=[str(a.dtype) for a in axes])
    res.case(('user-mesh', res.evaluations))
    res.count('user mesh dtypes:' + '+'.join(str(a.dtype) for a in axes))
    want = np.asarray(gam.partial_dependence(term=i, X=Xflat), dtype=float)
    got = np.asarray(gam.partial_dependence(term=i, X=tuple(Xs), meshgrid=True), dtype=float)
    F = np.asarray(gam._flatten_mesh(tuple(Xs), term=i))
    if F.shape != Xflat.shape or not np.array_equal(np.asarray(F, dtype=float), Xflat):
        r = int(np.argmax(np.abs(np.asarray(F, dtype=float) - Xflat).sum(axis=1))) if F.shape == Xflat.shape else 0
        viol('_flatten_mesh of a user-supplied mesh does not hold the mesh points (as float64) in the feature columns, by-column 1, zeros elsewhere',
             dict(dtype=str(F.dtype), row=np.asarray(F, dtype=float)[r].tolist() if F.shape == Xflat.shape else list(F.shape)), Xflat[r].tolist(), **inp)
    tol = 1e-12 * (np.abs(want).max() + 1e-300)
    if got.shape != Xs[0].shape or not np.allclose(got.ravel(), want, rtol=0, atol=tol):
        d = float(np.abs(got.ravel() - want).max()) if got.size == want.size else None
        viol('partial_dependence(term, X=<mesh tuple>, meshgrid=True) differs from partial_dependence at the same points given as a feature matrix',
             dict(shape=list(got.shape), max_abs_difference=d), dict(shape=list(Xs[0].shape), tolerance=tol), **inp)
    return axes, F


# ----------------------------------------------------------------------------- correspondence cases
def ambiguous_rows(terms, X):
    sl = [s for t in terms for s in c16.spline_like(t)]
    out = []
    for r in range(len(X)):
        out.append(any(c03.alternatives(X[r, f], ek, n, k, per) or c03.in_sliver(X[r, f], ek, per) for (f, ek, n, k, per) in sl))
    return out


def predict_case(res, gam, Xq):
    terms = gam.terms._terms
    with warnings.catch_warnings(), np.errstate(all='ignore'):
        warnings.simplefilter('ignore')
        lp = gam._linear_predictor(Xq)
        pds = [np.asarray(pd_term(gam, i, Xq), dtype=float) for i in range(len(terms))]
    rows = []
    for r in range(len(Xq)):
        rows.append('(%s, Some %s, %s)' % (coq_list([dylit(v) for v in Xq[r]]), dylit(lp[r]), coq_list([dylit(p[r]) for p in pds])))
    return '(CPredict %s %s %s%%Q %s)' % (coq_list([c16.term_coq(t) for t in terms]), coq_list([dylit(v) for v in gam.coef_]), qlit(TOL), coq_list(rows))


def grid_cases(res, gam, scn, rng):
    terms = gam.terms._terms
    lin = lin_list(terms)
    m = scn['X'].shape[1]
    out = []
    for i, t in enumerate(terms):
        k = max(1, len(marginals(t)))
        for n in ([1, 2, rng.randint(3, 9)] if k == 1 else ([2, rng.randint(3, 5)] if k == 2 else [rng.choice([2, 3])])):
            if t.isintercept:
                try:
                    gam.generate_X_grid(term=i, n=n)
                    grid = 'Some []'
                except ValueError:
                    grid = 'None'
                out.append(('(CGrid CIntercept %s %d %d %s%%Q %s [])' % (lin_coq(lin), m, n, qlit(TOL_GRID), grid), dict(term=i, n=n)))
                break
            G = np.asarray(gam.generate_X_grid(term=i, n=n), dtype=float)
            Ms = gam.generate_X_grid(term=i, n=n, meshgrid=True)
            eks = [abs(float(v)) for s in marginals(t) for v in s.edge_knots_]
            tol = TOL_GRID * max(1, int(max(eks)) + 1)
            grid = 'Some ' + coq_list([coq_list([dylit(v) for v in row]) for row in G])
            cols = coq_list([coq_list([dylit(v) for v in np.asarray(a, dtype=float).ravel()]) for a in Ms])
            out.append(('(CGrid %s %s %d %d %s%%Q (%s) %s)' % (c16.term_coq(t), lin_coq(lin), m, n, qlit(tol), grid, cols), dict(term=i, n=n)))
    return out


def mu_goals(scn, gam, Xq):
    link = gen_models.FAMILY[scn['cls']][0]
    fn = LINKFN[link]
    with warnings.catch_warnings(), np.errstate(all='ignore'):
        warnings.simplefilter('ignore')
        lp = gam._linear_predictor(Xq)
        mu = gam.predict_mu(Xq)
    goals, meta = [], []
    for e, v in zip(lp, mu):
        if not (math.isfinite(e) and math.isfinite(v)) or abs(e) > 600:
            continue
        tol = REL_MU * abs(common.frac_of_float(v))
        if tol == 0:
            tol = Fraction(1, 10 ** 300)
        goals.append('Rabs (%s 1 %s - %s) <= %s' % (fn, rlit(e), rlit(v), rlit_frac(tol)))
        meta.append(dict(cls=scn['cls'], link=link, lp=float(e), predict_mu=float(v)))
    return goals, meta


WANTS = ['any', 'tensor', 'by', 'factor', 'tensor-by', 'spline-by', 'twin', 'tensor']


def run(res):
    rng = common.rng_for(res.seed, PROP)
    nfits = 48 if res.tier == 'quick' else 600
    res.rule = ('seeded fitted models: the six model classes in turn x term mixes from harness/gen_models.py (splines ps/cp of order 0-4, linear, factor '
                'one-hot/dummy, tensor terms, by-variables; every 8 fits force: a tensor term, a spline with by, a factor, a tensor with by, twin terms (same feature and basis, other by / lam), a spline '
                'with by last) x fit_intercept on/off x weights none/float32; query matrices of 4-8 rows mixing in-range, +-40% outside, far '
                'extrapolation (up to 1000 training widths), exact end points; factor columns within the fitted levels. A case = one (fitted model, '
                'query matrix) or one (term, n) grid; rows within 1e-12 of a jump of an order-0/periodic basis or in the clipped periodic sliver (1, 1+1e-9] are not compared (counted).')
    common.standard_prove(res, PROPS_FILE, gen_targets=['links', 'predict'], extra=['Model/C02Check.vo'])
    warnings.simplefilter('ignore')
    cases, meta, goals, gmeta = [], [], [], []
    for i in range(nfits):
        cls = gen_models.CLASSES[i % len(gen_models.CLASSES)]
        want = WANTS[(i // len(gen_models.CLASSES) + i) % len(WANTS)]
        fit_intercept = rng.random() < 0.6
        scn = make_scenario(rng, cls, want, res.tier)
        desc = describe(scn, fit_intercept)
        try:
            gam = fit(scn, fit_intercept)
        except ValueError as e:
            res.count('fit raised %s' % type(e).__name__)
            continue
        except Exception as e:
            if type(e).__name__ == 'UFuncTypeError' and any(sp['kind'] == 'te' and sp.get('by') is not None for sp in scn['specs']):
                # TensorTerm.build_columns does `splines *= X[:, by]` on an integer array when every marginal basis is of order 0:
                # no fitted model exists, so C02 says nothing about it (reported as a suspected defect of C16/C11 territory)
                res.count('fit raised UFuncTypeError: tensor of order-0 marginals with by (no fitted model; reported)')
                continue
            res.violations.append(dict(what='fit failed with an unrelated exception type', finding=None, input=desc,
                                       observed='%s: %s' % (type(e).__name__, e), expected='a fitted model or ValueError'))
            continue
        if not np.isfinite(gam.coef_).all():
            res.count('non-finite coefficients (skipped)')
            continue
        terms = gam.terms._terms
        res.count('class:' + cls)
        res.count('fit_intercept:%s' % fit_intercept)
        for t in terms:
            res.count('term:' + type(t).__name__ + ('+by' if getattr(t, 'by', None) is not None else ''))
        Xq = gen_query(rng, scn['X'], scn['factor_feats'], rng.randint(4, 8))
        amb = ambiguous_rows(terms, Xq)
        res.count('rows_skipped(rounding-adjacent or periodic sliver)', sum(amb))
        Xq = Xq[[r for r in range(len(Xq)) if not amb[r]]]
        if len(Xq) == 0:
            continue
        desc = describe(scn, fit_intercept, Xq)
        far = bool(np.any((Xq < scn['X'].min(axis=0) - 5 * np.ptp(scn['X'], axis=0)) | (Xq > scn['X'].max(axis=0) + 5 * np.ptp(scn['X'], axis=0))))
        res.count('query with far extrapolation' if far else 'query near the training range')
        try:
            flat = []
            probe_model(res, gam, scn, desc, Xq, rng, flat_cases=flat)
        except Exception as e:
            res.violations.append(dict(what='evaluating the property statement on the implementation raised', finding=None, input=desc,
                                       observed='%s: %s' % (type(e).__name__, e), expected='predictions, partial dependences and grids'))
            continue
        try:
            cases.append(predict_case(res, gam, Xq))
            meta.append(dict(desc, kind='predict'))
            res.case(repr((cls, fit_intercept, scn['specs'], Xq.tolist())), nontrivial=len(terms) >= 1 and len(gam.coef_) >= 2,
                     sample=dict(cls=cls, fit_intercept=fit_intercept, specs=scn['specs']) if len(cases) in (1, 30) else None)
            for c, gm in grid_cases(res, gam, scn, rng):
                cases.append(c)
                meta.append(dict(desc, kind='grid', **gm))
                res.case(repr((cls, scn['specs'], gm['term'], gm['n'], i)), nontrivial=True)
            for c, gm in flat:
                cases.append(c)
                meta.append(dict(desc, kind='flatten', **gm))
            g, gmt = mu_goals(scn, gam, Xq)
            goals += g
            gmeta += [dict(m_, scenario=i) for m_ in gmt]
        except Exception as e:
            res.violations.append(dict(what='collecting implementation outputs raised', finding=None, input=desc,
                                       observed='%s: %s' % (type(e).__name__, e), expected='values'))
    with common.CaseDir(PROP) as cd:
        failing, errors = common.run_bool_cases(cd, HEADER, cases, 'check_case', shard=max(1, len(cases) // (common.NPROC * 2)))
        ifail, ierrors = common.run_interval_goals(cd, IHEADER, goals)
    for name, out in errors + ierrors:
        res.obligation('correspondence-file:' + name, False, detail=out, kind='correspondence')
    res.obligation('correspondence:C02 _linear_predictor / partial_dependence / generate_X_grid (model = implementation, exact rationals)',
                   not failing and not errors, detail='failing cases %s' % [(meta[i]['kind'], meta[i]['cls'], meta[i].get('term'), meta[i].get('n')) for i in failing[:10]],
                   kind='correspondence')
    res.obligation('correspondence:C02 predict_mu = generated inverse link of the linear predictor (interval-certified)', not ifail and not ierrors,
                   detail='failing goals %s' % [gmeta[i] for i in ifail[:5]], kind='correspondence')
    for i in failing:
        res.violations.append(dict(what='%s differs from the model (coq/Model/Predict.v)' % {'predict': 'linear predictor / partial dependence', 'grid': 'default grid', 'flatten': '_flatten_mesh of a user-supplied mesh'}[meta[i]['kind']],
                                   finding=None, input=meta[i], observed='implementation != model', expected='see coq/Model/Predict.v'))
    for i in ifail:
        res.violations.append(dict(what='predict_mu differs from the generated inverse link of the linear predictor by more than 1e-12 relative', finding=None,
                                   input=gmeta[i], observed=gmeta[i]['predict_mu'], expected='%s(lp)' % gmeta[i]['link']))
    for g in gmeta:
        res.case(('mu', g['scenario'], g['lp']))
    res.extra['correspondence_cases'] = len(cases)
    res.extra['interval_goals'] = len(goals)
    res.extra['tolerances'] = {
        'linear predictor, partial dependence': '|impl - model| <= 1e-8 * (1 + sum_j max(1,|column_j|) |coef_j|), exact rational arithmetic in Coq',
        'grids': '|impl - model| <= 1e-12 * max(1, |edge knots|, |value|); shapes exact',
        'predict_mu': '1e-12 relative to the generated inverse link of the implementation lp (interval, kernel-checked), |lp| <= 600',
        'direct probes': 'additivity 1e-8 * sum |terms|; link round trip only for |lp| <= 10 (logit) / 300; locality 1e-12; grids exact'}


def replay(res, rp):
    """refit the stored scenarios and evaluate the direct probes on them, then the full check"""
    rng = common.rng_for(res.seed, PROP, 'replay')
    for v in rp.get('failing_inputs', []):
        inp = v.get('input', {})
        if 'X_train' in inp and 'specs' in inp and 'X_query' in inp:
            scn = dict(cls=inp['cls'], specs=inp['specs'], X=np.array(inp['X_train']), y=np.array(inp['y']),
                       w=None if inp.get('weights_values') is None else np.array(inp['weights_values']), kw=inp['kw'],
                       factor_feats=tuple(inp.get('factor_feats', ())), regime=inp.get('regime'), n=inp.get('n'), m=inp.get('m'))
            try:
                gam = fit(scn, inp['fit_intercept'])
                probe_model(res, gam, scn, inp, np.array(inp['X_query']), rng)
            except Exception as e:
                res.violations.append(dict(what='replay raised', finding=None, input=inp, observed='%s: %s' % (type(e).__name__, e), expected='values'))
    run(res)
